/-! Scratch prototype of the C05 model: pyanalyze bind_arguments (literal shapes) vs CPython binder. -/
inductive Kind | posOnly | posOrKw | varPos | kwOnly | varKw
  deriving DecidableEq, Repr

structure Param where
  name : String
  kind : Kind
  dflt : Bool
  deriving DecidableEq, Repr

abbrev Sig := List Param

structure Call where
  npos : Nat
  kws  : List String   -- distinct
  deriving Repr

/-- CPython: positional fill, then keywords, then missing check. -/
def cpyBind (sig : Sig) (c : Call) : Bool :=
  let posParams := sig.filter (fun p => p.kind == .posOnly || p.kind == .posOrKw)
  let hasVarPos := sig.any (·.kind == .varPos)
  let hasVarKw  := sig.any (·.kind == .varKw)
  let nfilled := min c.npos posParams.length
  let filledPos := (posParams.take nfilled).map (·.name)
  -- too many positionals
  if c.npos > posParams.length && !hasVarPos then false else
  -- keyword targets: posOrKw and kwOnly names
  let kwTargets := (sig.filter (fun p => p.kind == .posOrKw || p.kind == .kwOnly)).map (·.name)
  let kwOk := c.kws.all (fun k =>
      if kwTargets.contains k then !(filledPos.contains k)   -- multiple values
      else hasVarKw)
  if !kwOk then false else
  -- every param without default must be filled
  sig.all (fun p => match p.kind with
    | .posOnly => p.dflt || filledPos.contains p.name
    | .posOrKw => p.dflt || filledPos.contains p.name || c.kws.contains p.name
    | .kwOnly  => p.dflt || c.kws.contains p.name
    | _ => true)

/-- pyanalyze bind_arguments restricted to literal calls (no star args, all definitely provided). -/
structure St where
  posIdx : Nat := 0
  consumed : List String := []
  starArgsConsumed : Bool := false
  starKwConsumed : Bool := false

def pyaStep (c : Call) (st : St) (p : Param) : Option St :=
  match p.kind with
  | .posOnly =>
    if st.posIdx < c.npos then some { st with posIdx := st.posIdx + 1 }
    else if p.dflt then some st else none
  | .posOrKw =>
    if st.posIdx < c.npos then
      if c.kws.contains p.name then none
      else some { st with posIdx := st.posIdx + 1 }
    else if c.kws.contains p.name then some { st with consumed := p.name :: st.consumed }
    else if p.dflt then some st else none
  | .kwOnly =>
    if c.kws.contains p.name then some { st with consumed := p.name :: st.consumed }
    else if p.dflt then some st else none
  | .varPos => some { st with posIdx := max st.posIdx c.npos, starArgsConsumed := true }
  | .varKw => some { st with starKwConsumed := true }

def pyaBind (sig : Sig) (c : Call) : Bool :=
  match sig.foldlM (pyaStep c) ({} : St) with
  | none => false
  | some st =>
    if !st.starArgsConsumed && st.posIdx != c.npos then false
    else if !st.starKwConsumed && (c.kws.filter (fun k => !st.consumed.contains k)) != [] then false
    else true

def p (n : String) (k : Kind) (d := false) : Param := ⟨n, k, d⟩
#eval pyaBind [p "a" .posOnly, p "b" .posOrKw, p "kw" .varKw] ⟨1, ["a","b"]⟩
#eval cpyBind [p "a" .posOnly, p "b" .posOrKw, p "kw" .varKw] ⟨1, ["a","b"]⟩
#eval pyaBind [p "a" .posOrKw, p "b" .posOrKw true] ⟨1, ["a"]⟩
#eval cpyBind [p "a" .posOrKw, p "b" .posOrKw true] ⟨1, ["a"]⟩

-- exhaustive small-scope agreement check (a test, not the theorem)
def kinds : List Kind := [.posOnly, .posOrKw, .varPos, .kwOnly, .varKw]
def wf (sig : Sig) : Bool :=
  let ks := sig.map (·.kind)
  let rank : Kind → Nat := fun | .posOnly => 0 | .posOrKw => 1 | .varPos => 2 | .kwOnly => 3 | .varKw => 4
  let rs := ks.map rank
  (rs.zip rs.tail).all (fun (a, b) => a ≤ b) &&
  (ks.filter (· == .varPos)).length ≤ 1 && (ks.filter (· == .varKw)).length ≤ 1 &&
  (sig.map (·.name)).Nodup &&
  sig.all (fun q => !(q.dflt && (q.kind == .varPos || q.kind == .varKw))) &&
  -- defaults: once a positional has a default, later positionals must too
  (let ps := sig.filter (fun q => q.kind == .posOnly || q.kind == .posOrKw)
   (ps.zip ps.tail).all (fun (a, b) => !a.dflt || b.dflt))

def allSigs (names : List String) : List Sig :=
  let opts : List (List Param) := names.map (fun n => (kinds.flatMap fun k => [p n k false, p n k true]))
  -- signatures using a prefix of names
  (List.range (names.length + 1)).flatMap fun len =>
    (opts.take len).foldr (fun os acc => os.flatMap fun o => acc.map (o :: ·)) [[]]

def subl : List String → List (List String)
  | [] => [[]]
  | x :: xs => (subl xs) ++ (subl xs).map (x :: ·)
def allCalls (names : List String) : List Call :=
  (List.range 4).flatMap fun n => (subl names).map fun ks => ⟨n, ks⟩

def disagreements : Nat :=
  ((allSigs ["a","b","c"]).filter wf).foldl (fun acc s =>
     acc + ((allCalls ["a","b","c","z"]).filter (fun c => pyaBind s c != cpyBind s c)).length) 0
#eval ((allSigs ["a","b","c"]).filter wf).length
#eval disagreements
