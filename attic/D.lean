partial def loop (h : IO.FS.Stream) (n : Nat) : IO Unit := do
  let line ← h.getLine
  if line.isEmpty then IO.eprintln s!"{n}"; return ()
  IO.println (line.trimAscii.toString.splitOn " ").length
  loop h (n+1)
def main : IO Unit := do loop (← IO.getStdin) 0
