/-! Spike: closed form of the positional-only segment of the pyanalyze binder fold. -/
structure St where
  posIdx : Nat := 0
  consumed : List String := []
  sa : Bool := false
  sk : Bool := false
  deriving Repr

def stepPO (npos : Nat) (st : St) (p : String × Bool) : Option St :=
  if st.posIdx < npos then some { st with posIdx := st.posIdx + 1 }
  else if p.2 then some st else none

/-- Closed form: the fold over a positional-only segment succeeds iff every parameter beyond
the supplied positionals has a default; the index advances by min. -/
theorem foldPO (npos : Nat) (ps : List (String × Bool)) (st : St) :
    ps.foldlM (stepPO npos) st =
      if (∀ i (h : i < ps.length), st.posIdx + i < npos ∨ (ps[i]).2 = true)
      then some { st with posIdx := st.posIdx + min ps.length (npos - st.posIdx) }
      else none := by
  induction ps generalizing st with
  | nil => simp
  | cons p ps ih =>
    simp only [List.foldlM_cons, stepPO]
    by_cases h : st.posIdx < npos
    · simp only [h, if_true, Option.bind_eq_bind, Option.bind_some]
      rw [ih]
      have : ∀ (P Q : Prop) [Decidable P] [Decidable Q] (a b : Option St), (P ↔ Q) → a = b →
          (if P then a else none) = (if Q then b else none) := by
        intro P Q _ _ a b hpq hab; subst hab; by_cases hp : P <;> simp [hp, hpq.mp, *] <;> simp_all
      apply this
      · constructor
        · intro H i hi
          cases i with
          | zero => left; simpa using h
          | succ j =>
            have := H j (by simpa using hi)
            simp only [List.length_cons] at hi
            rcases this with h1 | h1
            · left; simp only at h1; omega
            · right; simpa using h1
        · intro H j hj
          have := H (j+1) (by simp; omega)
          rcases this with h1 | h1
          · left; simp only [] at h1 ⊢; omega
          · right; simpa using h1
      · simp only [List.length_cons]; congr 1; simp only []; omega
    · have hge : npos ≤ st.posIdx := Nat.le_of_not_lt h
      by_cases hd : p.2 = true
      · simp only [h, if_false, hd, if_true, Option.bind_eq_bind, Option.bind_some]
        rw [ih]
        have e0 : npos - st.posIdx = 0 := by omega
        have : (∀ i (hi : i < ps.length), st.posIdx + i < npos ∨ (ps[i]).2 = true) ↔
               (∀ i (hi : i < (p :: ps).length), st.posIdx + i < npos ∨ ((p :: ps)[i]).2 = true) := by
          constructor
          · intro H i hi
            cases i with
            | zero => right; simpa using hd
            | succ j => simpa using H j (by simpa using hi)
          · intro H j hj
            simpa using H (j+1) (by simp; omega)
        by_cases hq : (∀ i (hi : i < ps.length), st.posIdx + i < npos ∨ (ps[i]).2 = true)
        · simp [hq, this.mp hq, e0]
        · have hq' := mt this.mpr hq
          simp [hq, hq']
      · have : ¬ (∀ i (hi : i < (p :: ps).length), st.posIdx + i < npos ∨ ((p :: ps)[i]).2 = true) := by
          intro H
          have := H 0 (by simp)
          simp at this
          rcases this with h1 | h1
          · omega
          · exact hd h1
        simp [h, hd, this]
