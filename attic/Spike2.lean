/-! Spike 2: same lemma with a structurally recursive closed form. -/
def stepPO (npos : Nat) (idx : Nat) (p : String × Bool) : Option Nat :=
  if idx < npos then some (idx + 1) else if p.2 then some idx else none

/-- closed form, recursive over the segment -/
def segPO (npos : Nat) : Nat → List (String × Bool) → Option Nat
  | idx, [] => some idx
  | idx, p :: ps => if idx < npos then segPO npos (idx + 1) ps
                    else if p.2 then segPO npos idx ps else none

theorem foldPO (npos : Nat) (ps : List (String × Bool)) (idx : Nat) :
    ps.foldlM (stepPO npos) idx = segPO npos idx ps := by
  induction ps generalizing idx with
  | nil => simp [segPO]
  | cons p ps ih =>
    simp only [List.foldlM_cons, stepPO, segPO]
    split
    · simp [ih]
    · split <;> simp [ih]

/-- declarative reading of the closed form -/
theorem segPO_some (npos : Nat) (ps : List (String × Bool)) (idx : Nat) :
    segPO npos idx ps = (if (ps.drop (npos - idx)).all (·.2) then some (idx + min ps.length (npos - idx)) else none) := by
  induction ps generalizing idx with
  | nil => simp [segPO]
  | cons p ps ih =>
    simp only [segPO]
    by_cases h : idx < npos
    · have e : npos - idx = (npos - (idx + 1)) + 1 := by omega
      simp only [h, if_true, ih, e, List.drop_succ_cons, List.length_cons]
      split <;> simp <;> omega
    · have e : npos - idx = 0 := by omega
      simp only [h, if_false, e, List.drop_zero, List.all_cons, ih]
      cases hp : p.2 <;> simp
#print axioms segPO_some
