inductive Obj where
  | int (n : Int) | bool (b : Bool) | str (s : String) | none
  | inst (c : Nat) (id : Nat)
  | tuple (xs : List Obj) | list (xs : List Obj)
  deriving Repr, BEq

inductive Ty where
  | any | known (o : Obj) | typed (c : Nat)
  | generic (c : Nat) (args : List Ty)
  | seq (c : Nat) (ms : List (Bool × Ty))
  | union (ts : List Ty)
  deriving Repr, BEq

mutual
def mem (sub : Nat → Nat → Bool) (cls : Obj → Nat) : Obj → Ty → Bool
  | _, .any => true
  | o, .known k => o == k
  | o, .typed c => sub (cls o) c
  | o, .generic c args => sub (cls o) c && (match o, args with
      | .list xs, [t] => memAll sub cls xs t
      | .tuple xs, [t] => memAll sub cls xs t
      | _, _ => true)
  | o, .union ts => memAny sub cls o ts
  | o, .seq c ms => sub (cls o) c
def memAll (sub : Nat → Nat → Bool) (cls : Obj → Nat) : List Obj → Ty → Bool
  | [], _ => true
  | x :: xs, t => mem sub cls x t && memAll sub cls xs t
def memAny (sub : Nat → Nat → Bool) (cls : Obj → Nat) : Obj → List Ty → Bool
  | _, [] => false
  | o, t :: ts => mem sub cls o t || memAny sub cls o ts
end

#eval mem (fun a b => a == b) (fun _ => 0) (.int 1) (.union [.known (.int 2), .typed 0])

theorem memAny_append (sub cls) (o : Obj) (a b : List Ty) :
    memAny sub cls o (a ++ b) = (memAny sub cls o a || memAny sub cls o b) := by
  induction a with
  | nil => simp [memAny]
  | cons t ts ih => simp [memAny, ih, Bool.or_assoc]

-- toy canAssign: union on right distributes, union on left any
mutual
def ca (sub : Nat → Nat → Bool) : Ty → Ty → Bool
  | a, .union bs => caAllR sub a bs
  | .any, _ => true
  | .union as, b => caAnyL sub as b
  | .typed c, .typed d => sub d c
  | _, _ => false
def caAllR (sub : Nat → Nat → Bool) : Ty → List Ty → Bool
  | _, [] => true
  | a, b :: bs => ca sub a b && caAllR sub a bs
def caAnyL (sub : Nat → Nat → Bool) : List Ty → Ty → Bool
  | [], _ => false
  | a :: as, b => ca sub a b || caAnyL sub as b
end

theorem ca_sound (sub : Nat → Nat → Bool) (cls : Obj → Nat)
    (htrans : ∀ a b c, sub a b → sub b c → sub a c) :
    ∀ (a b : Ty) (o : Obj), ca sub a b = true → mem sub cls o b = true → mem sub cls o a = true := by
  intro a b
  fun_induction ca sub a b <;> sorry
