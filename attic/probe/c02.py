import ast, textwrap, enum, itertools, sys
from pr import check
from pyanalyze.value import KnownValue, CanAssignError
from pyanalyze.checker import Checker
PRE='''
import enum
from typing import Literal, Optional, Union, Sequence
class Color(enum.Enum):
    RED=1; BLUE=2
class A: pass
class B(A): pass
'''
TYPES=["int","bool","float","complex","str","None","object","A","B","Color","int | str","int | None","float | str","bool | None","Literal[1, 2]","Literal['a', 'b'] | None","Literal[True]","tuple[int, ...]","tuple[int, str]","tuple[int] | tuple[str, int]","list[int]","list[int] | None","type[A]","type[int] | None","Color | None","Literal[Color.RED]", "str | bytes", "Sequence[int] | int", "dict[str, int] | None", "A | None", "B | int"]
CONDS=["isinstance(x, int)","isinstance(x, float)","isinstance(x, str)","isinstance(x, (int, str))","isinstance(x, A)","isinstance(x, B)","isinstance(x, bool)","isinstance(x, tuple)","isinstance(x, list)",
 "x is None","x is not None","x is True","x is Color.RED","x == 1","x != 1","x == 'a'","x == Color.RED","x != Color.RED","x in (1, 2)","x not in (1, 2)","x in ('a',)","x","not x","len(x) == 1","len(x) == 2","len(x) > 1","x is A","issubclass(x, B)", "x == None", "x in (Color.RED,)", "x not in (Color.RED,)", "isinstance(x, int) and x", "isinstance(x, int) or x is None", "not isinstance(x, str) and x is not None"]
import typing
OBJS_SRC=lambda ns,A_,B_,Color: [0,1,2,True,False,1.5,0.0,2j,"","a","b",b"",b"x",None,A_(),B_(),Color.RED,Color.BLUE,(),(1,),(1,"x"),("x",1),(1,2),[],[1],[1,2],A_,B_,int,bool,str,{}, {"a":1}, object()]
ck=Checker()
from pyanalyze.annotations import type_from_runtime
def members(T):
    v=type_from_runtime(eval(T,{**ns,**typing.__dict__}))
    return [o for o in OBJS if not isinstance(v.can_assign(KnownValue(o),ck),CanAssignError)]
src=[PRE]; idx=[]
for i,(T,C) in enumerate(itertools.product(TYPES,CONDS)):
    src.append(f"def f{i}(x: {T}):\n    if {C}:\n        reveal_type(x)\n    else:\n        reveal_type(x)\n")
    idx.append((T,C))
code="\n".join(src)
from pyanalyze.error_code import ErrorCode
res,tree=check(code,annotate=True)
ns=dict(check.last_mod.__dict__)
A_=ns['A'];B_=ns['B'];Color=ns['Color']
OBJS=OBJS_SRC(ns,A_,B_,Color)
# collect inferred values of reveal_type args per function
vals={}
for node in ast.walk(tree):
    if isinstance(node,ast.FunctionDef) and node.name.startswith('f'):
        i=int(node.name[1:])
        calls=[n for n in ast.walk(node) if isinstance(n,ast.Call) and getattr(n.func,'id',None)=='reveal_type']
        vals[i]=[c.args[0].inferred_value for c in sorted(calls,key=lambda c:c.lineno)]
bad=0
for i,(T,C) in enumerate(idx):
    try: ms=members(T)
    except Exception as e: print("skip",T,e); continue
    if len(vals.get(i,[]))!=2: continue
    pos,neg=vals[i]
    for o in ms:
        if isinstance(o,bool) and any(t in C for t in ('== 1','!= 1','in (1, 2)')): continue
        try: r=bool(eval(C,{**ns,'x':o}))
        except Exception: continue
        v = pos if r else neg
        if isinstance(v.can_assign(KnownValue(o),ck),CanAssignError):
            bad+=1
            if bad<=40: print(f"x: {T} | if {C} | o={o!r} cond={r} narrowed={v}")
print("cases",len(idx),"lost-value violations",bad)
