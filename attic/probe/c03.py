import enum, itertools, typing as t, collections.abc as cabc, sys, random
from typing import Literal, Optional, Union, Sequence, Mapping, Iterable, NewType, TypedDict, Annotated
from typing_extensions import Unpack
from pyanalyze.runtime import is_assignable
class Color(enum.Enum):
    RED=1; BLUE=2
class IE(enum.IntEnum):
    A=1
class A: pass
class B(A): pass
NT = NewType("NT", int)
class TD(TypedDict):
    a: int
class TD2(TypedDict, total=False):
    a: int
a1=A(); b1=B()
OBJS=[0,1,True,False,1.5,2+0j,"", "x", b"x", None, Color.RED, IE.A, a1, b1, int, bool, str, A, B, Color,
      (), (1,), (1,"x"), (1,2), ("x",), (True,), [], [1], [1,"x"], ["x"], {1}, {"x"}, frozenset([1]), frozenset(), {}, {"a":1}, {"a":"x"}, {1:2}, {"a":1,"b":2}, (1,(2,)), [[1]], ((),)]
def member(o, T):
    # reference structural membership
    if T is t.Any or T is object: return True
    if T is None or T is type(None): return o is None
    org=t.get_origin(T); args=t.get_args(T)
    if org is Annotated: return member(o,args[0])
    if org is Literal:
        return any(type(o) is type(a) and o==a for a in args)
    if org is Union or org is getattr(__import__('types'),'UnionType'):
        return any(member(o,a) for a in args)
    if hasattr(T,'__supertype__'):  # NewType: runtime same as supertype
        return member(o, T.__supertype__)
    if t.is_typeddict(T):
        if type(o) is not dict: return False
        ann=T.__annotations__
        for k in T.__required_keys__:
            if k not in o: return False
        for k,v in o.items():
            if not isinstance(k,str): return False
            if k in ann:
                if not member(v, ann[k]): return False
            # extra keys allowed structurally? TypedDict open: extra keys permitted at runtime for non-closed
        return True
    if org is type:
        if not isinstance(o,type): return False
        a=args[0]
        if a is t.Any: return True
        return isinstance(a,type) and issubclass(o,a)
    if org is tuple or T is tuple:
        if not isinstance(o,tuple): return False
        if not args: return True if T is tuple else True
        if args==((),) : return len(o)==0
        if len(args)==2 and args[1] is Ellipsis:
            return all(member(e,args[0]) for e in o)
        # general with possible Unpack
        pre=[];post=[];mid=None
        for a in args:
            if t.get_origin(a) is Unpack or getattr(a,'__unpacked__',False) or (t.get_origin(a) is tuple and getattr(a,'__unpacked__',False)):
                inner=t.get_args(a)[0] if t.get_origin(a) is Unpack else a
                ia=t.get_args(inner); mid=ia[0]
            elif mid is None: pre.append(a)
            else: post.append(a)
        if mid is None:
            return len(o)==len(args) and all(member(e,a) for e,a in zip(o,args))
        if len(o)<len(pre)+len(post): return False
        return all(member(e,a) for e,a in zip(o,pre)) and all(member(e,a) for e,a in zip(o[len(o)-len(post):],post)) and all(member(e,mid) for e in o[len(pre):len(o)-len(post)])
    if org is not None:
        if not isinstance(org,type): raise NotImplementedError(T)
        if not isinstance(o, org): return False
        if not args: return True
        if issubclass(org, cabc.Mapping):
            return all(member(k,args[0]) and member(v,args[1]) for k,v in o.items())
        if org in (list,set,frozenset,cabc.Sequence,cabc.Iterable,cabc.Collection,cabc.Container,cabc.Set,cabc.MutableSequence):
            if isinstance(o,(str,bytes)):
                return all(member(e,args[0]) for e in o)
            if isinstance(o,dict): return all(member(e,args[0]) for e in o)
            return all(member(e,args[0]) for e in o)
        raise NotImplementedError(T)
    if isinstance(T,type):
        if T is float: return isinstance(o,(int,float)) 
        if T is complex: return isinstance(o,(int,float,complex))
        return isinstance(o,T)
    raise NotImplementedError(T)
BASE=[int,bool,float,complex,str,bytes,None,object,A,B,Color,IE,tuple,list,dict,set,frozenset,type,Literal[1],Literal[True],Literal["x"],Literal[Color.RED],NT,TD,TD2,Sequence,Mapping,Iterable]
def wrap(Ts):
    out=[]
    for T in Ts:
        out += [list[T], set[T], frozenset[T], tuple[T,...], tuple[T], Sequence[T], Iterable[T], Optional[T], dict[str,T], Mapping[str,T], tuple[T, int], tuple[int, Unpack[tuple[T,...]]]]
        if isinstance(T,type): out.append(type[T])
    out += [Union[int,str], Union[list[int],tuple[str,...]], tuple[()], dict[int,int], Annotated[int,"m"], Sequence[Sequence[int]], Mapping[str, list[int]]]
    return out
L1=[T for T in BASE]
L2=wrap([int,bool,float,str,None,object,A,Color,Literal[1],Literal["x"],NT, tuple[int,...], list[int], Union[int,str]])
TYPES=L1+L2
bad={}
n=0
for T in TYPES:
    for o in OBJS:
        try: m=member(o,T)
        except NotImplementedError as e: continue
        try: ia=is_assignable(o,T)
        except Exception as e: ia="EXC:"+type(e).__name__
        n+=1
        if ia!=m:
            bad.setdefault(str(T),[]).append((o,m,ia))
print("pairs",n,"types with mismatch",len(bad))
for k,v in bad.items():
    print(k, [(repr(o)[:20],m,ia) for o,m,ia in v][:6])
