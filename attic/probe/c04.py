from c03 import *
import io, contextlib
from pyanalyze.annotations import type_from_runtime
from pyanalyze.checker import Checker
from pyanalyze.value import CanAssignError
ck=Checker()
TY=[T for T in TYPES if T not in (NT,)]
vals={}
for T in TY:
    try: vals[id(T)]=type_from_runtime(T)
    except Exception as e: pass
def mem_all(T):
    out=[]
    for o in OBJS:
        try: out.append(member(o,T))
        except NotImplementedError: return None
    return out
memo={id(T):mem_all(T) for T in TY}
unsound={}; nacc=0; npairs=0; nonrefl=[]
for A_ in TY:
    va=vals.get(id(A_)); ma=memo[id(A_)]
    if va is None or ma is None: continue
    if isinstance(va.can_assign(va,ck),CanAssignError): nonrefl.append(A_)
    for B_ in TY:
        vb=vals.get(id(B_)); mb=memo[id(B_)]
        if vb is None or mb is None: continue
        npairs+=1
        r=va.can_assign(vb,ck)
        if isinstance(r,CanAssignError): continue
        nacc+=1
        w=[OBJS[i] for i in range(len(OBJS)) if mb[i] and not ma[i]]
        if w: unsound.setdefault(str(A_),[]).append((str(B_),repr(w[0])[:25]))
print("pairs",npairs,"accepted",nacc,"unsound lhs types",len(unsound),"nonreflexive",[str(x) for x in nonrefl])
for k,v in unsound.items(): print(k,"<-",v[:5], len(v))
