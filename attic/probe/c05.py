import itertools, random, sys
from pr import check
random.seed(1)
# build signatures
def gen_sig(rng):
    params=[]; names=iter("abcdef")
    npos=rng.randint(0,2); npk=rng.randint(0,2); var=rng.random()<0.4; nkw=rng.randint(0,2); kw=rng.random()<0.4
    parts=[]
    defaults_started=False
    for i in range(npos):
        n=next(names); d=rng.random()<0.3 or defaults_started
        defaults_started = defaults_started or d
        parts.append(n+("=0" if d else ""))
    if npos: parts.append("/")
    for i in range(npk):
        n=next(names); d=rng.random()<0.3 or defaults_started
        defaults_started = defaults_started or d
        parts.append(n+("=0" if d else ""))
    if var: parts.append("*args")
    elif nkw: parts.append("*")
    for i in range(nkw):
        n=next(names); d=rng.random()<0.5
        parts.append(n+("=0" if d else ""))
    if kw: parts.append("**kw")
    return ", ".join(parts)
def gen_call(rng):
    npos=rng.randint(0,3)
    kws=rng.sample("abcdefz", rng.randint(0,3))
    parts=["1"]*npos
    if rng.random()<0.25: parts.append("*(1,2)"[:rng.choice([4,6,7])] if False else rng.choice(["*()", "*(1,)", "*(1,2)"]))
    parts += [f"{k}=1" for k in kws]
    if rng.random()<0.25: parts.append(rng.choice(["**{}", "**{'a':1}", "**{'e':1,'z':2}"]))
    return ", ".join(parts)
rng=random.Random(int(sys.argv[1]) if len(sys.argv)>1 else 0)
N=int(sys.argv[2]) if len(sys.argv)>2 else 150
lines=[]; cases=[]
for i in range(N):
    s=gen_sig(rng); c=gen_call(rng)
    cases.append((s,c))
src="".join(f"def f{i}({s}): pass\n" for i,(s,c) in enumerate(cases))
src+="def run():\n"
for i,(s,c) in enumerate(cases):
    src+=f"    f{i}({c})\n"
res,_=check(src)
bad=set(r['lineno'] for r in res if r['code'].name in ('incompatible_call',))
other=[r for r in res if r['code'].name not in ('incompatible_call',)]
ns={}
exec("".join(f"def f{i}({s}): pass\n" for i,(s,c) in enumerate(cases)),ns)
mism=0
for i,(s,c) in enumerate(cases):
    try:
        eval(f"f{i}({c})",ns); ok=True
    except TypeError as e: ok=False
    line=N+2+i
    pya_err = line in bad
    if pya_err == ok:
        mism+=1; print("MISMATCH", f"def f({s})", f"f({c})", "cpython_ok=",ok, "pya_err=",pya_err)
print("mismatches",mism,"of",N, "other codes", set(r['code'].name for r in other))
print("pya errors:", len(bad), "other:", len(other))
