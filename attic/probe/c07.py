import random, sys, inspect
from c05 import gen_sig
from pyanalyze.checker import Checker
from pyanalyze.value import CanAssignError
def calls():
    out=[]
    import itertools
    for npos in range(0,4):
        for k in range(0,3):
            for kws in itertools.combinations("abcde",k):
                out.append(([1]*npos, {n:1 for n in kws}))
    return out
CALLS=calls()
rng=random.Random(int(sys.argv[1]))
ck=Checker()
found=0; acc=0
for it in range(int(sys.argv[2])):
    s1=gen_sig(rng); s2=gen_sig(rng)
    ns={}
    exec(f"def exp({s1}): pass\ndef act({s2}): pass",ns)
    e=ck.get_signature(ns['exp']); a=ck.get_signature(ns['act'])
    r=e.can_assign(a,ck)
    if isinstance(r,CanAssignError): continue
    acc+=1
    for (p,k) in CALLS:
        try: inspect.signature(ns['exp']).bind(*p,**k)
        except TypeError: continue
        try: inspect.signature(ns['act']).bind(*p,**k)
        except TypeError as ex:
            found+=1
            if found<=12: print(f"exp({s1}) <- act({s2}) call pos={len(p)} kw={list(k)}: {ex}")
            break
print("accepted",acc,"unsound",found)
