import random, re, sys, itertools
from pr import check
from pyanalyze.annotations import type_from_runtime
from pyanalyze.checker import Checker
from pyanalyze.value import CanAssignError
import typing
rng=random.Random(int(sys.argv[1]))
N=int(sys.argv[2])
PT=["int","str","bytes","None","object","float","bool","int | str","list[int]","Literal[1]"]
RT=["int","str","bytes","None","float","list[int]","list[str]","bool"]
AT=["int","str","bytes","None","float","bool","list[int]","Literal[1]","object"]
ck=Checker()
def val(t): return type_from_runtime(eval(t,{**typing.__dict__}))
def acc(p,a): return not isinstance(val(p).can_assign(val(a),ck),CanAssignError)
src=["from typing import *",""]
sets=[]
for i in range(N):
    k=rng.randint(2,4); ovs=[]
    for j in range(k):
        n=rng.randint(1,2)
        ps=[rng.choice(PT) for _ in range(n)]
        dflt = n==2 and rng.random()<0.3
        ovs.append((ps,dflt,rng.choice(RT)))
    sets.append(ovs)
    for (ps,dflt,r) in ovs:
        src.append("@overload")
        params=", ".join(f"p{q}: {t}"+(" = ..." if (dflt and q==1) else "") for q,t in enumerate(ps))
        src.append(f"def o{i}({params}) -> {r}: ...")
    src.append(f"def o{i}(*args): return None")
calls=[]
for i in range(N):
    for c in range(6):
        n=rng.randint(1,2); at=[rng.choice(AT) for _ in range(n)]
        calls.append((i,at))
        args=", ".join(f"a{q}: {t}" for q,t in enumerate(at))
        src.append(f"def c{len(calls)-1}({args}):")
        src.append(f"    reveal_type(o{i}({', '.join(f'a{q}' for q in range(n))}))  #C{len(calls)-1}")
code="\n".join(src)+"\n"
res,_=check(code)
lines=code.splitlines()
got={}; err={}
for r in res:
    m=re.search(r'#C(\d+)',lines[r['lineno']-1])
    if not m: continue
    c=int(m.group(1))
    if r['code'].name=='reveal_type': got[c]=r['description'].split("'",1)[1].rsplit("'",1)[0]
    else: err[c]=r['code'].name
bad=0
for c,(i,at) in enumerate(calls):
    exp=None
    for (ps,dflt,r) in sets[i]:
        if len(at)>len(ps) or (len(at)<len(ps) and not (dflt and len(at)==len(ps)-1)): continue
        if all(acc(p,a) for p,a in zip(ps,at)): exp=r; break
    g=got.get(c); e=err.get(c)
    ok = (exp is None and e is not None) or (exp is not None and e is None and g is not None and str(val(exp))==g)
    if not ok:
        bad+=1
        if bad<=10: print("overloads",sets[i],"args",at,"expected",exp,"got",g,"err",e)
print("calls",len(calls),"mismatch",bad)
