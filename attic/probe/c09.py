"""Scratch: compare pyanalyze reaching defs with CFG analysis on small skeletons."""
import itertools, sys, random, re
from pr import check
# Statement AST: ('asg',d) x=d ; ('use',u) ; ('call',) ; ('if',[..],[..]) ; ('while',T?,[..],[..]) ; ('for',[..],[..]);
# ('brk',),('cont',),('ret',),('raise',); ('try',body,[handlers],else,final); 
def render(stmts, ind, out, ctr, inloop):
    if not stmts:
        out.append(" "*ind+"pass"); return
    for s in stmts:
        k=s[0]; p=" "*ind
        if k=='asg': out.append(f"{p}x = {s[1]}")
        elif k=='use': out.append(f"{p}reveal_type(x)  #U{s[1]}")
        elif k=='call': out.append(f"{p}cond()")
        elif k=='if':
            out.append(f"{p}if cond():"); render(s[1],ind+4,out,ctr,inloop)
            if s[2]: out.append(f"{p}else:"); render(s[2],ind+4,out,ctr,inloop)
        elif k=='while':
            out.append(f"{p}while {'True' if s[1] else 'cond()'}:"); render(s[2],ind+4,out,ctr,True)
            if s[3]: out.append(f"{p}else:"); render(s[3],ind+4,out,ctr,inloop)
        elif k=='for':
            out.append(f"{p}for _ in seq():"); render(s[1],ind+4,out,ctr,True)
            if s[2]: out.append(f"{p}else:"); render(s[2],ind+4,out,ctr,inloop)
        elif k=='brk': out.append(f"{p}break")
        elif k=='cont': out.append(f"{p}continue")
        elif k=='ret': out.append(f"{p}return")
        elif k=='raise': out.append(f"{p}raise ValueError")
        elif k=='try':
            out.append(f"{p}try:"); render(s[1],ind+4,out,ctr,inloop)
            for h in s[2]:
                out.append(f"{p}except Exception:"); render(h,ind+4,out,ctr,inloop)
            if s[3]: out.append(f"{p}else:"); render(s[3],ind+4,out,ctr,inloop)
            if s[4] is not None: out.append(f"{p}finally:"); render(s[4],ind+4,out,ctr,inloop)
# ---- CFG semantics by exhaustive abstract path exploration (set-based dataflow, exact for reaching defs)
# state: frozenset of possible defs for x (ints or 'U')
class Out:
    def __init__(s): s.norm=set(); s.brk=set(); s.cont=set(); s.ret=set(); s.exc=set()
def run(stmts, ins, mode, uses):
    """ins: set of defs reaching entry. returns Out (sets of defs at each exit kind). mode strict/liberal"""
    o=Out(); cur=set(ins)
    for s in stmts:
        if not cur: break
        r=step(s,cur,mode,uses)
        o.brk|=r.brk; o.cont|=r.cont; o.ret|=r.ret; o.exc|=r.exc
        if mode=='liberal': o.exc|=cur|r.norm
        cur=r.norm
    o.norm=cur
    return o
def step(s, ins, mode, uses, in_try=False):
    o=Out(); k=s[0]
    if k=='asg': o.norm={s[1]}
    elif k=='use': uses.setdefault(s[1],set()).update(ins); o.norm=set(ins)
    elif k=='call': o.norm=set(ins); o.exc=set(ins)
    elif k=='if':
        a=run(s[1],ins,mode,uses); b=run(s[2],ins,mode,uses)
        for f in ('norm','brk','cont','ret','exc'): setattr(o,f,getattr(a,f)|getattr(b,f))
    elif k in('while','for'):
        if k=='while': always, body, orelse = s[1], s[2], s[3]
        else: always, body, orelse = False, s[1], s[2]
        head=set(ins); exits_brk=set(); 
        while True:
            r=run(body,head,mode,uses)
            new=head|r.norm|r.cont
            o.ret|=r.ret; o.exc|=r.exc; exits_brk|=r.brk
            lib_exit = (r.norm|r.cont) if mode=='liberal' else set()
            if new==head: break
            head=new
        r=run(body,head,mode,uses); exits_brk|=r.brk; o.ret|=r.ret; o.exc|=r.exc
        lib_exit=(r.norm|r.cont) if mode=='liberal' else set()
        # normal termination: cond false at head (not for strict while True)
        norm_term = set() if (always and mode=='strict') else set(head)
        if k=='for' or not always or mode=='liberal': norm_term=set(head)
        if always and mode=='strict': norm_term=set()
        e=run(orelse,norm_term,mode,uses) if norm_term else Out()
        o.norm=e.norm|exits_brk|lib_exit; o.brk|=e.brk; o.cont|=e.cont; o.ret|=e.ret; o.exc|=e.exc
        if k=='for': o.exc|=set(ins)  # iterator call may raise? treat seq() call as call
    elif k=='brk': o.brk=set(ins)
    elif k=='cont': o.cont=set(ins)
    elif k=='ret': o.ret=set(ins)
    elif k=='raise': o.exc=set(ins)
    elif k=='try':
        body,handlers,orelse,final=s[1],s[2],s[3],s[4]
        if mode=='liberal':
            # exception possible after every statement in body (and at entry)
            b=Out(); cur=set(ins); excs=set(ins)
            for st in body:
                if not cur: break
                r=step(st,cur,mode,uses); b.brk|=r.brk;b.cont|=r.cont;b.ret|=r.ret; excs|=r.exc|r.norm
                cur=r.norm
            b.norm=cur; b.exc=excs
        else:
            b=run(body,ins,mode,uses)
        res=Out()
        e=run(orelse,b.norm,mode,uses) if b.norm or not body else Out()
        if not body: e=run(orelse,ins,mode,uses)
        res.norm|=e.norm; res.brk|=b.brk|e.brk; res.cont|=b.cont|e.cont; res.ret|=b.ret|e.ret; res.exc|=e.exc
        if handlers:
            for h in handlers:
                if b.exc:
                    r=run(h,b.exc,mode,uses)
                    res.norm|=r.norm;res.brk|=r.brk;res.cont|=r.cont;res.ret|=r.ret;res.exc|=r.exc
            # exception may also not match handler -> propagates (except Exception catches ValueError; calls may raise BaseException; ignore)
        else:
            res.exc|=b.exc
        if final is not None:
            fo=Out()
            for f in ('norm','brk','cont','ret','exc'):
                src=getattr(res,f)
                if src:
                    r=run(final,src,mode,uses)
                    getattr(fo,f).update(r.norm)
                    fo.brk|=r.brk; fo.cont|=r.cont; fo.ret|=r.ret; fo.exc|=r.exc
            res=fo
        o=res
    return o
def analyze(prog, mode):
    uses={}
    run(prog,{'U'},mode,uses)
    return uses
def pya(progs):
    src=["def cond() -> bool: return True","def seq() -> list[int]: return []"]
    for i,p in enumerate(progs):
        src.append(f"def f{i}():"); out=[]; render(p,4,out,None,False); src+= [re.sub(r'#U(\d+)', lambda m:f'#F{i}U{m.group(1)}',l) for l in out]
    code="\n".join(src)+"\n"
    res,_=check(code)
    lines=code.splitlines()
    results=[{} for _ in progs]
    for r in res:
        ln=lines[r['lineno']-1]; m=re.search(r'#F(\d+)U(\d+)',ln)
        if not m: continue
        i,u=int(m.group(1)),int(m.group(2)); d=results[i].setdefault(u,set())
        c=r['code'].name
        if c=='reveal_type':
            t=r['description']
            for n in re.findall(r'\b(\d+)\b', t.split("'",1)[1]): d.add(int(n))
            if 'Any[error]' in t: d.add('U')
        elif c=='undefined_name': d.add('U')
        elif c=='possibly_undefined_name': d.add('U')
    return results, code
