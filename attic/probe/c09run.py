from c09 import *
import random,sys
rng=random.Random(int(sys.argv[1])); N=int(sys.argv[2])
def gen(rng,depth,inloop,budget,dc,uc):
    n=rng.randint(1,3); out=[]
    for _ in range(n):
        if budget[0]<=0: break
        if out and out[-1][0] in ('brk','cont','ret','raise'): break
        budget[0]-=1
        ch=rng.random()
        if ch<0.3: dc[0]+=1; out.append(('asg',dc[0]))
        elif ch<0.5: uc[0]+=1; out.append(('use',uc[0]))
        elif ch<0.55: out.append(('call',))
        elif depth>0 and ch<0.68: out.append(('if',gen(rng,depth-1,inloop,budget,dc,uc), gen(rng,depth-1,inloop,budget,dc,uc) if rng.random()<0.6 else []))
        elif depth>0 and ch<0.78: out.append(('while',rng.random()<0.2,gen(rng,depth-1,True,budget,dc,uc), gen(rng,depth-1,inloop,budget,dc,uc) if rng.random()<0.4 else []))
        elif depth>0 and ch<0.84: out.append(('for',gen(rng,depth-1,True,budget,dc,uc), gen(rng,depth-1,inloop,budget,dc,uc) if rng.random()<0.4 else []))
        elif depth>0 and ch<0.92 and ALLOW_TRY:
            hs=[gen(rng,depth-1,inloop,budget,dc,uc) for _ in range(rng.randint(0,1))]
            fin=gen(rng,depth-1,inloop,budget,dc,uc) if (rng.random()<0.4 or not hs) else None
            out.append(('try',gen(rng,depth-1,inloop,budget,dc,uc),hs,gen(rng,depth-1,inloop,budget,dc,uc) if hs and rng.random()<0.3 else [],fin))
        elif inloop and ch<0.96: out.append((rng.choice(['brk','cont']),))
        elif ch<0.98: out.append(('ret',))
        else: out.append(('raise',))
    return out
ALLOW_TRY = len(sys.argv)>3 and sys.argv[3]=='try'
progs=[]
for i in range(N):
    dc=[0];uc=[0]; p=gen(rng,3,False,[12],dc,uc)
    uc[0]+=1; p.append(('use',uc[0]))
    progs.append(p)
res,code=pya(progs)
uns=0; imp=0
for i,p in enumerate(progs):
    st=analyze(p,'strict'); li=analyze(p,'liberal')
    for u in set(st)|set(res[i])|set(li):
        rep=res[i].get(u,None); s=st.get(u,set()); l=li.get(u,set())
        if rep is None: continue  # unreachable use per pyanalyze? no reveal
        if not s<=rep:
            uns+=1
            if uns<=6:
                o=[];render(p,4,o,None,False);print("UNSOUND use",u,"strict",s,"reported",rep);print("\n".join(o))
        if l and not rep<=l:
            imp+=1
            if imp<=6:
                o=[];render(p,4,o,None,False);print("IMPRECISE use",u,"liberal",l,"reported",rep);print("\n".join(o))
print("programs",N,"unsound",uns,"imprecise",imp)
def feats(stmts, in_tryfin=False):
    f=set()
    for s in stmts:
        k=s[0]
        if k in ('brk','cont','ret') and in_tryfin: f.add('jumpfin')
        if k=='brk': f.add('brk')
        if k=='if': f|=feats(s[1],in_tryfin)|feats(s[2],in_tryfin)
        if k=='while':
            if s[3]: f.add('loopelse')
            f|=feats(s[2],in_tryfin)|feats(s[3],in_tryfin)
        if k=='for':
            if s[2]: f.add('loopelse')
            f|=feats(s[1],in_tryfin)|feats(s[2],in_tryfin)
        if k=='try':
            fin = s[4] is not None
            f|=feats(s[1],in_tryfin or fin)
            for h in s[2]: f|=feats(h,in_tryfin or fin)
            f|=feats(s[3],in_tryfin or fin)
            if fin: f|=feats(s[4],in_tryfin)
    return f
cnt={}; tot={}
for i,p in enumerate(progs):
    fs=frozenset(feats(p)); st=analyze(p,'strict'); li=analyze(p,'liberal')
    bad_s=bad_l=False
    for u in res[i]:
        rep=res[i][u]; s=st.get(u,set()); l=li.get(u,set())
        if not s<=rep: bad_s=True
        if l and not rep<=l: bad_l=True
    tot[fs]=tot.get(fs,0)+1
    if bad_s or bad_l:
        cnt[fs]=cnt.get(fs,0)+1
        if not fs:
            o=[];render(p,4,o,None,False);print("NO-FEATURE VIOLATION", bad_s,bad_l);print("\n".join(o))
for fs in sorted(tot,key=lambda x:sorted(x)): print(sorted(fs), "violations", cnt.get(fs,0), "of", tot[fs])
