from pr import show
show('''
from typing import Protocol
class P(Protocol):
    def alpha(self) -> int: ...
    def beta(self) -> int: ...
    def gamma(self) -> int: ...
def use(p: P) -> None: ...
class Impl:
    def alpha(self) -> int: return 1
def f(p: P, q: P):
    reveal_type(p)
    use(Impl())
def g(x: int | str | None):
    if isinstance(x, int) or x is None or isinstance(x, str):
        reveal_type(x)
def h(**kw: int): pass
def k():
    def inner(a): pass
    inner(zeta=1, eta=2, theta=3, iota=4)
''')
