import random, itertools
from pr import check
from pyanalyze.error_code import ErrorCode
src='''
import os
def cond() -> bool: return True
def f(a: int, b: str = "") -> int:
    return a
def g():
    f("x")
    f(1, 2, 3)
    os.ptah
    print(undefined_thing)
    x: int = "a"
    if cond():
        y = 1
    print(y)
    "%d" % "s"
    [1][0].foo
    f(b=1)
    1 + "a"
    return f
def h(x: list[int]):
    x.append("s")
    for i in 1: pass
    x.nope
    return {1: 2, 1: 3}
'''
base,_=check(src, settings={ErrorCode.undefined_attribute: True})
import re
def key(r): return (r.get('lineno'),r.get('col_offset'),r['code'].name,re.sub(r'<test input [0-9a-f]+>','M',r['description']))
B=[key(r) for r in base]
codes=sorted({k[2] for k in B})
print(len(B),"diagnostics, codes:",codes)
bad=0
for n in range(0,len(codes)+1):
    for S in itertools.combinations(codes,n):
        st={ErrorCode.undefined_attribute: True, **{getattr(ErrorCode,c):False for c in S}}
        r,_=check(src,settings=st)
        got=[key(x) for x in r]; exp=[k for k in B if k[2] not in S]
        if got!=exp:
            bad+=1
            if bad<4: print("DISABLE",S,"\n extra",set(got)-set(exp),"\n missing",set(exp)-set(got))
print("subsets",2**len(codes),"projection failures",bad)
