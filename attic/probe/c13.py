import ast, typing, itertools, io, contextlib
from pr import check
from pyanalyze.annotations import type_from_runtime, type_from_ast
PRE='''
from typing import *
from typing_extensions import Unpack, NotRequired, ReadOnly
import collections.abc
import enum
class A: pass
class Color(enum.Enum):
    RED = 1
NT = NewType("NT", int)
class TD(TypedDict):
    a: int
class P(Protocol):
    def m(self) -> int: ...
T = TypeVar("T")
TB = TypeVar("TB", bound=int)
'''
ATOMS=["int","str","None","A","Color","Any","object","NT","TD","P","T","TB","float","bytes"]
def forms(xs):
    out=[]
    for x in xs:
        out += [f"Optional[{x}]", f"List[{x}]", f"list[{x}]", f"Sequence[{x}]", f"collections.abc.Sequence[{x}]", f"Dict[str, {x}]", f"dict[str, {x}]", f"Tuple[{x}, ...]", f"tuple[{x}, ...]", f"tuple[{x}]", f"Tuple[{x}, int]", f"{x} | None", f"Union[{x}, str]", f"Type[{x}]", f"type[{x}]", f"Callable[[{x}], int]", f"Callable[..., {x}]", f"Annotated[{x}, 1]", f"Final[{x}]", f"ClassVar[{x}]", f"Set[{x}]", f"frozenset[{x}]", f"Iterable[{x}]", f"Mapping[str, {x}]", f"tuple[int, Unpack[tuple[{x}, ...]]]", f"tuple[int, *tuple[{x}, ...]]"]
    out += ["Literal[1]","Literal['a', 2]","Literal[Color.RED]","Literal[None]","tuple[()]","Tuple[()]","tuple","list","dict","Callable","type","Type","List","Dict","Tuple","Literal[True, 1]","Union[int, int]","Optional[Optional[int]]","int | str | int", "Callable[[], None]", "Callable[[int, str], None]", "Annotated[int | None, 'x']", "list[list[int]]", "dict[str, list[int | None]]"]
    return out
EXPRS=ATOMS+forms(["int","None","A","T","Color","Any","int | str","list[int]","Literal[1]"])
_ns={}
exec(PRE,_ns)
def _ok(e):
    try: eval(e,_ns); return True
    except Exception: return False
EXPRS=[e for e in EXPRS if _ok(e)]
src=PRE+"\n".join(f"def f{i}(x: {e}):\n    reveal_type(x)\n" for i,e in enumerate(EXPRS))
src2=PRE+"\n".join(f"def f{i}(x: \"{e}\"):\n    reveal_type(x)\n" for i,e in enumerate(EXPRS))
def run(s):
    res,tree=check(s,annotate=True)
    out={}
    for n in ast.walk(tree):
        if isinstance(n,ast.FunctionDef) and n.name.startswith('f') and n.name[1:].isdigit():
            c=[m for m in ast.walk(n) if isinstance(m,ast.Call) and getattr(m.func,'id','')=='reveal_type']
            out[int(n.name[1:])]=getattr(c[0].args[0],'inferred_value','NOT-VISITED')
    ie=[r for r in res if r['code'].name in('internal_error','invalid_annotation','undefined_name')]
    return out,check.last_mod,ie
import re
def norm(v): return re.sub(r"<test input [0-9a-f]+>","M",str(v))
v_src,mod,ie1=run(src)
v_str,mod2,ie2=run(src2)
ns=dict(mod.__dict__)
diff=0
for i,e in enumerate(EXPRS):
    a=norm(v_src.get(i)); b=norm(v_str.get(i))
    try:
        with contextlib.redirect_stderr(io.StringIO()):
            c=norm(type_from_runtime(eval(e,ns)))
    except Exception as ex: c="EXC:"+type(ex).__name__
    try:
        with contextlib.redirect_stderr(io.StringIO()):
            d=norm(type_from_runtime(e, globals=ns))
    except Exception as ex: d="EXC:"+type(ex).__name__
    if len({a,b,c,d})>1:
        diff+=1; print(f"{e:45s} src={a} | quoted={b} | runtime={c} | strroute={d}")
print("exprs",len(EXPRS),"disagreeing",diff, "errors", len(ie1), len(ie2))
