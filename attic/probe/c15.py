import itertools, typing
from typing import TypeVar, Literal
from pyanalyze.value import *
from pyanalyze.typevar import resolve_bounds_map
from pyanalyze.checker import Checker
ck=Checker(); T=TypeVar("T")
class A: pass
class B(A): pass
V=[TypedValue(int),TypedValue(bool),TypedValue(float),TypedValue(str),KnownValue(1),KnownValue("a"),KnownValue(None),TypedValue(object),TypedValue(A),TypedValue(B),
   TypedValue(int)|TypedValue(str), TypedValue(int)|KnownValue(None), GenericValue(list,[TypedValue(int)]), GenericValue(list,[TypedValue(bool)]), AnyValue(AnySource.explicit), NO_RETURN_VALUE]
def ok(a,b): return not isinstance(a.can_assign(b,ck),CanAssignError)
import random
rng=random.Random(0)
viol_low=viol_up=order=n=0
ex={}
for it in range(4000):
    k=rng.randint(1,4)
    bs=[]
    for _ in range(k):
        v=rng.choice(V)
        bs.append(LowerBound(T,v) if rng.random()<0.6 else UpperBound(T,v))
    verdicts=set()
    for perm in itertools.permutations(bs):
        tv,errs=resolve_bounds_map({T:list(perm)},ck)
        n+=1
        verdicts.add(bool(errs))
        if errs: continue
        s=tv[T]
        if isinstance(s,AnyValue): continue
        for b in perm:
            if isinstance(b,LowerBound) and not isinstance(b.value,AnyValue) and not ok(s,b.value):
                viol_low+=1; ex.setdefault('low',(list(map(str,perm)),str(s)))
            if isinstance(b,UpperBound) and not isinstance(b.value,AnyValue) and not ok(b.value,s):
                viol_up+=1; ex.setdefault('up',(list(map(str,perm)),str(s)))
    if len(verdicts)>1:
        order+=1; ex.setdefault('order',list(map(str,bs)))
print("solves",n,"lower viol",viol_low,"upper viol",viol_up,"order-dependent multisets",order)
for k,v in ex.items(): print(k,v)
