import random, re, sys, ast
from pr import check
rng=random.Random(int(sys.argv[1]) if len(sys.argv)>1 else 0)
TYS=["int","str","None","bool","float","Literal[1]","Literal['a']","bytes"]
RET=["int","str","None","bytes","float","list[int]","Literal[1]","Literal[2]"]
def cond(d):
    r=rng.random()
    if d>0 and r<0.2: return f"({cond(d-1)} and {cond(d-1)})"
    if d>0 and r<0.4: return f"({cond(d-1)} or {cond(d-1)})"
    if d>0 and r<0.5: return f"(not {cond(d-1)})"
    v=rng.choice(["x","y"])
    r=rng.random()
    if r<0.6: return f"is_of_type({v}, {rng.choice(TYS+['int | str','int | None'])})"
    if r<0.75: return f"{v} == {rng.choice(['1','None','\"a\"','True'])}"
    if r<0.85: return f"{v} is {rng.choice(['None','True'])}"
    if r<0.9: return f"{v} is not None"
    return f"is_provided({v})"
def block(d,ind):
    p=" "*ind; out=[]
    n=rng.randint(1,2)
    for _ in range(n):
        r=rng.random()
        if d>0 and r<0.55:
            out.append(f"{p}if {cond(2)}:"); out+=block(d-1,ind+4)
            if rng.random()<0.4: out.append(f"{p}elif {cond(1)}:"); out+=block(d-1,ind+4)
            if rng.random()<0.6: out.append(f"{p}else:"); out+=block(d-1,ind+4)
        elif r<0.85:
            out.append(f"{p}return {rng.choice(RET)}"); break
        else:
            out.append(f"{p}show_error('e{rng.randint(0,9)}')")
    if not out: out=[f"{p}pass"]
    return out
N=int(sys.argv[2]) if len(sys.argv)>2 else 40
UN=[("int","str"),("int","None"),("str","None","bytes"),("bool","str"),("float","int"),("Literal[1]","str")]
src=["from typing import *","from pyanalyze.extensions import evaluated, is_of_type, is_provided, show_error","def mk(t): ...",""]
cases=[]
for i in range(N):
    src.append("@evaluated"); src.append(f"def e{i}(x: object, y: object = None) -> object:"); src+=block(3,4)
    src.append(f"def e{i}(x, y=None): return None")
for i in range(N):
    for j,u in enumerate(UN):
        args=", ".join(f"a{k}: {t}" for k,t in enumerate(u))
        src.append(f"def c{i}_{j}(u: {' | '.join(u)}, {args}):")
        src.append(f"    reveal_type(e{i}(u))  #R{i}_{j}_U")
        for k,t in enumerate(u): src.append(f"    reveal_type(e{i}(a{k}))  #R{i}_{j}_{k}")
code="\n".join(src)+"\n"
res,tree=check(code)
lines=code.splitlines()
got={}; errs={}
for r in res:
    ln=lines[r['lineno']-1]; m=re.search(r'#R(\d+)_(\d+)_(\w+)',ln)
    if not m: 
        if r['code'].name not in('reveal_type',): print("OTHER",r['lineno'],r['code'].name,r['description'][:100])
        continue
    key=(int(m.group(1)),int(m.group(2)),m.group(3))
    if r['code'].name=='reveal_type': got[key]=r['description'].split("'",1)[1].rsplit("'",1)[0]
    else: errs.setdefault(key,set()).add(r['description'].splitlines()[0][:60])
def parts(t):
    # split top-level union text into set of members; expand Literal[a, b]
    out=set()
    depth=0; cur=""
    for ch in t:
        if ch in "[(": depth+=1
        if ch in "])": depth-=1
        if ch=="|" and depth==0: out.add(cur.strip()); cur=""
        else: cur+=ch
    out.add(cur.strip())
    res=set()
    for p in out:
        m=re.fullmatch(r"Literal\[(.*)\]",p)
        if m: 
            for q in m.group(1).split(", "): res.add("None" if q=="None" else f"Literal[{q}]")
        else: res.add(p)
    return res
bad=0
for i in range(N):
    for j,u in enumerate(UN):
        U=got.get((i,j,'U')); ms=[got.get((i,j,str(k))) for k in range(len(u))]
        if U is None or any(m is None for m in ms): continue
        pu=parts(U); pm=set().union(*[parts(m) for m in ms])
        eu=errs.get((i,j,'U'),set()); em=set().union(*[errs.get((i,j,str(k)),set()) for k in range(len(u))])
        if pu!=pm or eu!=em:
            bad+=1
            if bad<=8:
                print("---- evaluator",i,"union",u,"\n  union result:",U,"errors",eu,"\n  members:",ms,"errors",em)
                s=[l for l in src]; k0=src.index(f"def e{i}(x: object, y: object = None) -> object:"); 
                k1=src.index(f"def e{i}(x, y=None): return None"); print("\n".join(src[k0:k1]))
print("evaluators",N,"union cases",N*len(UN),"distribution failures",bad)
