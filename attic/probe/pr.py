import ast, sys, io, textwrap, contextlib, types
from pyanalyze.name_check_visitor import NameCheckVisitor, ClassAttributeChecker
from pyanalyze.error_code import ErrorCode
from pyanalyze.analysis_lib import make_module

def check(code, settings=None, annotate=False, **kw):
    code = textwrap.dedent(code)
    tree = ast.parse(code)
    mod = make_module(code)
    st = {c: True for c in ErrorCode}
    for n in ("missing_parameter_annotation","missing_return_annotation","implicit_any","unused_variable","unused_assignment","value_always_true","suggested_parameter_type","suggested_return_type","no_return_may_return", "missing_generic_parameters", "unused_ignore","bare_ignore", "incompatible_default", "implicit_non_ascii_string","unsafe_comparison","must_use", "disallowed_import","implicit_reexport","unnecessary_yield","use_fstrings","use_floor_div", "internal_test", "duplicate_yield", "attribute_is_never_set", "undefined_attribute" ):
        e = getattr(ErrorCode, n, None)
        if e is not None: st[e] = False
    if settings: st.update(settings)
    kwargs = NameCheckVisitor.prepare_constructor_kwargs({"settings": st, **kw})
    err = io.StringIO()
    with contextlib.redirect_stderr(err):
        v = NameCheckVisitor(mod.__name__, code, tree, module=mod, annotate=annotate, **kwargs)
        res = v.check()
    check.last_mod = mod
    return res, tree

def show(code, **kw):
    res, tree = check(code, **kw)
    for f in res:
        print(f.get("lineno"), f.get("col_offset"), f["code"].name if "code" in f else None, "|", f["description"].splitlines()[0][:200])
    return res
if __name__ == "__main__":
    show(sys.stdin.read())
