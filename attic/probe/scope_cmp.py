import sys, random
sys.argv=[sys.argv[0]]+sys.argv[1:]
import c09run as R   # runs its own main; reuse progs/res
from scope_model import model
from c09 import render
bad=0
for i,p in enumerate(R.progs):
    m=model(p)
    for u in R.res[i]:
        if m.get(u)!=R.res[i][u]:
            bad+=1
            if bad<=5:
                o=[];render(p,4,o,None,False);print("MODEL MISMATCH use",u,"model",m.get(u),"pyanalyze",R.res[i][u]);print("\n".join(o))
print("model mismatches",bad,"over",len(R.progs),"programs")
