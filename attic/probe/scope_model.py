"""Scratch transliteration of FunctionScope + visitor control flow on skeletons (to validate my reading)."""
from collections import OrderedDict, defaultdict
LS="%LEAVES_SCOPE"; LL="%LEAVES_LOOP"; UN="U"
def uniq_chain(its):
    return list(OrderedDict.fromkeys(x for it in its for x in it))
class Scope:
    def __init__(s):
        s.cur=defaultdict(list)      # name_to_current_definition_nodes
        s.alldefs=defaultdict(set)   # name_to_all_definition_nodes
        s.u2d=defaultdict(list)      # usage_to_definition_nodes
        s.loops=[]                   # current_loop_scopes
        s.ctr=0
    # --- subscope machinery
    def subscope_enter(s):
        new=defaultdict(list,{k:v for k,v in s.cur.items() if k!=LS})
        old=s.cur; s.cur=new; return old,new
    def subscope_exit(s,old): s.cur=old
    def combined(s,scopes,ignore_ls=False):
        new=[]
        for sc in scopes:
            if LL in sc: s.loops.append(sc)
            elif LS not in sc or ignore_ls: new.append(sc)
        if not new: return {LS:[]}
        allv=set(k for sc in new for k in sc)
        return {v:uniq_chain(sc.get(v,[UN]) for sc in new) for v in allv}
    def combine(s,scopes,ignore_ls=False):
        s.cur.update(s.combined(scopes,ignore_ls))
    def set(s,name,node):
        s.cur[name]=[node]
        s.alldefs[name].add(node)
    def get(s,name,node,collecting):
        if collecting:
            if name in s.cur:
                s.u2d[node]+=s.cur[name]
                return list(s.cur[name])
            return None
        else:
            if node not in s.u2d: return None
            return list(s.u2d[node])
class V:
    def __init__(v): v.sc=Scope(); v.collecting=True; v.n=0; v.out={}
    def fresh(v): v.n+=1; return ("m",v.n)
    def block(v,stmts,path):
        for i,st in enumerate(stmts): v.stmt(st,path+(i,))
    def sub(v):  # context helper
        class C:
            def __enter__(c): c.old,c.new=v.sc.subscope_enter(); return c.new
            def __exit__(c,*a): v.sc.subscope_exit(c.old)
        return C()
    def loop_scope(v):
        class C:
            def __enter__(c):
                c.old,c.main=v.sc.subscope_enter(); c.ls=[c.main]; c.oldloops=v.sc.loops; v.sc.loops=c.ls; return c.ls
            def __exit__(c,*a):
                v.sc.loops=c.oldloops; v.sc.subscope_exit(c.old)
                v.sc.combine([{k:x for k,x in sc.items() if k!=LL} for sc in c.ls])
        return C()
    def suppressing(v):
        class C:
            def __enter__(c):
                c.olddefs={k:set(x) for k,x in v.sc.alldefs.items()}
                c.old,c.inner=v.sc.subscope_enter(); return c.inner
            def __exit__(c,*a):
                v.sc.subscope_exit(c.old)
                newdefs={k:set(x) for k,x in v.sc.alldefs.items()}
                rest={k:list(n-c.olddefs.get(k,set())) for k,n in newdefs.items() if k!=LS}
                rest={k:n for k,n in rest.items() if n}
                with v.sub() as dummy: pass
                keys=set(rest)|set(dummy)
                new={k:[*dummy.get(k,[]),*rest.get(k,[])] for k in keys}
                v.sc.combine([dummy,new])
        return C()
    def stmt(v,s,path):
        k=s[0]; sc=v.sc
        if k=='asg': sc.set('x',('d',s[1]))
        elif k=='use':
            r=sc.get('x',('u',s[1]),v.collecting)
            if not v.collecting: v.out[s[1]]=r
        elif k=='call': pass
        elif k=='if':
            with v.sub() as b: v.block(s[1],path+('t',))
            with v.sub() as e: v.block(s[2],path+('e',))
            sc.combine([b,e])
        elif k in('while','for'):
            if k=='while': always,body,orelse=s[1],s[2],s[3]
            else: always,body,orelse=False,s[1],s[2]
            with v.sub() as body_scope:
                with v.loop_scope() as loop_scopes:
                    v.block(body,path+('b',))
            # _handle_loop_else
            if always:
                sc.combine([body_scope])
                with v.sub() as body_scope: pass
            with v.sub() as else_scope: v.block(orelse,path+('o',))
            sc.combine([body_scope,else_scope])
            if v.collecting:
                with v.sub(): v.block(body,path+('b',))
            if k=='while' and always and all(LL not in x for x in loop_scopes):
                sc.set(LS,('ls',path))
        elif k in('brk','cont'): sc.set(LL,('ll',path))
        elif k in('ret','raise'): sc.set(LS,('ls',path))
        elif k=='try':
            body,handlers,orelse,final=s[1],s[2],s[3],s[4]
            def try_except():
                with v.sub():
                    with v.sub() as dummy: pass
                    with v.sub() as failure:
                        with v.suppressing() as success:
                            v.block(body,path+('tb',))
                    with v.sub() as else_scope:
                        sc.combine([success]); v.block(orelse,path+('te',))
                    excs=[]
                    for hi,h in enumerate(handlers):
                        with v.sub() as ex:
                            excs.append(ex)
                            sc.combine([dummy,failure]); v.block(h,path+('h',hi))
                sc.combine([else_scope,*excs])
            if final is not None:
                with v.sub() as failure_scope:
                    with v.suppressing() as success_scope:
                        try_except()
                with v.sub():
                    sc.combine([failure_scope]); v.block(final,path+('f1',))
                sc.combine([success_scope]); v.block(final,path+('f2',))
            else: try_except()
def model(prog):
    v=V()
    v.collecting=True; v.block(prog,())
    v.collecting=False; v.sc.cur=defaultdict(list); v.sc.loops=[]
    v.block(prog,())
    res={}
    for u,r in v.out.items():
        if r is None: res[u]={'U'}   # undefined_name
        else: res[u]={ (n[1] if n!=UN and n[0]=='d' else 'U') for n in r if n==UN or n[0]=='d'}
    return res
