"""Generators of Obj / Ty terms (shared by the value-kernel properties) and the Python reference `member`."""
import collections.abc as cabc
import itertools

from harness.common.values import CLASSES, CID, FLOATS, COMPLEXES, N_INST, NEWTYPES, obj_to_py
from harness import universe as U

C = {c.__name__ if hasattr(c, "__name__") else str(c): i for i, c in enumerate(CLASSES)}
INT, BOOL, FLOAT, COMPLEX, STR, BYTES, NONE, TUPLE, LIST, SET, FSET, DICT, TYPE = 1, 2, 3, 4, 5, 6, 7, 8, 9, 10, 11, 12, 13
SEQUENCE, ITERABLE, COLLECTION, CONTAINER, MAPPING, HASHABLE, SIZED, MUTSEQ, ABSSET = 14, 15, 16, 17, 18, 19, 20, 21, 22
USER = [CID[U.A], CID[U.B], CID[U.Cc], CID[U.D], CID[U.Color], CID[U.IE], CID[U.Fl]]
NT_CLS = [INT, STR, CID[U.A]]

SCALARS = (
    [("int", n) for n in (0, 1, 2, -1)] + [("bool", 0), ("bool", 1)] + [("str", s) for s in ("", "a", "ab")]
    + [("bytes", s) for s in ("", "a")] + [("none",)] + [("flt", 0), ("flt", 1)] + [("cplx", 0)]
    + [("inst", CID[c], i) for c, n in N_INST.items() for i in range(n)]
)
CLSOBJS = [("cls", c) for c in (INT, BOOL, FLOAT, STR, CID[U.A], CID[U.B], CID[U.D], CID[U.Color], CID[U.IE], LIST, DICT, TUPLE, SEQUENCE)]
LITERALS = [o for o in SCALARS if o[0] in ("int", "bool", "str", "bytes", "none") or (o[0] == "inst" and o[1] in (CID[U.Color], CID[U.IE]))]
TYPED = [0, INT, BOOL, FLOAT, COMPLEX, STR, BYTES, NONE, TUPLE, LIST, SET, FSET, DICT, TYPE, SEQUENCE, ITERABLE, COLLECTION,
         CONTAINER, MAPPING] + USER + [CID[c] for c in CLASSES if c.__name__ in ("Enum", "IntEnum", "EnumType", "EnumMeta", "ABCMeta")]
GEN1 = [LIST, SET, FSET, TUPLE, SEQUENCE, ITERABLE, COLLECTION, CONTAINER, MUTSEQ, ABSSET]
GEN2 = [DICT, MAPPING]


def gen_obj(rng, depth=2):
    r = rng.random()
    if depth <= 0 or r < 0.55:
        return rng.choice(SCALARS) if rng.random() < 0.85 else rng.choice(CLSOBJS)
    k = rng.choice(["tuple", "tuple", "list", "list", "set", "fset", "dict"])
    n = rng.choice([0, 1, 1, 2, 2, 3])
    if k in ("set", "fset"):
        elems = []
        for _ in range(n):
            e = gen_hashable(rng, depth - 1)
            if not any(obj_to_py(e) == obj_to_py(x) for x in elems):
                elems.append(e)
        return (k, elems)
    if k == "dict":
        ks = []
        for _ in range(n):
            e = gen_hashable(rng, depth - 1)
            if not any(obj_to_py(e) == obj_to_py(x) for x in ks):
                ks.append(e)
        return ("dict", ks, [gen_obj(rng, depth - 1) for _ in ks])
    return (k, [gen_obj(rng, depth - 1) for _ in range(n)])


def gen_hashable(rng, depth):
    for _ in range(20):
        o = gen_obj(rng, depth)
        try:
            hash(obj_to_py(o))
            return o
        except TypeError:
            continue
    return ("int", 0)


def small_objs():
    """All objects of 'size <= 2': scalars, class objects, and containers of up to 2 scalars (a fixed selection)."""
    out = list(SCALARS) + list(CLSOBJS)
    base = [("int", 1), ("bool", 1), ("str", "a"), ("none",), ("flt", 0), ("inst", CID[U.B], 0), ("inst", CID[U.IE], 0)]
    for k in ("tuple", "list"):
        out.append((k, []))
        out += [(k, [a]) for a in base]
        out += [(k, [a, b]) for a in base[:4] for b in base[:4]]
    for k in ("set", "fset"):
        out.append((k, []))
        out += [(k, [a]) for a in base]
        out.append((k, [("int", 1), ("str", "a")]))
    out.append(("dict", [], []))
    out += [("dict", [a], [b]) for a in base[:3] for b in base[:4]]
    out.append(("dict", [("str", "a"), ("str", "ab")], [("int", 1), ("str", "a")]))
    out.append(("tuple", [("tuple", [("int", 1)]), ("str", "a")]))
    out.append(("list", [("list", [("int", 1)])]))
    return out


BIG_POOL = (
    [("known", ("int", i)) for i in range(10)] + [("known", ("int", -1))]
    + [("known", ("str", s)) for s in ("", "a", "ab")] + [("known", ("bytes", "a"))]
    + [("known", ("none",)), ("known", ("bool", 0)), ("known", ("bool", 1))]
    + [("known", o) for o in LITERALS if o[0] == "inst"]
)
BIG_UNHASHABLE = [("list", []), ("list", [("int", 1), ("int", 2)]), ("dict", [], []), ("set", [("int", 1), ("int", 2)]),
                  ("dict", [("str", "a")], [("list", [("int", 1)])]), ("list", [("list", [])]),
                  ("tuple", [("list", [])])]
BIG_EXTRA = [("typed", STR), ("typed", FLOAT), ("generic", LIST, [("typed", INT)]), ("typed", CID[U.A]),
             ("seq", TUPLE, [("typed", INT)]), ("subclass", INT), ("generic", SET, [("typed", STR)])]


def gen_big_union(rng, allow_any=False, unhashable=True):
    """A union of >= 10 members (MultiValuedValue switches to a hash-set fast path for its literal members at 10):
    mostly distinct literals, sometimes an unhashable literal, sometimes non-literal members."""
    n = rng.choice([9, 10, 10, 11, 12, 14])
    ms = rng.sample(BIG_POOL, min(n, len(BIG_POOL)))
    if unhashable and rng.random() < 0.5:
        ms[rng.randrange(len(ms))] = ("known", rng.choice(BIG_UNHASHABLE))
    for _ in range(rng.choice([0, 0, 1, 2])):
        e = rng.choice(BIG_EXTRA)
        if e not in ms:
            ms.insert(rng.randrange(len(ms) + 1), e)
    if allow_any and rng.random() < 0.1:
        ms.insert(rng.randrange(len(ms) + 1), ("any",))
    return ("union", ms)


def gen_ty(rng, depth=2, allow_any=False, allow_seq=True, top=True, big_unhashable=False):
    """big_unhashable: big unions may hold a literal of an unhashable object (not expressible as a typing annotation:
    only for harnesses that build Values directly)."""
    r = rng.random()
    if depth >= 1 and r < 0.03:
        return gen_big_union(rng, allow_any, unhashable=big_unhashable)
    if depth <= 0 or r < 0.35:
        r2 = rng.random()
        if allow_any and r2 < 0.08:
            return ("any",)
        if r2 < 0.55:
            return ("typed", rng.choice(TYPED))
        if r2 < 0.8:
            return ("known", rng.choice(LITERALS))
        if r2 < 0.88:
            return ("subclass", rng.choice([0, INT, FLOAT, STR, CID[U.A], CID[U.B], CID[U.Color]]))
        if r2 < 0.94:
            n = rng.randrange(len(NEWTYPES))
            return ("newtype", n, NT_CLS[n])
        return ("union", [])
    r = rng.random()
    if r < 0.3:
        return ("generic", rng.choice(GEN1), [gen_ty(rng, depth - 1, allow_any, allow_seq, False, big_unhashable)])
    if r < 0.4:
        return ("generic", rng.choice(GEN2), [gen_ty(rng, depth - 1, allow_any, False, False, big_unhashable), gen_ty(rng, depth - 1, allow_any, allow_seq, False, big_unhashable)])
    if r < 0.65 and allow_seq:
        n = rng.choice([0, 1, 2, 2, 3])
        ms = [gen_ty(rng, depth - 1, allow_any, allow_seq, False, big_unhashable) for _ in range(n)]
        if ms and rng.random() < 0.3:
            i = rng.randrange(len(ms))
            ms[i] = ("many", ms[i])
        return ("seq", TUPLE if rng.random() < 0.8 else LIST, ms)
    if r < 0.93:
        n = rng.choice([2, 2, 3])
        ts = []
        for _ in range(n):
            t = gen_ty(rng, depth - 1, allow_any, allow_seq, False, big_unhashable)
            ts += t[1] if t[0] == "union" else [t]
        # MultiValuedValue never holds a single member / equal duplicates are legal but rare
        return ("union", ts) if len(ts) != 1 else ts[0]
    t = gen_ty(rng, depth - 1, allow_any, allow_seq, False, big_unhashable)
    return ("annotated", t) if t[0] != "annotated" and t != ("union", []) else t


def has_any(t):
    k = t[0]
    if k == "any":
        return True
    if k in ("generic", "seq"):
        return any(has_any(x) for x in t[2])
    if k == "union":
        return any(has_any(x) for x in t[1])
    if k in ("many", "annotated"):
        return has_any(t[1])
    return False


# ------------------------------------------------------------------ reference membership (CPython isinstance based)
def _sub(cls, c):
    target = CLASSES[c]
    try:
        if issubclass(cls, target):
            return True
    except TypeError:
        pass
    if target is float:
        return issubclass(cls, int)
    if target is complex:
        return issubclass(cls, (int, float))
    return False


def _same(a, b):
    return type(a) is type(b) and a == b


def member(o, t):
    """Structural membership of the Python object o in the Ty term t (DESIGN §6/C03 decisions)."""
    k = t[0]
    if k == "any":
        return True
    if k == "known":
        return _same(o, obj_to_py(t[1]))
    if k == "typed":
        return _sub(type(o), t[1])
    if k == "newtype":
        return type(o) is CLASSES[t[2]]
    if k == "annotated":
        return member(o, t[1])
    if k == "union":
        return any(member(o, x) for x in t[1])
    if k == "subclass":
        return isinstance(o, type) and o in CID and _sub(o, t[1])
    if k == "many":
        return False
    if k == "generic":
        if not _sub(type(o), t[1]):
            return False
        args = t[2]
        if type(o) in (tuple, list, set, frozenset) and len(args) == 1:
            return all(member(x, args[0]) for x in o)
        if type(o) is dict and len(args) == 1:
            return all(member(x, args[0]) for x in o)
        if type(o) is dict and len(args) == 2:
            return all(member(x, args[0]) for x in o) and all(member(x, args[1]) for x in o.values())
        return True
    if k == "seq":
        if not _sub(type(o), t[1]) or type(o) not in (tuple, list):
            return False
        return _match(list(o), t[2])
    raise ValueError(t)


def _match(xs, ms):
    if not ms:
        return not xs
    m = ms[0]
    if m[0] == "many":
        if _match(xs, ms[1:]):
            return True
        return bool(xs) and member(xs[0], m[1]) and _match(xs[1:], ms)
    return bool(xs) and member(xs[0], m) and _match(xs[1:], ms[1:])


def gen_obj_for(rng, t, depth=3):
    """An object that is likely (not certainly) a member of t: follows the structure of the type."""
    k = t[0]
    if depth <= 0:
        return rng.choice(SCALARS)
    if k == "known":
        return t[1]
    if k == "typed" or k == "newtype":
        c = t[1] if k == "typed" else t[2]
        cands = [o for o in SCALARS + CLSOBJS if _sub(type(obj_to_py(o)), c)]
        if c in (TUPLE, SEQUENCE, ITERABLE, COLLECTION, CONTAINER, 0, HASHABLE, SIZED):
            cands.append(("tuple", [rng.choice(SCALARS) for _ in range(rng.randint(0, 2))]))
        if c in (LIST, SEQUENCE, ITERABLE, COLLECTION, CONTAINER, MUTSEQ, 0, SIZED):
            cands.append(("list", [rng.choice(SCALARS) for _ in range(rng.randint(0, 2))]))
        if c in (DICT, MAPPING, ITERABLE, COLLECTION, CONTAINER, 0, SIZED):
            cands.append(("dict", [("str", "a")], [rng.choice(SCALARS)]))
        if c in (SET, ABSSET, ITERABLE, COLLECTION, 0):
            cands.append(("set", [("int", 1)]))
        if c in (FSET, ABSSET, ITERABLE, COLLECTION, 0, HASHABLE):
            cands.append(("fset", [("int", 1)]))
        return rng.choice(cands) if cands else rng.choice(SCALARS)
    if k == "annotated":
        return gen_obj_for(rng, t[1], depth)
    if k == "union":
        return gen_obj_for(rng, rng.choice(t[1]), depth) if t[1] else rng.choice(SCALARS)
    if k == "subclass":
        cands = [o for o in CLSOBJS if _sub(CLASSES[o[1]], t[1])]
        return rng.choice(cands) if cands else rng.choice(CLSOBJS)
    if k == "generic":
        c, args = t[1], t[2]
        n = rng.choice([0, 1, 2])
        if len(args) == 2:
            ks = []
            for _ in range(n):
                e = gen_obj_for(rng, args[0], depth - 1)
                try:
                    hash(obj_to_py(e))
                except TypeError:
                    continue
                if not any(obj_to_py(e) == obj_to_py(x) for x in ks):
                    ks.append(e)
            return ("dict", ks, [gen_obj_for(rng, args[1], depth - 1) for _ in ks])
        kinds = {LIST: ["list"], SET: ["set"], FSET: ["fset"], TUPLE: ["tuple"], SEQUENCE: ["list", "tuple"], MUTSEQ: ["list"],
                 ABSSET: ["set", "fset"]}.get(c, ["list", "tuple", "set", "fset"])
        kind = rng.choice(kinds)
        elems = [gen_obj_for(rng, args[0], depth - 1) for _ in range(n)]
        if kind in ("set", "fset"):
            out = []
            for e in elems:
                try:
                    hash(obj_to_py(e))
                except TypeError:
                    continue
                if not any(obj_to_py(e) == obj_to_py(x) for x in out):
                    out.append(e)
            elems = out
        return (kind, elems)
    if k == "seq":
        kind = {TUPLE: "tuple", LIST: "list", SET: "set"}.get(t[1], "tuple")
        elems = []
        for m in t[2]:
            if m[0] == "many":
                elems += [gen_obj_for(rng, m[1], depth - 1) for _ in range(rng.choice([0, 1, 2]))]
            else:
                elems.append(gen_obj_for(rng, m, depth - 1))
        if kind == "set":
            out = []
            for e in elems:
                try:
                    hash(obj_to_py(e))
                except TypeError:
                    return ("tuple", elems)
                if not any(obj_to_py(e) == obj_to_py(x) for x in out):
                    out.append(e)
            elems = out
        return (kind, elems)
    return rng.choice(SCALARS)


def mutate_obj(rng, o):
    """A near miss: change one leaf / length."""
    k = o[0]
    if k in ("tuple", "list") and o[1]:
        xs = list(o[1])
        r = rng.random()
        if r < 0.3:
            xs.pop(rng.randrange(len(xs)))
        elif r < 0.5:
            xs.append(rng.choice(SCALARS))
        else:
            i = rng.randrange(len(xs))
            xs[i] = mutate_obj(rng, xs[i])
        return (k, xs)
    if k == "dict" and o[1]:
        vs = list(o[2])
        i = rng.randrange(len(vs))
        vs[i] = mutate_obj(rng, vs[i])
        return ("dict", o[1], vs)
    return rng.choice(SCALARS)


def norm_term(t):
    """Terms as pyanalyze can hold them: unions are flat and have != 1 members, no Annotated[Annotated[..]],
    no Annotated[Never]."""
    k = t[0]
    if k == "union":
        out = []
        for x in t[1]:
            x = norm_term(x)
            if x[0] == "annotated" and x[1][0] == "union":
                x = ("union", [("annotated", y) for y in x[1][1]])  # flatten_values hands the metadata down
            out += x[1] if x[0] == "union" else [x]
        return out[0] if len(out) == 1 else ("union", out)
    if k in ("generic", "seq"):
        return (k, t[1], [norm_term(x) for x in t[2]])
    if k == "many":
        return ("many", norm_term(t[1]))
    if k == "annotated":
        inner = norm_term(t[1])
        if inner == ("union", []):
            return inner
        return inner if inner[0] == "annotated" else ("annotated", inner)
    return t


# ------------------------------------------------------------------ IntEnum members inside containers
# Python: (IE.X,) == (1,) and both are tuples, so a literal container type holding the int also contains the container
# holding the IntEnum member. The Lean `Obj.same` keeps instances apart from ints (Core/Obj.lean), so objects with an
# IntEnum member NESTED in a container are outside the modelled fragment: the generators do not produce them
# (recorded in the ASSUMPTIONS of the properties using these generators).
_IE = CID[U.IE]
_COLOR = CID[U.Color]


def _no_nested_intenum(o, top=True):
    k = o[0]
    if k == "inst":
        # replaced by a string that occurs nowhere else (a Color member could duplicate a set element / dict key)
        return ("str", "ie%d" % o[2]) if (not top and o[1] == _IE) else o
    if k in ("tuple", "list", "set", "fset"):
        return (k, [_no_nested_intenum(x, False) for x in o[1]])
    if k == "dict":
        return ("dict", [_no_nested_intenum(x, False) for x in o[1]], [_no_nested_intenum(x, False) for x in o[2]])
    return o


def _wrap_obj_gen(fn):
    def inner(*a, **kw):
        return _no_nested_intenum(fn(*a, **kw))
    inner.__name__ = fn.__name__
    inner.__doc__ = fn.__doc__
    return inner


gen_obj = _wrap_obj_gen(gen_obj)
gen_obj_for = _wrap_obj_gen(gen_obj_for)
mutate_obj = _wrap_obj_gen(mutate_obj)
_small_objs_raw = small_objs


def small_objs():
    return [_no_nested_intenum(o) for o in _small_objs_raw()]
