"""Building the Lean project, auditing axioms, running line-protocol drivers."""
import fcntl, os, re, subprocess, tempfile, time

HERE = os.path.dirname(os.path.dirname(os.path.dirname(os.path.abspath(__file__))))
LEAN = os.path.join(HERE, "lean")
ALLOWED_AXIOMS = {"propext", "Classical.choice", "Quot.sound"}
FORBIDDEN = re.compile(
    r"\bsorry\b|\badmit\b|^\s*axiom\s|native_decide|bv_decide|implemented_by|\bunsafe\s|maxHeartbeats\s+0\b"
)


class _Lock:
    def __enter__(self):
        os.makedirs(os.path.join(LEAN, ".lake"), exist_ok=True)
        self.f = open(os.path.join(LEAN, ".lake", "verif.lock"), "w")
        fcntl.flock(self.f, fcntl.LOCK_EX)
        return self

    def __exit__(self, *a):
        fcntl.flock(self.f, fcntl.LOCK_UN)
        self.f.close()


def write_if_changed(path, text):
    """Regenerated files are only touched when their content changes (keeps lake incremental,
    and makes concurrent checks on the same tree idempotent)."""
    os.makedirs(os.path.dirname(path), exist_ok=True)
    try:
        if open(path).read() == text:
            return False
    except FileNotFoundError:
        pass
    tmp = path + ".tmp%d" % os.getpid()
    with open(tmp, "w") as f:
        f.write(text)
    os.replace(tmp, path)
    return True


def build(targets, timeout=1500):
    """lake build <targets>. Returns (ok, log, errors) where errors is a list of
    (file, line, message)."""
    t0 = time.time()
    with _Lock():
        p = subprocess.run(
            ["lake", "build", *targets], cwd=LEAN, capture_output=True, text=True, timeout=timeout
        )
    log = p.stdout + p.stderr
    errs = []
    for m in re.finditer(r"^error: ([^\s:]+\.lean):(\d+):(\d+): (.*)$", log, re.M):
        errs.append((m.group(1), int(m.group(2)), m.group(4)))
    return p.returncode == 0, log, errs, time.time() - t0


def strip_comments(src):
    # remove /- ... -/ (nested not handled beyond one level, adequate for our sources) and -- comments
    out = []
    depth = 0
    i = 0
    while i < len(src):
        if src.startswith("/-", i):
            depth += 1
            i += 2
        elif src.startswith("-/", i) and depth > 0:
            depth -= 1
            i += 2
        elif depth > 0:
            if src[i] == "\n":
                out.append("\n")
            i += 1
        elif src.startswith("--", i):
            while i < len(src) and src[i] != "\n":
                i += 1
        else:
            out.append(src[i])
            i += 1
    return "".join(out)


def module_path(mod):
    return os.path.join(LEAN, *mod.split(".")) + ".lean"


def import_closure(mod):
    seen, todo = [], [mod]
    while todo:
        m = todo.pop()
        if m in seen:
            continue
        p = module_path(m)
        if not os.path.exists(p):
            continue
        seen.append(m)
        for mm in re.findall(r"^import\s+(PyaModel\.\S+)", open(p).read(), re.M):
            todo.append(mm)
    return seen


def decls(mod):
    """(theorems, examples, defs) declared in a module, comments stripped."""
    src = strip_comments(open(module_path(mod)).read())
    ths = re.findall(r"^\s*(?:@\[[^\]]*\]\s*)?(?:private\s+|protected\s+)?(?:theorem|lemma)\s+([^\s:({\[]+)", src, re.M)
    exs = len(re.findall(r"^\s*example\b", src, re.M))
    return ths, exs


def decl_at(mod_file, line):
    """Name of the theorem/def enclosing a line (for attributing build errors)."""
    try:
        lines = open(os.path.join(LEAN, mod_file)).read().split("\n")
    except OSError:
        return None
    for i in range(min(line, len(lines)) - 1, -1, -1):
        m = re.match(r"\s*(?:@\[[^\]]*\]\s*)?(?:private\s+)?(theorem|lemma|def|example|instance|abbrev)\s*([^\s:({\[]*)", lines[i])
        if m:
            return (m.group(1) + " " + m.group(2)).strip()
    return None


def forbidden_tokens(mods):
    hits = []
    for m in mods:
        src = strip_comments(open(module_path(m)).read())
        for ln, l in enumerate(src.split("\n"), 1):
            if FORBIDDEN.search(l):
                hits.append("%s:%d: %s" % (m, ln, l.strip()))
    return hits


def audit(prop_mod, names, namespace="Pya"):
    """#print axioms for each named theorem. Returns {name: [axioms]} (None if lean failed on it)."""
    body = "import %s\n" % prop_mod + "".join(
        "#print axioms %s.%s\n" % (namespace, n) for n in names
    )
    with tempfile.NamedTemporaryFile("w", suffix=".lean", dir=LEAN, delete=False) as f:
        f.write(body)
        path = f.name
    try:
        p = subprocess.run(["lake", "env", "lean", path], cwd=LEAN, capture_output=True, text=True, timeout=600)
    finally:
        os.unlink(path)
    out = p.stdout + p.stderr
    res = {}
    for n in names:
        full = "%s.%s" % (namespace, n)
        m = re.search(r"'%s' depends on axioms: \[([^\]]*)\]" % re.escape(full), out)
        if m:
            res[n] = [a.strip() for a in m.group(1).replace("\n", " ").split(",") if a.strip()]
        elif re.search(r"'%s' does not depend on any axioms" % re.escape(full), out):
            res[n] = []
        else:
            res[n] = None
    return res, out


def run_driver(name, lines, timeout=1200):
    """Pipe lines to `lake env lean --run Driver/<name>.lean`; returns output lines."""
    data = "\n".join(lines) + "\n"
    p = subprocess.run(
        ["lake", "env", "lean", "--run", "Driver/%s.lean" % name],
        cwd=LEAN, input=data, capture_output=True, text=True, timeout=timeout,
    )
    out = p.stdout.split("\n")
    if out and out[-1] == "":
        out.pop()
    if p.returncode != 0 or len(out) != len(lines):
        raise DriverError(
            "driver %s: rc=%s, %d lines in, %d out\n%s" % (name, p.returncode, len(lines), len(out), p.stderr[-2000:])
        )
    return out


class DriverError(Exception):
    pass
