"""Running the real pyanalyze (from /repo's working tree) in-process."""
import ast, contextlib, io, os, re, sys, textwrap

REPO = os.environ.get("VERIF_REPO", "/repo")
if REPO not in sys.path:
    sys.path.insert(0, REPO)

import pyanalyze  # noqa: E402

assert os.path.realpath(pyanalyze.__file__).startswith(os.path.realpath(REPO)), (
    "pyanalyze must be imported from the repository under check: " + pyanalyze.__file__
)

from pyanalyze.analysis_lib import make_module  # noqa: E402
from pyanalyze.error_code import ErrorCode  # noqa: E402
from pyanalyze.name_check_visitor import NameCheckVisitor  # noqa: E402

# Codes that are lint/noise for generated programs; each property module may override.
NOISY = (
    "missing_parameter_annotation missing_return_annotation implicit_any unused_variable "
    "unused_assignment value_always_true suggested_parameter_type suggested_return_type "
    "no_return_may_return missing_generic_parameters unused_ignore bare_ignore "
    "incompatible_default implicit_non_ascii_string unsafe_comparison must_use "
    "disallowed_import implicit_reexport unnecessary_yield use_fstrings use_floor_div "
    "internal_test duplicate_yield attribute_is_never_set"
).split()

_MODTOKEN = re.compile(r"<test input [0-9a-f]+>")


def norm(text: str) -> str:
    return _MODTOKEN.sub("<mod>", text)


def default_settings(extra_on=(), extra_off=()):
    st = {c: True for c in ErrorCode}
    for n in NOISY:
        e = getattr(ErrorCode, n, None)
        if e is not None:
            st[e] = False
    for n in extra_on:
        st[getattr(ErrorCode, n)] = True
    for n in extra_off:
        st[getattr(ErrorCode, n)] = False
    return st


def check_source(code, settings=None, annotate=False, raw=False, **kw):
    """Check one module given as source text. Returns (failures, tree, module).
    failures: list of dicts {lineno, col, code, message} (or pyanalyze's own dicts if raw)."""
    code = textwrap.dedent(code)
    tree = ast.parse(code)
    mod = make_module(code)
    st = default_settings() if settings is None else settings
    kwargs = NameCheckVisitor.prepare_constructor_kwargs({"settings": st, **kw})
    err = io.StringIO()
    with contextlib.redirect_stderr(err), contextlib.redirect_stdout(io.StringIO()):
        v = NameCheckVisitor(mod.__name__, code, tree, module=mod, annotate=annotate, **kwargs)
        res = v.check()
    if raw:
        return res, tree, mod
    out = []
    for f in res:
        c = f.get("code")
        out.append(
            {
                "lineno": f.get("lineno"),
                "col": f.get("col_offset"),
                "code": c.name if c is not None else None,
                "message": norm(f.get("description", "")).split("\n")[0],
                "full": norm(f.get("description", "")),
            }
        )
    return out, tree, mod


def make_checker():
    from pyanalyze.checker import Checker
    return Checker()
