"""Class universe, Obj/Ty term codec (Python object / pyanalyze Value <-> s-expression), class-table translator."""
import abc, collections.abc as cabc, enum, typing

from harness import universe as U
from harness.common import lean, pya  # noqa: F401  (pya sets sys.path)

from pyanalyze import value as V

CLASSES = [
    object, int, bool, float, complex, str, bytes, type(None), tuple, list, set, frozenset, dict, type,
    cabc.Sequence, cabc.Iterable, cabc.Collection, cabc.Container, cabc.Mapping, cabc.Hashable, cabc.Sized,
    cabc.MutableSequence, cabc.Set,
    U.A, U.B, U.Cc, U.D, U.Color, U.IE, enum.Enum, enum.IntEnum, type(enum.Enum), abc.ABCMeta,
    U.Fl,  # appended last: class ids of the classes above are referred to by Lean witnesses
]
CID = {c: i for i, c in enumerate(CLASSES)}
NEWTYPES = [U.NT0, U.NT1, U.NT2]
TYPEVARS = [typing.TypeVar("T0"), typing.TypeVar("T1"), typing.TypeVar("T2")]
FLOATS = [1.5, 2.5, -0.5]
COMPLEXES = [1.5j, 2 + 0.5j]
N_INST = {U.A: 2, U.B: 2, U.Cc: 1, U.D: 1, U.Color: 2, U.IE: 2, U.Fl: 1}


def cname(c):
    return getattr(c, "__qualname__", None) or getattr(c, "__name__", None) or str(c)


# ------------------------------------------------------------------ Obj terms
# Obj terms are nested tuples: ("int", 3) ("bool", 1) ("str", "ab") ("bytes", "ab") ("none",) ("flt", i) ("cplx", i)
# ("inst", cid, i) ("cls", cid) ("tuple", [..]) ("list", [..]) ("set", [..]) ("fset", [..]) ("dict", [ks], [vs])
def obj_to_py(o):
    k = o[0]
    if k == "int":
        return o[1]
    if k == "bool":
        return bool(o[1])
    if k == "str":
        return o[1]
    if k == "bytes":
        return o[1].encode()
    if k == "none":
        return None
    if k == "flt":
        return FLOATS[o[1]]
    if k == "cplx":
        return COMPLEXES[o[1]]
    if k == "inst":
        return U.instance(CLASSES[o[1]], o[2])
    if k == "cls":
        return CLASSES[o[1]]
    if k == "tuple":
        return tuple(obj_to_py(x) for x in o[1])
    if k == "list":
        return [obj_to_py(x) for x in o[1]]
    if k == "set":
        return {obj_to_py(x) for x in o[1]}
    if k == "fset":
        return frozenset(obj_to_py(x) for x in o[1])
    if k == "dict":
        return {obj_to_py(a): obj_to_py(b) for a, b in zip(o[1], o[2])}
    raise ValueError(o)


class Unencodable(Exception):
    pass


def py_to_obj(v):
    t = type(v)
    if t is bool:
        return ("bool", int(v))
    if t is int:
        return ("int", v)
    if t is str:
        if not (v.isalnum() or v == "") or not v.isascii():
            raise Unencodable(v)
        return ("str", v)
    if t is bytes:
        s = v.decode("latin1")
        if not (s.isalnum() or s == "") or not s.isascii():
            raise Unencodable(v)
        return ("bytes", s)
    if v is None:
        return ("none",)
    if t is float:
        if v in FLOATS:
            return ("flt", FLOATS.index(v))
        raise Unencodable(v)
    if t is complex:
        if v in COMPLEXES:
            return ("cplx", COMPLEXES.index(v))
        raise Unencodable(v)
    if isinstance(v, type):
        if v in CID:
            return ("cls", CID[v])
        raise Unencodable(v)
    if t is tuple:
        return ("tuple", [py_to_obj(x) for x in v])
    if t is list:
        return ("list", [py_to_obj(x) for x in v])
    if t is set:
        return ("set", sorted((py_to_obj(x) for x in v), key=repr))
    if t is frozenset:
        return ("fset", sorted((py_to_obj(x) for x in v), key=repr))
    if t is dict:
        return ("dict", [py_to_obj(k) for k in v], [py_to_obj(x) for x in v.values()])
    if t in CID:
        if isinstance(v, enum.Enum):
            return ("inst", CID[t], list(t).index(v))
        for (c, i), inst in U.INSTANCES.items():
            if inst is v:
                return ("inst", CID[c], i)
    raise Unencodable(v)


def canon_obj(o):
    """Canonical element order for sets (the Lean side compares set elements positionally)."""
    k = o[0]
    if k in ("tuple", "list"):
        return (k, [canon_obj(x) for x in o[1]])
    if k in ("set", "fset"):
        return (k, sorted((canon_obj(x) for x in o[1]), key=repr))
    if k == "dict":
        return (k, [canon_obj(x) for x in o[1]], [canon_obj(x) for x in o[2]])
    return o


def obj_sexp(o):
    k = o[0]
    if k == "none":
        return "none"
    if k in ("str", "bytes"):
        return "(%s %s)" % (k, o[1]) if o[1] else "(%s)" % k
    if k in ("tuple", "list", "set", "fset"):
        return "(" + " ".join([k] + [obj_sexp(x) for x in o[1]]) + ")"
    if k == "dict":
        return "(dict (%s) (%s))" % (" ".join(obj_sexp(x) for x in o[1]), " ".join(obj_sexp(x) for x in o[2]))
    return "(" + " ".join(str(x) for x in o) + ")"


# ------------------------------------------------------------------ Ty terms
# ("any",) ("known", obj) ("typed", cid) ("newtype", n, cid) ("generic", cid, [args]) ("seq", cid, [members])
# ("many", t) ("union", [ts]) ("subclass", cid) ("annotated", t)
def ty_sexp(t):
    k = t[0]
    if k == "any":
        return "any"
    if k == "known":
        return "(known %s)" % obj_sexp(canon_obj(t[1]))
    if k in ("typed", "subclass"):
        return "(%s %d)" % (k, t[1])
    if k == "newtype":
        return "(newtype %d %d)" % (t[1], t[2])
    if k in ("generic", "seq"):
        return "(" + " ".join([k, str(t[1])] + [ty_sexp(x) for x in t[2]]) + ")"
    if k == "union":
        return "(" + " ".join(["union"] + [ty_sexp(x) for x in t[1]]) + ")"
    if k in ("many", "annotated"):
        return "(%s %s)" % (k, ty_sexp(t[1]))
    if k == "tvar":
        return "(tvar %d)" % t[1]
    raise ValueError(t)


def ty_to_value(t):
    """Build the pyanalyze Value a Ty term denotes."""
    k = t[0]
    if k == "any":
        return V.AnyValue(V.AnySource.explicit)
    if k == "known":
        return V.KnownValue(obj_to_py(t[1]))
    if k == "typed":
        return V.TypedValue(CLASSES[t[1]])
    if k == "newtype":
        return V.NewTypeValue(NEWTYPES[t[1]])
    if k == "generic":
        return V.GenericValue(CLASSES[t[1]], [ty_to_value(x) for x in t[2]])
    if k == "seq":
        return V.SequenceValue(
            CLASSES[t[1]], [(True, ty_to_value(m[1])) if m[0] == "many" else (False, ty_to_value(m)) for m in t[2]]
        )
    if k == "union":
        if not t[1]:
            return V.NO_RETURN_VALUE  # Never is a singleton in pyanalyze (`other is NO_RETURN_VALUE` tests)
        return V.MultiValuedValue([ty_to_value(x) for x in t[1]])
    if k == "subclass":
        return V.SubclassValue(V.TypedValue(CLASSES[t[1]]))
    if k == "annotated":
        return V.AnnotatedValue(ty_to_value(t[1]), [V.KnownValue("meta")])
    if k == "tvar":
        return V.TypeVarValue(TYPEVARS[t[1]])
    raise ValueError(t)


def value_to_ty(v):
    """Decode a pyanalyze Value structurally (never through str())."""
    if isinstance(v, V.AnyValue):
        return ("any",)
    if isinstance(v, V.KnownValue):
        return ("known", py_to_obj(v.val))
    if isinstance(v, V.NewTypeValue):
        if v.newtype in NEWTYPES:
            return ("newtype", NEWTYPES.index(v.newtype), CID[v.typ])
        raise Unencodable(v)
    if isinstance(v, V.SequenceValue):
        if v.typ not in CID:
            raise Unencodable(v)
        return ("seq", CID[v.typ], [("many", value_to_ty(m)) if many else value_to_ty(m) for many, m in v.members])
    if isinstance(v, V.DictIncompleteValue) or isinstance(v, V.TypedDictValue) or isinstance(v, V.CallableValue):
        raise Unencodable(v)
    if isinstance(v, V.GenericValue):
        if v.typ not in CID:
            raise Unencodable(v)
        return ("generic", CID[v.typ], [value_to_ty(a) for a in v.args])
    if isinstance(v, V.TypedValue):
        if v.typ not in CID or v.literal_only:
            raise Unencodable(v)
        return ("typed", CID[v.typ])
    if isinstance(v, V.MultiValuedValue):
        return ("union", [value_to_ty(x) for x in v.vals])
    if isinstance(v, V.SubclassValue):
        if isinstance(v.typ, V.TypedValue) and v.typ.typ in CID and not v.exactly:
            return ("subclass", CID[v.typ.typ])
        raise Unencodable(v)
    if isinstance(v, V.AnnotatedValue):
        return ("annotated", value_to_ty(v.value))
    if isinstance(v, V.TypeVarValue):
        if v.typevar in TYPEVARS and v.bound is None and not v.constraints and not v.is_paramspec:
            return ("tvar", TYPEVARS.index(v.typevar))
        raise Unencodable(v)
    raise Unencodable(v)


# ------------------------------------------------------------------ class table translator
def _safe_issub(a, b):
    try:
        return issubclass(a, b)
    except Exception:
        return False


def class_table(checker):
    n = len(CLASSES)
    issub = [[_safe_issub(a, b) for b in CLASSES] for a in CLASSES]
    nominal = [
        [not isinstance(V.TypedValue(e).can_assign(V.TypedValue(a), checker), V.CanAssignError) for a in CLASSES]
        for e in CLASSES
    ]
    meta = [CID.get(type(c), CID[type]) for c in CLASSES]
    # the protocol check looks at the *value*, so literals and class objects get their own class-level relation
    reps = {int: 1, bool: True, float: 1.5, complex: 1.5j, str: "a", bytes: b"a", type(None): None, tuple: (1,), list: [1],
            set: {1}, frozenset: frozenset({1}), dict: {"a": 1}}
    for c, k in N_INST.items():
        reps[c] = U.instance(c, 0)

    def acc(e, val):
        try:
            return not isinstance(V.TypedValue(e).can_assign(V.KnownValue(val), checker), V.CanAssignError)
        except Exception:
            return False

    # NB: TypedValue.can_assign on a KnownValue also applies the is_instance fallback; the model adds it separately,
    # so record the TypeObject-level verdict only.
    def tobj_acc(e, val):
        try:
            tobj = checker.make_type_object(e)
            return not isinstance(tobj.can_assign(V.TypedValue(e), V.KnownValue(val), checker), V.CanAssignError)
        except Exception:
            return False

    nominal_k = [[(a in reps) and tobj_acc(e, reps[a]) for a in CLASSES] for e in CLASSES]
    nominal_c = [[tobj_acc(e, d) for d in CLASSES] for e in CLASSES]
    # the same three relations in "Any only matches Any" mode (protocol member checks see it)
    # (a fresh checker: TypeObject._protocol_positive_cache is keyed by the value only, so positives computed
    #  without the mode would be replayed inside it — see known finding C10.protoCacheMode)
    checker = pya.make_checker()
    with checker.set_exclude_any():
        nominal_x = [
            [not isinstance(V.TypedValue(e).can_assign(V.TypedValue(a), checker), V.CanAssignError) for a in CLASSES]
            for e in CLASSES
        ]
        nominal_kx = [[(a in reps) and tobj_acc(e, reps[a]) for a in CLASSES] for e in CLASSES]
        nominal_cx = [[tobj_acc(e, d) for d in CLASSES] for e in CLASSES]
    sent = [V.KnownValue("$%d" % i) for i in range(3)]
    arity, gbase = [], []
    for a in CLASSES:
        gb0 = checker.get_generic_bases(a, sent)
        own = list(gb0.get(a, {}).values())
        ar = len(own)
        arity.append(ar)
        gb = checker.get_generic_bases(a, sent[:ar])
        row = []
        for e in CLASSES:
            if e not in gb:
                row.append(None)
                continue
            args = []
            ok = True
            for v in gb[e].values():
                if isinstance(v, V.KnownValue) and isinstance(v.val, str) and v.val.startswith("$"):
                    args.append(("param", int(v.val[1:])))
                else:
                    try:
                        args.append(("fixed", value_to_ty(v)))
                    except Unencodable:
                        ok = False
            row.append(args if ok else None)
        gbase.append(row)
    proto = [bool(checker.make_type_object(c).is_protocol) for c in CLASSES]
    enums = [_safe_issub(c, enum.Enum) for c in CLASSES]
    return dict(names=[cname(c) for c in CLASSES], issub=issub, nominal=nominal, nominal_k=nominal_k,
                nominal_c=nominal_c, nominal_x=nominal_x, nominal_kx=nominal_kx, nominal_cx=nominal_cx, meta=meta, arity=arity, gbase=gbase, proto=proto, enum=enums)


def _b(x):
    return "true" if x else "false"


def _garg(g):
    if g[0] == "param":
        return ".param %d" % g[1]
    return ".fixed (%s)" % ty_lean(g[1])


def ty_lean(t):
    k = t[0]
    if k == "any":
        return "Ty.any"
    if k == "typed":
        return "Ty.typed %d" % t[1]
    if k == "generic":
        return "Ty.generic %d [%s]" % (t[1], ", ".join(ty_lean(x) for x in t[2]))
    if k == "union":
        return "Ty.union [%s]" % ", ".join(ty_lean(x) for x in t[1])
    raise Unencodable(t)


def class_table_lean(tb):
    def mat(m):
        return "[" + ",\n    ".join("[" + ", ".join(_b(x) for x in row) + "]" for row in m) + "]"

    gb = "[" + ",\n    ".join(
        "[" + ", ".join("none" if g is None else "some [%s]" % ", ".join(_garg(x) for x in g) for g in row) + "]"
        for row in tb["gbase"]
    ) + "]"
    return """import PyaModel.Core.ClassTable
/-! GENERATED by harness/common/values.py (class_table) from the live /repo tree on every run.
Do not edit. Row/column order = `names`. -/
namespace Pya

def liveTable : ClassTable where
  names := [%s]
  issubM := %s
  nominalM := %s
  nominalKM := %s
  nominalCM := %s
  nominalXM := %s
  nominalKXM := %s
  nominalCXM := %s
  metaL := [%s]
  arityL := [%s]
  gbaseM := %s
  protoL := [%s]
  enumL := [%s]
  userL := [%s]

end Pya
""" % (
        ", ".join('"%s"' % n for n in tb["names"]), mat(tb["issub"]), mat(tb["nominal"]), mat(tb["nominal_k"]), mat(tb["nominal_c"]),
        mat(tb["nominal_x"]), mat(tb["nominal_kx"]), mat(tb["nominal_cx"]),
        ", ".join(str(x) for x in tb["meta"]), ", ".join(str(x) for x in tb["arity"]), gb,
        ", ".join(_b(x) for x in tb["proto"]), ", ".join(_b(x) for x in tb["enum"]),
        ", ".join(_b(c in N_INST) for c in CLASSES),
    )


def regenerate_class_table(checker=None):
    import os
    checker = checker or pya.make_checker()
    tb = class_table(checker)
    path = os.path.join(lean.LEAN, "PyaModel", "Generated", "ClassTable.lean")
    changed = lean.write_if_changed(path, class_table_lean(tb))
    return tb, changed
