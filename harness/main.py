"""./check <ID> [--tier quick|thorough] [--replay FILE]

Decision procedure shared by all properties (DESIGN.md §2):
  1 regenerate tables from /repo     2 lake build (proof obligations)   3 axiom audit
  4 correspondence model<->impl      5 property search on the implementation
  6 classify: new failing input -> VIOLATION; broken obligation/correspondence without a
    failing input -> widened search, then VIOLATION ... no-failing-input-found;
    listed findings -> KNOWN-FINDING lines, exit 0.
Exit codes: 0 held, 1 violation, 2 infrastructure failure (timeout, crash of the harness).
"""
import argparse, hashlib, importlib, json, os, random, shutil, signal, sys, tempfile, time, traceback
import subprocess

HERE = os.path.dirname(os.path.dirname(os.path.abspath(__file__)))
sys.path.insert(0, HERE)

from harness.common import lean  # noqa: E402

TRUSTED_BASE = [
    "Lean 4.33.0 kernel; axioms allowed: propext, Classical.choice, Quot.sound (audited with #print axioms on every run)",
    "no sorry/admit/axiom/native_decide/bv_decide/implemented_by/unsafe in lean/PyaModel (grepped on every run)",
    "hand-written Lean model of the anchored pyanalyze code; tie to /repo = correspondence run of this check (differential, sampled)",
    "CPython 3.12.1 as the independent oracle; harness/ generators, canonicalisation and oracles",
]


class Ctx:
    def __init__(self, prop, tier, seed):
        self.prop, self.tier, self.seed = prop, tier, seed
        self.rng = random.Random(seed)
        self.widened = False
        self.anchor_changed = []
        self.t0 = time.time()
        self.scratch = tempfile.mkdtemp(prefix="verif-%s-" % prop, dir=os.environ.get("VERIF_SCRATCH", "/var/tmp"))
        self.evaluations = 0
        self.nontrivial = set()
        self.samples = []
        self.traces = 0
        self.dist = {}
        self.candidates = []      # failing inputs of the property on the implementation
        self.broken = []          # broken obligations / ties / correspondence
        self.notes = []
        self.rule = ""
        self.assumptions = []
        self.extra = {}
        self.obligations = 0
        self.discharged = 0
        self.theorems = {}
        self.streams = {}

    # ---- sizes
    def big(self):
        """Structural switches of the generators (larger alphabets, extra families) follow the tier only;
        the anchor-change / widened bump goes through n()."""
        return self.tier == "thorough"

    def n(self, quick, thorough):
        """Sample size: the thorough size in the thorough tier; in the quick tier a widened search (after a broken
        obligation / correspondence) or a changed anchored function raises the size four-fold, capped by the thorough
        size - enough to re-validate the model where the code moved while keeping the quick tier within minutes."""
        if self.tier == "thorough":
            return thorough
        if self.widened or self.anchor_changed:
            return max(quick, min(thorough, quick * getattr(self, 'widen_factor', 4)))
        return quick

    # ---- bookkeeping
    def count(self, k=1, **dist):
        self.evaluations += k
        for key, v in dist.items():
            self.dist[key] = self.dist.get(key, 0) + v

    def tag(self, key, k=1):
        self.dist[key] = self.dist.get(key, 0) + k

    def nontriv(self, case):
        self.nontrivial.add(case if isinstance(case, str) else json.dumps(case, sort_keys=True, default=str))

    def sample(self, case, limit=6):
        if len(self.samples) < limit:
            self.samples.append(case)

    def corr(self, stream, k=1):
        self.traces += k
        self.streams[stream] = self.streams.get(stream, 0) + k

    def disagree(self, stream, case, impl, model):
        self.broken.append({"kind": "correspondence", "stream": stream, "case": case, "impl": impl, "model": model})

    def obligation_broken(self, name, detail):
        self.broken.append({"kind": "obligation", "name": name, "detail": detail})

    def candidate(self, case, what, cls=None, conforms=True, stream=None):
        """A concrete input on which the property fails on the implementation.
        cls: exception class D_P.k it falls in (None = outside every class);
        conforms: implementation output equals the model's on this input."""
        self.candidates.append({"case": case, "what": what, "class": cls, "conforms": conforms, "stream": stream})

    def cleanup(self):
        shutil.rmtree(self.scratch, ignore_errors=True)


def load_known(prop):
    path = os.path.join(HERE, "known_findings.json")
    try:
        data = json.load(open(path))
    except FileNotFoundError:
        return []
    out = [e for e in data.get("findings", []) if e.get("property") == prop]
    extra = os.environ.get("VERIF_KNOWN_EXTRA")  # development aid only; registered commands never set it
    if extra and os.path.exists(extra):
        out += [e for e in json.load(open(extra)).get("findings", []) if e.get("property") == prop]
    return out


def anchors_check(ctx, mod):
    """Normalised-AST fingerprints of the functions the hand-written model follows. A change is not
    a violation; it raises the correspondence sample size to the thorough one (DESIGN §5)."""
    import ast
    anchors = getattr(mod, "ANCHORS", [])
    if not anchors:
        return
    try:
        ref = json.load(open(os.path.join(HERE, "anchors.json")))
    except FileNotFoundError:
        ref = {}
    repo = os.environ.get("VERIF_REPO", "/repo")
    cur = {}
    for file, qual in anchors:
        try:
            tree = ast.parse(open(os.path.join(repo, file)).read())
        except Exception as e:  # unparsable source: pyanalyze itself will not import either
            cur["%s::%s" % (file, qual)] = "unparsable:%s" % type(e).__name__
            continue
        node = tree
        for part in qual.split("."):
            nxt = None
            for ch in ast.walk(node) if node is tree else ast.iter_child_nodes(node):
                if isinstance(ch, (ast.FunctionDef, ast.ClassDef, ast.AsyncFunctionDef)) and ch.name == part:
                    nxt = ch
                    break
            node = nxt
            if node is None:
                break
        key = "%s::%s" % (file, qual)
        cur[key] = "missing" if node is None else hashlib.sha256(ast.dump(node).encode()).hexdigest()[:16]
    ctx.extra["anchors"] = cur
    ctx.anchor_changed = sorted(k for k, v in cur.items() if ref.get(k) != v)
    if os.environ.get("VERIF_UPDATE_ANCHORS"):
        ref.update(cur)
        json.dump(ref, open(os.path.join(HERE, "anchors.json"), "w"), indent=1, sort_keys=True)
        ctx.anchor_changed = []


def lean_phase(ctx, mod):
    """Steps 1-3: regenerate, build, audit. Records obligations/discharged and broken obligations."""
    if hasattr(mod, "translate"):
        try:
            mod.translate(ctx)
        except Exception as e:
            ctx.obligation_broken("translator", "translator could not regenerate tables from /repo: %r" % (e,))
            ctx.notes.append(traceback.format_exc())
    prop_mod = mod.LEAN_PROP
    targets = list(dict.fromkeys([prop_mod] + list(getattr(mod, "LEAN_TARGETS", []))))
    ok, log, errs, dt = lean.build(targets)
    ctx.extra["lake_build_s"] = round(dt, 1)
    closure = [m for m in lean.import_closure(prop_mod)]
    prop_ths, prop_exs = lean.decls(prop_mod)
    helper = 0
    for m in closure:
        if m == prop_mod:
            continue
        ths, exs = lean.decls(m)
        helper += len(ths) + exs
    ctx.obligations = len(prop_ths) + prop_exs + helper
    ctx.extra["property_theorems"] = prop_ths
    ctx.extra["helper_obligations"] = helper
    ctx.extra["modules"] = closure
    bad = lean.forbidden_tokens(closure)
    if bad:
        ctx.obligation_broken("source-audit", "forbidden token(s): " + "; ".join(bad[:5]))
    if not ok:
        failing = sorted({"%s (%s:%d)" % (lean.decl_at(f, l) or "?", f, l) for f, l, _ in errs}) or ["(build failed)"]
        for f in failing:
            ctx.obligation_broken(f, "lake build failed")
        ctx.extra["build_log_tail"] = log[-3000:]
        ctx.discharged = max(0, ctx.obligations - len(failing))
        return False
    axioms, out = lean.audit(prop_mod, prop_ths, getattr(mod, "NAMESPACE", "Pya"))
    n_bad = 0
    for name, ax in axioms.items():
        if ax is None:
            n_bad += 1
            ctx.obligation_broken(name, "#print axioms gave no answer: " + out[-500:])
        elif not set(ax) <= lean.ALLOWED_AXIOMS:
            n_bad += 1
            ctx.obligation_broken(name, "depends on axioms outside the trusted base: %s" % ax)
    ctx.theorems = axioms
    if ctx.tier == "thorough":
        # independent re-check of the compiled .olean files of the property's own modules by leanchecker
        own = [m for m in closure if m.startswith("PyaModel.")]
        t0 = time.time()
        try:
            r = subprocess.run(["lake", "env", "leanchecker"] + own, cwd=os.path.join(HERE, "lean"),
                               capture_output=True, text=True, timeout=1500)
            ctx.extra["leanchecker"] = {"modules": len(own), "exit": r.returncode, "seconds": round(time.time() - t0, 1)}
            if r.returncode != 0:
                n_bad += 1
                ctx.obligation_broken("leanchecker", "leanchecker rejected the compiled modules: " + (r.stdout + r.stderr)[-800:])
        except subprocess.TimeoutExpired:
            ctx.extra["leanchecker"] = {"modules": len(own), "exit": "timeout"}
            ctx.notes.append("leanchecker timed out (not counted as a broken obligation)")
    ctx.discharged = ctx.obligations - n_bad - (1 if bad else 0)
    return True


def write_replay(ctx, kind, payload):
    os.makedirs(os.path.join(HERE, "replays"), exist_ok=True)
    blob = json.dumps(payload, sort_keys=True, default=str)
    h = hashlib.sha256(blob.encode()).hexdigest()[:10]
    rel = "replays/%s-%s.json" % (ctx.prop, h)
    payload = dict(payload, property=ctx.prop, kind=kind, seed=ctx.seed, tier=ctx.tier,
                   replay_cmd="./check %s --replay %s" % (ctx.prop, rel))
    with open(os.path.join(HERE, rel), "w") as f:
        json.dump(payload, f, indent=1, sort_keys=True, default=str)
    return rel


def write_evidence(ctx, mod, violations, known_lines, wall):
    cov = {
        "obligations": ctx.obligations,
        "discharged": ctx.discharged,
        "checker_cmd": "cd lean && lake build %s && lake env lean <#print axioms of every theorem in %s>"
        % (mod.LEAN_PROP, mod.LEAN_PROP),
        "trusted_base": TRUSTED_BASE + list(getattr(mod, "TRUSTED", [])),
        "theorem_axioms": ctx.theorems,
        "evaluations": ctx.evaluations,
        "distinct_nontrivial": len(ctx.nontrivial),
        "rule": ctx.rule or getattr(mod, "RULE", ""),
        "samples": ctx.samples or ["(no cases were generated: the run stopped before the correspondence phase)"],
        "traces_validated_against_impl": ctx.traces,
        "correspondence_streams": ctx.streams,
        "input_distribution": ctx.dist,
        "anchor_fingerprints_changed": ctx.anchor_changed,
        "widened_search": ctx.widened,
        "known_findings_printed": known_lines,
        "broken": ctx.broken[:10],
        "exhaustive": False,
    }
    cov.update(ctx.extra)
    ev = {
        "property_id": ctx.prop,
        "tier": ctx.tier,
        "seed": ctx.seed,
        "level": "proof",
        "coverage": cov,
        "assumptions": list(getattr(mod, "ASSUMPTIONS", [])) + ctx.assumptions,
        "wall_s": round(wall, 2),
        "violations": violations,
    }
    os.makedirs(os.path.join(HERE, "evidence"), exist_ok=True)
    tmp = os.path.join(HERE, "evidence", ".%s.json.tmp" % ctx.prop)
    with open(tmp, "w") as f:
        json.dump(ev, f, indent=1, default=str)
    os.replace(tmp, os.path.join(HERE, "evidence", "%s.json" % ctx.prop))


def decide(ctx, mod):
    known = load_known(ctx.prop)
    known_classes = {e["class"]: e for e in known if e.get("status") == "known"}

    def is_known(c):
        return c["class"] in known_classes and c["conforms"]

    new = [c for c in ctx.candidates if not is_known(c)]
    if not new and ctx.broken and not ctx.widened:
        # a proof obligation, the translator tie or the correspondence broke and no failing input is
        # in hand yet: search harder on the implementation before reporting.
        ctx.widened = True
        ctx.notes.append("widened search after: %s" % json.dumps(ctx.broken[0], default=str)[:300])
        try:
            mod.run(ctx)
        except Exception:
            ctx.notes.append("widened search crashed: " + traceback.format_exc()[-1500:])
        new = [c for c in ctx.candidates if not is_known(c)]
    lines = []
    known_lines = []
    by_class = {}
    for c in ctx.candidates:
        if is_known(c):
            by_class.setdefault(c["class"], []).append(c)
    for cls, cs in sorted(by_class.items()):
        e = known_classes[cls]
        known_lines.append("KNOWN-FINDING: property=%s class=%s %s (%d failing inputs this run, e.g. %s)" % (
            ctx.prop, cls, e.get("what", ""), len(cs), json.dumps(cs[0]["case"], default=str)[:160]))
    violations = 0
    if new:
        # report the smallest new failing input (by serialised size) per class, at most 3 lines
        seen = set()
        new.sort(key=lambda c: len(json.dumps(c["case"], default=str)))
        for c in new:
            key = (c["class"], c["what"][:40])
            if key in seen or len(seen) >= 3:
                continue
            seen.add(key)
            rel = write_replay(ctx, "failing-input", {"case": c["case"], "what": c["what"], "class": c["class"],
                                                      "conforms_to_model": c["conforms"], "stream": c["stream"],
                                                      "broken": ctx.broken[:3]})
            lines.append("VIOLATION property=%s replay=%s" % (ctx.prop, rel))
        violations = len(new)
    elif ctx.broken:
        b = ctx.broken[0]
        what = ("theorem/obligation %s no longer checks: %s" % (b["name"], b["detail"])) if b["kind"] == "obligation" \
            else ("correspondence stream %s: implementation and model differ" % b["stream"])
        rel = write_replay(ctx, "broken-" + b["kind"], {"what": what, "broken": ctx.broken[:10],
                                                       "note": "no failing input for the property was found by the widened search"})
        lines.append("VIOLATION property=%s replay=%s no-failing-input-found" % (ctx.prop, rel))
        violations = 1
    return lines, known_lines, violations


def main():
    ap = argparse.ArgumentParser()
    ap.add_argument("prop")
    ap.add_argument("--tier", default=os.environ.get("VERIF_TIER", "quick"), choices=["quick", "thorough"])
    ap.add_argument("--replay")
    a = ap.parse_args()
    seed = int(os.environ.get("VERIF_SEED", "0") or 0)
    prop = a.prop.upper()
    ctx = Ctx(prop, a.tier, seed)
    limit = int(os.environ.get("VERIF_TIMEOUT", "1500" if a.tier == "quick" else "7200"))

    def on_alarm(*_):
        print("check %s: time limit of %d s exceeded" % (prop, limit), file=sys.stderr)
        ctx.cleanup()
        os._exit(2)

    signal.signal(signal.SIGALRM, on_alarm)
    signal.alarm(limit)
    try:
        mod = importlib.import_module("harness.props.%s" % prop.lower())
        ctx.widen_factor = getattr(mod, "WIDEN_FACTOR", 4)  # slow checks may lower the widening factor
        if a.replay:
            data = json.load(open(a.replay if os.path.isabs(a.replay) else os.path.join(HERE, a.replay)))
            ok = lean.build(list(dict.fromkeys([mod.LEAN_PROP] + list(getattr(mod, "LEAN_TARGETS", [])))))[0]
            rc = mod.replay(ctx, data)
            if ctx.candidates:
                # same rule as a full run: a reproduced failing input of a listed class that still conforms to the
                # model is a known finding (exit 0); anything else reproduces a violation (exit 1)
                kc = {e["class"] for e in load_known(ctx.prop) if e.get("status") == "known"}
                new = [c for c in ctx.candidates if not (c["class"] in kc and c["conforms"])]
                for cls in sorted({c["class"] for c in ctx.candidates if c["class"] in kc and c["conforms"]}):
                    print("KNOWN-FINDING: property=%s class=%s reproduced by the replay" % (ctx.prop, cls))
                if new:
                    print("VIOLATION property=%s replay=%s" % (ctx.prop, a.replay))
                    rc = 1
                elif not ctx.broken:
                    rc = 0
            sys.exit(rc)
        anchors_check(ctx, mod)
        built = lean_phase(ctx, mod)
        try:
            mod.run(ctx)
        except lean.DriverError as e:
            if built:
                raise
            ctx.notes.append("driver unavailable because the build is broken: %s" % str(e)[:300])
            if hasattr(mod, "run_impl_only"):
                mod.run_impl_only(ctx)
        lines, known_lines, violations = decide(ctx, mod)
        wall = time.time() - ctx.t0
        ctx.extra["notes"] = ctx.notes
        write_evidence(ctx, mod, violations, known_lines, wall)
        for l in known_lines:
            print(l)
        for l in lines:
            print(l)
        print("check %s tier=%s seed=%d: obligations %d/%d, %d cases (%d distinct non-trivial), %d correspondence traces, "
              "%d known, %d new; %.1fs" % (prop, a.tier, seed, ctx.discharged, ctx.obligations, ctx.evaluations,
                                           len(ctx.nontrivial), ctx.traces, len(known_lines), violations, wall))
        sys.stdout.flush()
        rc = 1 if lines else 0
    except SystemExit:
        raise
    except BaseException:
        traceback.print_exc()
        rc = 2
    finally:
        ctx.cleanup()
    sys.exit(rc)


if __name__ == "__main__":
    main()
