"""C01 — inferred values are sound with respect to execution.

Streams
  exec   : (property search, direct oracle) generated annotated functions of the grammar of the quantifier are checked by
           the real pyanalyze (a NameCheckVisitor subclass that keeps EVERY check-phase Value of every expression node —
           a `finally` body is visited twice) and EXECUTED under CPython on an ast-rewritten copy in which every
           Name(Load)/Subscript/Call/BinOp/IfExp/Compare/BoolOp expression `e` with node id k is `__rec(k, e)`; arguments are
           drawn from the declared parameter types; every recorded runtime value must be a member (reference `xmember`,
           CPython isinstance based, pyanalyze-independent) of one of the Values pyanalyze inferred for the node.
           An expression inferred as Never must not be reached (membership in the empty union is false).
  mini   : (correspondence) programs of the Lean mini-language MiniPy (literals, names, tuple/list displays, literal
           subscripts, IfExp, calls to annotated helper functions, `+` on ints/strs; `is None` / `is not None` / `not`
           tests; assign, unpacking `a, b = e`, `x += e`, if/else, `for x in e:` loops, return):
           pyanalyze's inferred Value per expression node, decoded structurally, vs `Pya.C01.infer` of the Lean driver.
  eval   : (spec validation) the Lean big-step semantics `Pya.C01.exec` of the same programs vs CPython executing them.
  spec   : Lean `mem` vs the Python reference membership on the recorded (value, type) pairs of the mini stream.
Known-class tags of `exec` failures come from the component properties (C02 / C09 / C03 ...): see `classify`.
"""
import ast, copy, itertools, json, os, random, sys, time, traceback

from harness.common import lean, pya, values as V, gen_values as G
from harness import universe as U

PROP = "C01"
LEAN_PROP = "PyaModel.Props.C01"
NAMESPACE = "Pya.C01"
LEAN_TARGETS = ["PyaModel.Core.MiniPy", "PyaModel.Spec.MiniSem", "PyaModel.Spec.D01", "PyaModel.Core.Composite", "PyaModel.Core.CmpChain", "PyaModel.Core.Sexp", "PyaModel.Spec.Mem",
                "PyaModel.Generated.ClassTable"]
ANCHORS = [
    ("pyanalyze/name_check_visitor.py", "NameCheckVisitor.visit"),
    ("pyanalyze/name_check_visitor.py", "NameCheckVisitor.visit_Name"),
    ("pyanalyze/name_check_visitor.py", "NameCheckVisitor.visit_Assign"),
    ("pyanalyze/name_check_visitor.py", "NameCheckVisitor.visit_If"),
    ("pyanalyze/name_check_visitor.py", "NameCheckVisitor.visit_IfExp"),
    ("pyanalyze/name_check_visitor.py", "NameCheckVisitor.visit_BoolOp"),
    ("pyanalyze/name_check_visitor.py", "NameCheckVisitor.visit_UnaryOp"),
    ("pyanalyze/name_check_visitor.py", "NameCheckVisitor.visit_Compare"),
    ("pyanalyze/name_check_visitor.py", "NameCheckVisitor.visit_Subscript"),
    ("pyanalyze/name_check_visitor.py", "NameCheckVisitor.visit_Tuple"),
    ("pyanalyze/name_check_visitor.py", "NameCheckVisitor.visit_List"),
    ("pyanalyze/name_check_visitor.py", "NameCheckVisitor.visit_Return"),
    ("pyanalyze/name_check_visitor.py", "NameCheckVisitor.visit_For"),
    ("pyanalyze/name_check_visitor.py", "NameCheckVisitor._handle_loop_else"),
    ("pyanalyze/name_check_visitor.py", "NameCheckVisitor.visit_AugAssign"),
    ("pyanalyze/name_check_visitor.py", "NameCheckVisitor._visit_binop_internal"),
    ("pyanalyze/name_check_visitor.py", "NameCheckVisitor._visit_display"),
    ("pyanalyze/value.py", "unpack_values"),
    ("pyanalyze/value.py", "_unpack_sequence_value"),
    ("pyanalyze/value.py", "concrete_values_from_iterable"),
    ("pyanalyze/stacked_scopes.py", "FunctionScope.get_local"),
    ("pyanalyze/patma.py", "PatmaVisitor.visit_MatchSequence"),
    ("pyanalyze/patma.py", "PatmaVisitor.visit_MatchAs"),
    ("pyanalyze/patma.py", "PatmaVisitor.visit_MatchStar"),
    ("pyanalyze/patma.py", "LenPredicate"),
    ("pyanalyze/name_check_visitor.py", "NameCheckVisitor.visit_Match"),
    ("pyanalyze/stacked_scopes.py", "FunctionScope.set"),
    ("pyanalyze/stacked_scopes.py", "FunctionScope._add_composite"),
    ("pyanalyze/name_check_visitor.py", "NameCheckVisitor._get_composite"),
    ("pyanalyze/name_check_visitor.py", "NameCheckVisitor.constraint_from_condition"),
    ("pyanalyze/name_check_visitor.py", "NameCheckVisitor._constraint_from_compare_op"),
    ("pyanalyze/name_check_visitor.py", "NameCheckVisitor._visit_single_compare"),
    ("pyanalyze/stacked_scopes.py", "AndConstraint"),
    ("pyanalyze/stacked_scopes.py", "OrConstraint"),
    ("pyanalyze/stacked_scopes.py", "NullConstraint"),
    ("pyanalyze/predicates.py", "EqualsPredicate"),
    ("pyanalyze/predicates.py", "InPredicate"),
    ("pyanalyze/name_check_visitor.py", "NameCheckVisitor.composite_from_subscript"),
    ("pyanalyze/stacked_scopes.py", "FunctionScope._resolve_value"),
    ("pyanalyze/name_check_visitor.py", "NameCheckVisitor._compute_return_type"),
    ("pyanalyze/stacked_scopes.py", "FunctionScope.subscope"),
    ("pyanalyze/stacked_scopes.py", "FunctionScope.get_combined_scope"),
    ("pyanalyze/stacked_scopes.py", "FunctionScope.combine_subscopes"),
    ("pyanalyze/stacked_scopes.py", "_constrain_value"),
    ("pyanalyze/stacked_scopes.py", "Constraint.apply_to_value"),
    ("pyanalyze/implementation.py", "_sequence_common_getitem_impl"),
    ("pyanalyze/implementation.py", "_isinstance_impl"),
    ("pyanalyze/value.py", "unite_values"),
    ("pyanalyze/boolability.py", "get_boolability"),
]
RULE = (
    "exec: seeded random annotated functions (parameters from a vocabulary of ~35 declared types: classes, Optional/Union, "
    "Literal, fixed/variadic/unpacked tuples, list/dict/set/frozenset/Sequence/Mapping generics, user classes, enums), bodies "
    "of 6-22 statements, nesting <= 3: assignments, tuple unpacking (incl. starred), augmented assignment, if/elif/else over "
    "isinstance/is/==/!=/in/len/truthiness/not/and/or tests, for (list/tuple/dict/range/enumerate) and bounded while with "
    "break/continue/else, try/except/else/finally with raising bodies, match on literals/sequences/classes, bool ops, "
    "comparisons, subscripts with literal indices and slices, dict subscripts, calls to annotated and generic helper "
    "functions, to earlier generated functions and to a few builtins (len, isinstance, str, int, bool, abs, min, max, "
    "sorted, list, tuple); each function is called on <= 8 (quick) argument tuples drawn from the declared parameter types. "
    "No mutation of containers (except in the COMPOSITE stream: functions over dict-of-dict / list-of-list / dict-of-list "
    "parameters and small classes with nested attributes, with narrowing tests on, stores to and reads of composites "
    "x[k1][k2][k3] / x.a.b.c of depth 1-3 and assignments to every proper prefix, in straight-line code, if/else and for "
    "loops; mutation only through the parameter's own name, every stored container is a fresh display / constructor call), "
    "and in the MATCH stream: one `match` over a subject typed as a fixed tuple (length 0-4), a variadic / unpacked tuple, a "
    "union of tuples of different lengths, list[T], Sequence[T], str, dict / Mapping, object, with 1-4 cases of sequence "
    "patterns (star first / middle / last / alone / absent, 0-3 fixed sub-patterns, nested), mapping patterns, captures, "
    "wildcards, literals, class patterns, or-patterns, as-patterns and guards; the subject and every capture are read in "
    "every case body and the subject again after the match), "
    "in the COND stream: tests that are comparison chains of 1-3 operators (all ten: < <= > >= == != is / is not / in / not in) "
    "over variables, literals, None, len(var), other variables and calls, alone, under `not`, and in and/or trees with opaque "
    "operands, used in if / elif / else, `if not`, while / `while not` (with else), conditional expressions, asserts, early "
    "returns and inside for loops; parameters typed as Literal unions, Optional, int, str, list[int] and locals assigned "
    "from literals; every variable is read in BOTH branches and after the statement; plus calls of UNANNOTATED helpers "
    "whose paths return values, return bare or fall off the end; functions over displays with unpacking of conditionally "
    "empty containers ({**base} with base a union of dict displays incl. {}, [*xs] / (*xs,) / {*xs}) iterated by for "
    "(directly and through list / tuple / set / sorted / enumerate / keys / items / values) with a variable assigned before "
    "the loop, reassigned in the body and read in the loop's else and after the loop; and (in the COMPOSITE stream) composites t[k] over a root "
    "that is a UNION of containers (parameter or conditional expression), narrowed by a test and read in both branches), "
    "no del, no nested functions; every loop is bounded. Functions in which pyanalyze reports "
    "any diagnostic are not judged (the property speaks about values, not diagnostics); executions in which a callee "
    "receives an argument outside its declared type are cut at that call. A case = one (function, argument tuple) execution; "
    "non-trivial = the execution recorded at least one value at a node whose inferred type is not Any; distinct = distinct "
    "(function text, arguments). mini: all MiniPy programs of a small exhaustive family, then seeded random ones."
)
ASSUMPTIONS = [
    "proved stages S1, S2a, S1b, S1c, S3a: soundness of `infer` for the Lean mini-language (expressions incl. helper calls "
    "and + on ints/strs, assignment, unpacking, +=, if/else with `is None` narrowing, `for` loops with pyanalyze's "
    "three-visit scheme under the decidable side condition loopNotFix = false), by induction on the program; helper "
    "functions are assumed to return members of their declared return types (ImplOk); while, break/continue/else, try, "
    "match, generic/builtin calls, other operators and narrowing forms are covered by the execution search only",
    "chained comparisons (Core/CmpChain.lean): proved for tests that are chains under `not`, variables ranging over unions "
    "of int / str / None literals, each link either a plain variable against a literal (predicate constraint) or "
    "non-narrowing (NULL_CONSTRAINT, opaque truth value): both branches keep the run-time values (chain_branches_sound); "
    "the de-duplication / singleton unwrapping of AndConstraint.make / OrConstraint.make and the constraints of and/or "
    "between tests are not modelled there; model vs pyanalyze on both branches of generated `if` statements is stream "
    "`chain`, the model's truth value vs CPython stream `chainEval`",
    "mini semantics: sets/dicts iterate in their representation order; arithmetic on floats / IntEnum members and `+=` on a "
    "list reached through another name are outside the Lean value semantics (such argument tuples are not compared)",
    "runtime membership oracle: CPython isinstance plus the documented promotions int->float->complex; a TypeVar-typed "
    "value inside a generic function body is not judged; Values that cannot be decoded structurally are counted and skipped",
    "every check-phase visit of a node counts: a runtime value must belong to one of the Values inferred for the node",
]
TRUSTED = [
    "the instrumentation `__rec(k, e)` is semantically transparent for the generated grammar (no frames/locals introspection)",
    "Spec/MiniSem.lean (big-step semantics of MiniPy) is validated against CPython on every run (stream eval)",
]

INT, BOOL, FLOAT, COMPLEX, STR, BYTES, NONE, TUPLE, LIST, SET, FSET, DICT, TYPE = 1, 2, 3, 4, 5, 6, 7, 8, 9, 10, 11, 12, 13
SEQUENCE, ITERABLE, MAPPING = G.SEQUENCE, G.ITERABLE, G.MAPPING
CA, CB, CCC, CD, CCOLOR, CIE = (V.CID[c] for c in (U.A, U.B, U.Cc, U.D, U.Color, U.IE))
NONE_T = ("known", ("none",))
OBJECT_T = ("typed", 0)


def T(c):
    return ("typed", c)


def K(v):
    return ("known", V.py_to_obj(v))


def Un(*ts):
    out = []
    for t in ts:
        for m in (t[1] if t[0] == "union" else [t]):
            if m not in out:
                out.append(m)
    return out[0] if len(out) == 1 else ("union", out)


def run_driver(lines):
    """The Lean driver; a few retries after a rebuild (other checks regenerate / rebuild shared modules concurrently, which makes
    an olean disappear for a moment)."""
    for attempt in range(4):
        try:
            return lean.run_driver("C01", lines)
        except lean.DriverError:
            if attempt == 3:
                raise
            time.sleep(10 * (attempt + 1))
            lean.build([LEAN_PROP] + LEAN_TARGETS)


# ------------------------------------------------------------------ source text of terms
NAMES = {c: V.cname(c) for c in V.CLASSES}


def ty_src(t):
    k = t[0]
    if k == "any":
        return "Any"
    if k == "known":
        return "None" if t[1] == ("none",) else "Literal[%s]" % obj_src(t[1])
    if k == "typed":
        c = V.CLASSES[t[1]]
        return "None" if c is type(None) else {"Set": "AbstractSet"}.get(NAMES[c], NAMES[c])
    if k == "union":
        return "NoReturn" if not t[1] else "Union[%s]" % ", ".join(ty_src(x) for x in t[1])
    if k == "subclass":
        return "type[%s]" % ty_src(("typed", t[1]))
    if k == "generic":
        if V.CLASSES[t[1]] is tuple:
            return "tuple[%s, ...]" % ty_src(t[2][0])
        return "%s[%s]" % (ty_src(("typed", t[1])), ", ".join(ty_src(x) for x in t[2]))
    if k == "seq":
        if not t[2]:
            return "tuple[()]"
        return "tuple[%s]" % ", ".join(("Unpack[tuple[%s, ...]]" % ty_src(m[1])) if m[0] == "many" else ty_src(m) for m in t[2])
    if k == "tvar":
        return "T%d" % t[1]
    raise ValueError(t)


def obj_src(o):
    k = o[0]
    if k in ("int", "str"):
        return repr(o[1])
    if k == "bool":
        return repr(bool(o[1]))
    if k == "bytes":
        return repr(o[1].encode())
    if k == "none":
        return "None"
    if k == "flt":
        return repr(V.FLOATS[o[1]])
    if k == "cplx":
        return repr(V.COMPLEXES[o[1]])
    if k == "inst":
        c = V.CLASSES[o[1]]
        if c in (U.Color, U.IE):
            return "%s.%s" % (c.__name__, list(c)[o[2]].name)
        return "%s()" % c.__name__
    if k == "cls":
        return ty_src(("typed", o[1]))
    if k in ("tuple", "list", "set", "fset"):
        body = ", ".join(obj_src(x) for x in o[1])
        if k == "tuple":
            return "(%s%s)" % (body, "," if len(o[1]) == 1 else "")
        if k == "list":
            return "[%s]" % body
        if k == "set":
            return "{%s}" % body if o[1] else "set()"
        return "frozenset({%s})" % body if o[1] else "frozenset()"
    if k == "dict":
        return "{%s}" % ", ".join("%s: %s" % (obj_src(a), obj_src(b)) for a, b in zip(o[1], o[2]))
    raise ValueError(o)


PRELUDE = '''from typing import Any, Literal, Union, Optional, NoReturn, Sequence, Iterable, Mapping, AbstractSet
from typing_extensions import Unpack
from harness.universe import A, B, Cc, D, Color, IE, Fl
from harness.props.c01_objs import Leaf, Mid, Top
from harness.common.values import TYPEVARS
T0, T1, T2 = TYPEVARS
def ident(x: T0) -> T0:
    return x
def first(xs: Sequence[T0]) -> T0:
    return xs[0]
def last(xs: Sequence[T0]) -> T0:
    return xs[-1]
def pair(x: T0, y: T1) -> tuple[T0, T1]:
    return (x, y)
def swap(p: tuple[T0, T1]) -> tuple[T1, T0]:
    return (p[1], p[0])
def opt(x: T0, flag: object) -> Optional[T0]:
    return x if flag else None
def wrap(x: T0) -> list[T0]:
    return [x]
def either(a: T0, b: T1, flag: object) -> Union[T0, T1]:
    return a if flag else b
def same(a: T0, b: T0) -> T0:
    return b
def lookup(d: Mapping[T0, T1], k: T0) -> Optional[T1]:
    return d.get(k)
def keys_of(d: Mapping[T0, T1]) -> list[T0]:
    return list(d)
def inc(n: int) -> int:
    return n + 1
def to_str(x: object) -> str:
    return str(x)
def parse_int(s: str) -> Optional[int]:
    return int(s) if s.isdigit() else None
def int_or_str(flag: object) -> Union[int, str]:
    return 1 if flag else "a"
def lit12(flag: object) -> Literal[1, 2]:
    return 1 if flag else 2
def color_of(flag: object) -> Color:
    return Color.RED if flag else Color.BLUE
def ints(n: int) -> tuple[int, ...]:
    return tuple(range(n % 4))
def int_strs(n: int) -> tuple[int, Unpack[tuple[str, ...]]]:
    return (n,) + ("a",) * (n % 3)
def halve(x: float) -> float:
    return x / 2
def zero() -> int:
    return 0
def boom(flag: object) -> int:
    if flag:
        raise ValueError("boom")
    return 0
'''
_parts = PRELUDE.split("\ndef ")
PRELUDE_HEAD = _parts[0] + "\n"
HELPER_SRC = {}
for _p in _parts[1:]:
    HELPER_SRC[_p.split("(")[0]] = "def " + _p.rstrip("\n") + "\n"


def prelude_for(text):
    """The imports plus the helper functions the text refers to."""
    return PRELUDE_HEAD + "".join(src for name, src in HELPER_SRC.items() if (name + "(") in text)

# helper signatures for the generator: name -> (param types, return type); ("tvar", i) marks type variables
TV0, TV1 = ("tvar", 0), ("tvar", 1)
SEQ = lambda t: ("generic", SEQUENCE, [t])
HELPERS = {
    "ident": ([TV0], TV0), "first": ([SEQ(TV0)], TV0), "last": ([SEQ(TV0)], TV0),
    "pair": ([TV0, TV1], ("seq", TUPLE, [TV0, TV1])), "swap": ([("seq", TUPLE, [TV0, TV1])], ("seq", TUPLE, [TV1, TV0])),
    "opt": ([TV0, OBJECT_T], ("union", [TV0, NONE_T])), "wrap": ([TV0], ("generic", LIST, [TV0])),
    "either": ([TV0, TV1, OBJECT_T], ("union", [TV0, TV1])), "same": ([TV0, TV0], TV0),
    "lookup": ([("generic", MAPPING, [TV0, TV1]), TV0], ("union", [TV1, NONE_T])),
    "keys_of": ([("generic", MAPPING, [TV0, TV1])], ("generic", LIST, [TV0])),
    "inc": ([T(INT)], T(INT)), "to_str": ([OBJECT_T], T(STR)), "parse_int": ([T(STR)], Un(T(INT), NONE_T)),
    "int_or_str": ([OBJECT_T], Un(T(INT), T(STR))), "lit12": ([OBJECT_T], Un(K(1), K(2))),
    "color_of": ([OBJECT_T], T(CCOLOR)), "ints": ([T(INT)], ("generic", TUPLE, [T(INT)])),
    "int_strs": ([T(INT)], ("seq", TUPLE, [T(INT), ("many", T(STR))])), "halve": ([T(FLOAT)], T(FLOAT)),
    "boom": ([OBJECT_T], T(INT)), "zero": ([], T(INT)),
}
MAY_RAISE_HELPERS = {"first", "last", "boom"}

PARAM_TYPES = [
    T(INT), T(INT), T(BOOL), T(STR), T(STR), T(FLOAT), T(BYTES), NONE_T, OBJECT_T,
    Un(T(INT), NONE_T), Un(T(STR), NONE_T), Un(T(INT), T(STR)), Un(T(INT), T(STR), NONE_T), Un(T(INT), T(FLOAT)),
    Un(K(1), K(2)), Un(K("a"), K("b")), Un(K(1), T(STR)), Un(T(BOOL), NONE_T), Un(K(0), K(1), NONE_T),
    ("seq", TUPLE, [T(INT), T(STR)]), ("seq", TUPLE, [T(INT), Un(T(STR), NONE_T)]), ("seq", TUPLE, [T(INT), T(INT), T(STR)]),
    ("generic", TUPLE, [T(INT)]), ("seq", TUPLE, [T(INT), ("many", T(STR))]), ("seq", TUPLE, [("many", T(INT)), T(STR)]),
    ("seq", TUPLE, [("many", T(INT)), T(STR), T(BYTES), NONE_T]), ("seq", TUPLE, [T(STR), ("many", T(INT)), T(BYTES), T(STR), NONE_T]),
    ("generic", LIST, [T(INT)]), ("generic", LIST, [T(STR)]), ("generic", LIST, [Un(T(INT), NONE_T)]),
    ("generic", DICT, [T(STR), T(INT)]), ("generic", SET, [T(INT)]), ("generic", FSET, [T(STR)]),
    ("generic", SEQUENCE, [T(INT)]), ("generic", MAPPING, [T(STR), T(INT)]),
    T(CA), T(CB), Un(T(CA), NONE_T), Un(T(CA), T(INT)), T(CCOLOR), T(CIE), Un(T(CCOLOR), NONE_T),
    Un(("generic", LIST, [T(INT)]), ("generic", TUPLE, [T(INT)])), Un(("seq", TUPLE, [T(INT), T(STR)]), NONE_T),
    Un(T(INT), ("generic", LIST, [T(INT)])), Un(T(STR), T(BYTES)), ("generic", LIST, [("seq", TUPLE, [T(INT), T(STR)])]),
]


# ------------------------------------------------------------------ static types of the generator (over-approximations)
def members(t):
    return t[1] if t[0] == "union" else [t]


def cls_of(m):
    """The runtime classes a non-union term can have (list of Python classes; promotion made explicit)."""
    k = m[0]
    if k == "known":
        return [type(V.obj_to_py(m[1]))]
    if k in ("typed", "generic", "seq"):
        c = V.CLASSES[m[1]]
        if c is float:
            return [float, int]
        if c is complex:
            return [complex, float, int]
        return [c]
    return [object]


def subtype(t, u):
    """Conservative: True only if every value of t is a value of u."""
    if u[0] == "any" or u == OBJECT_T:
        return True
    if t[0] == "union":
        return all(subtype(m, u) for m in t[1])
    if u[0] == "union":
        return any(subtype(t, m) for m in u[1])
    if t[0] == "known":
        try:
            return bool(G.member(V.obj_to_py(t[1]), u))
        except ValueError:
            return False
    if t[0] == "tvar" or u[0] == "tvar":
        return t == u
    if u[0] == "known":
        return False
    if u[0] == "typed":
        return t[0] in ("typed", "generic", "seq") and G._sub(V.CLASSES[t[1]], u[1])
    if u[0] == "generic":
        if t[0] == "generic":
            return G._sub(V.CLASSES[t[1]], u[1]) and len(t[2]) == len(u[2]) and all(subtype(a, b) for a, b in zip(t[2], u[2]))
        if t[0] == "seq" and len(u[2]) == 1:
            return G._sub(V.CLASSES[t[1]], u[1]) and all(subtype(m[1] if m[0] == "many" else m, u[2][0]) for m in t[2])
        return False
    if u[0] == "seq":
        if t[0] != "seq" or t[1] != u[1] or len(t[2]) != len(u[2]):
            return False
        return all((a[0] == "many") == (b[0] == "many") and subtype(a[1] if a[0] == "many" else a, b[1] if b[0] == "many" else b)
                   for a, b in zip(t[2], u[2]))
    return False


def is_int(t):
    return subtype(t, T(INT))


def is_str(t):
    return subtype(t, T(STR))


NUMERIC = (int, bool, float, complex)


def eq_safe(t, lit):
    """May a value of static type t be compared (==, !=, in, match value pattern) with the literal `lit` without leaving the
    quantifier of the property (no bool/int/float cross-type equality)? Every runtime class of t must be exactly the
    literal's class or outside the numeric family (and not `object`)."""
    if not isinstance(lit, NUMERIC):
        return True
    for m in members(t):
        if m[0] == "dictlit":
            continue
        if m[0] in ("seq", "generic") and not all(eq_safe(x[1] if x[0] == "many" else x, lit) for x in m[2]):
            return False
        for c in cls_of(m):
            if c is object or (c is not type(lit) and issubclass(c, NUMERIC)):
                return False
    return True


def widen(t):
    """Literal -> its class (what a reassigned loop variable may hold)."""
    if t[0] == "known":
        c = type(V.obj_to_py(t[1]))
        return NONE_T if c is type(None) else T(V.CID[c])
    if t[0] == "union":
        return Un(*[widen(m) for m in t[1]])
    return t


def elem_type(t):
    """Static type of the elements obtained by iterating / indexing with an unknown int, or None."""
    outs = []
    for m in members(t):
        if m[0] == "generic" and m[1] in (LIST, TUPLE, SEQUENCE, SET, FSET, ITERABLE):
            outs.append(m[2][0])
        elif m[0] == "generic" and m[1] in (DICT, MAPPING):
            outs.append(m[2][0])
        elif m[0] == "seq":
            if not m[2]:
                continue
            outs += [x[1] if x[0] == "many" else x for x in m[2]]
        elif is_str(m):
            outs.append(T(STR))
        else:
            return None
    return Un(*outs) if outs else None


def fixed_members(t):
    if t[0] == "seq" and all(m[0] != "many" for m in t[2]):
        return t[2]
    return None


def default_expr(rng, t):
    """Source of a literal expression of type t (a member by construction), or None."""
    for _ in range(6):
        o = G.gen_obj_for(rng, t, 2)
        try:
            if G.member(V.obj_to_py(o), t) and not (_boolish(o) and not _mentions_boolish(t)):
                return obj_src(o)
        except ValueError:
            return None
    return None


def narrow_isinstance(t, pycls, positive):
    out = []
    for m in members(t):
        cs = cls_of(m)
        if positive:
            if any(issubclass(c, pycls) for c in cs):
                if all(issubclass(c, pycls) for c in cs):
                    out.append(m)
                else:
                    out.append(T(V.CID[pycls]))
            elif any(issubclass(pycls, c) for c in cs):
                out.append(T(V.CID[pycls]))
        else:
            if not all(issubclass(c, pycls) for c in cs):
                out.append(m)
    return Un(*out) if out else ("union", [])


def narrow_none(t, positive):
    out = [m for m in members(t) if (m == NONE_T) == positive or (m == OBJECT_T)]
    if positive:
        return NONE_T if out else ("union", [])
    return Un(*out) if out else ("union", [])


def subst_tv(t, m):
    k = t[0]
    if k == "tvar":
        return m.get(t[1], OBJECT_T)
    if k in ("generic", "seq"):
        return (k, t[1], [subst_tv(x, m) for x in t[2]])
    if k == "many":
        return ("many", subst_tv(t[1], m))
    if k == "union":
        return Un(*[subst_tv(x, m) for x in t[1]])
    return t


def unify(pt, at, m):
    """Bind the type variables of the parameter type pt so that the argument type at fits; False if hopeless."""
    if pt[0] == "tvar":
        m[pt[1]] = Un(m[pt[1]], at) if pt[1] in m else at
        return True
    if pt == OBJECT_T:
        return True
    if at[0] == "union":
        return all(unify(pt, x, m) for x in at[1])
    if pt[0] == "generic" and len(pt[2]) == 1:
        if at[0] in ("generic", "seq") and G._sub(V.CLASSES[at[1]], pt[1]):
            et = elem_type(at)
            if et is None:
                # an empty display: nothing to bind
                return at[0] == "seq"
            return unify(pt[2][0], et, m)
        return False
    if pt[0] == "generic" and len(pt[2]) == 2:
        if at[0] == "generic" and len(at[2]) == 2 and G._sub(V.CLASSES[at[1]], pt[1]):
            return unify(pt[2][0], at[2][0], m) and unify(pt[2][1], at[2][1], m)
        return False
    if pt[0] == "seq":
        fm = fixed_members(at)
        if fm is None or len(fm) != len(pt[2]) or at[1] != pt[1]:
            return False
        return all(unify(p, a, m) for p, a in zip(pt[2], fm))
    return subtype(at, pt)


def has_tvar(t):
    k = t[0]
    if k == "tvar":
        return True
    if k in ("generic", "seq"):
        return any(has_tvar(x) for x in t[2])
    if k == "union":
        return any(has_tvar(x) for x in t[1])
    if k == "many":
        return has_tvar(t[1])
    return False


# ------------------------------------------------------------------ the program generator
class Stop(Exception):
    pass


class FnGen:
    """One annotated function. `env` maps a definitely-assigned local name to a static type that over-approximates its
    runtime values; `frozen` (a stack of dicts) holds, for every enclosing loop / try body, the types the names existing at
    its entry must keep (so that back edges and exception edges stay inside the static type)."""

    def __init__(self, rng, name, earlier, n_stmts, feats):
        self.rng, self.name, self.earlier, self.budget, self.feats = rng, name, earlier, n_stmts, feats
        self.counter = 0
        self.frozen = []
        self.reserved = set()
        self.ret = None
        self.num_eq = False

    def feat(self, k):
        self.feats[k] = self.feats.get(k, 0) + 1
        if k.startswith("cond_eq") or k in ("cmp_int", "match"):
            self.num_eq = True

    def fresh(self, p="v"):
        self.counter += 1
        return "%s%d" % (p, self.counter)

    # ---------------- expressions
    def names(self, env, pred):
        return [n for n, t in env.items() if pred(t)]

    def atom_int(self, env, plain=False):
        """An int-valued atom; plain=True: one that is never a bool / IntEnum member (operand of == / !=)."""
        ns = self.names(env, (lambda t: is_int(t) and eq_safe(t, 0)) if plain else is_int)
        if ns and self.rng.random() < 0.7:
            n = self.rng.choice(ns)
            return n, env[n]
        v = self.rng.choice([0, 1, 2, 3, -1])
        return repr(v), K(v)

    def atom_str(self, env):
        ns = self.names(env, is_str)
        if ns and self.rng.random() < 0.7:
            n = self.rng.choice(ns)
            return n, env[n]
        v = self.rng.choice(["", "a", "ab", "b"])
        return repr(v), K(v)

    def literal(self):
        v = self.rng.choice([0, 1, 2, -1, 3, "", "a", "ab", True, False, None, 1.5, b"a", 1, "a"])
        return repr(v), K(v)

    def expr(self, env, depth=2):
        """A random expression and its static type."""
        rng = self.rng
        r = rng.random()
        if depth <= 0 or r < 0.22:
            if env and rng.random() < 0.75:
                n = rng.choice(sorted(env))
                return n, env[n]
            return self.literal()
        prods = [self.e_display, self.e_subscript, self.e_ifexp, self.e_boolop, self.e_compare, self.e_binop, self.e_call,
                 self.e_call, self.e_subscript, self.e_builtin, self.e_not]
        for _ in range(4):
            res = rng.choice(prods)(env, depth)
            if res is not None:
                return res
        return self.literal()

    def e_display(self, env, depth):
        rng = self.rng
        kind = rng.choice(["tuple", "tuple", "list", "list", "dict", "set"])
        n = rng.choice([0, 1, 2, 2, 3])
        if kind == "dict":
            keys = rng.sample(["a", "b", "c"], min(n, 3))
            items = [(k, self.expr(env, depth - 1)) for k in keys]
            self.feat("dict_display")
            return "{%s}" % ", ".join("%r: %s" % (k, e[0]) for k, e in items), ("dictlit", [(k, e[1]) for k, e in items])
        if kind == "set":
            es = [self.atom_int(env) if rng.random() < 0.6 else self.atom_str(env) for _ in range(max(n, 1))]
            self.feat("set_display")
            return "{%s}" % ", ".join(e[0] for e in es), ("generic", SET, [Un(*[widen(e[1]) for e in es])])
        es = [self.expr(env, depth - 1) for _ in range(n)]
        if any(e[1][0] == "dictlit" for e in es):
            return None
        self.feat(kind + "_display")
        if kind == "tuple":
            return "(%s%s)" % (", ".join(e[0] for e in es), "," if n == 1 else ""), ("seq", TUPLE, [e[1] for e in es])
        return "[%s]" % ", ".join(e[0] for e in es), ("seq", LIST, [e[1] for e in es])

    def e_subscript(self, env, depth):
        rng = self.rng
        cands = []
        for n, t in env.items():
            if t[0] == "seq" or (t[0] == "generic" and t[1] in (LIST, TUPLE, SEQUENCE)) or t[0] == "dictlit" or \
                    (t[0] == "generic" and t[1] in (DICT, MAPPING)) or (t[0] == "typed" and t[1] == STR):
                cands.append(n)
        if not cands:
            return None
        n = rng.choice(cands)
        t = env[n]
        if t[0] == "dictlit":
            if not t[1]:
                return None
            k, vt = rng.choice(t[1])
            self.feat("sub_dictlit")
            return "%s[%r]" % (n, k), vt
        if t[0] == "generic" and t[1] in (DICT, MAPPING):
            if not is_str(t[2][0]) or not self.in_try():
                return None
            self.feat("sub_dict")
            return "%s[%r]" % (n, rng.choice(["a", "b"])), t[2][1]
        if rng.random() < 0.3:
            # slice
            sl = rng.choice(["0:1", "1:", ":1", ":-1", "::2", "1:2", ":", "-1:", "::-1"])
            self.feat("slice")
            if t[0] == "seq":
                et = elem_type(t)
                rt = ("generic", t[1], [et]) if et is not None else ("seq", t[1], [])
                if et is None:
                    return None
                return "%s[%s]" % (n, sl), rt
            if t[0] == "generic" and t[1] == SEQUENCE:
                return "%s[%s]" % (n, sl), ("generic", SEQUENCE, t[2])
            return "%s[%s]" % (n, sl), t
        fm = fixed_members(t)
        if fm is not None:
            if not fm:
                return None
            i = rng.randrange(-len(fm), len(fm))
            self.feat("sub_fixed")
            return "%s[%d]" % (n, i), fm[i]
        et = elem_type(t)
        if et is None:
            return None
        if t[0] == "seq":
            # unpacked member somewhere: indices on the fixed side are safe, others only inside try
            ms = t[2]
            pre = 0
            while ms[pre][0] != "many":
                pre += 1
            post = len(ms) - 1 - next(i for i in range(len(ms) - 1, -1, -1) if ms[i][0] == "many")
            choices = list(range(pre)) + [-(j + 1) for j in range(post)]
            if choices and rng.random() < 0.7:
                i = rng.choice(choices)
                self.feat("sub_variadic_fixed_side")
                return "%s[%d]" % (n, i), ms[i]
            if not self.in_try():
                return None
            self.feat("sub_variadic_any")
            return "%s[%d]" % (n, rng.choice([0, 1, 2, -1, -2])), et
        if not self.in_try():
            return None
        self.feat("sub_generic")
        return "%s[%d]" % (n, rng.choice([0, 1, -1])), et

    def e_ifexp(self, env, depth):
        c, et, ef = self.cond(env, depth - 1)
        a = self.expr(et, depth - 1)
        b = self.expr(ef, depth - 1)
        if a[1][0] == "dictlit" or b[1][0] == "dictlit":
            return None
        self.feat("ifexp")
        return "(%s if %s else %s)" % (a[0], c, b[0]), Un(a[1], b[1])

    def e_boolop(self, env, depth):
        a = self.expr(env, depth - 1)
        b = self.expr(env, depth - 1)
        if a[1][0] == "dictlit" or b[1][0] == "dictlit":
            return None
        op = self.rng.choice(["and", "or"])
        self.feat("boolop_value")
        return "(%s %s %s)" % (a[0], op, b[0]), Un(a[1], b[1])

    def e_not(self, env, depth):
        a = self.expr(env, depth - 1)
        self.feat("not_value")
        return "(not %s)" % a[0], T(BOOL)

    def e_compare(self, env, depth):
        rng = self.rng
        r = rng.random()
        if r < 0.35:
            op = rng.choice(["<", "<=", ">", ">=", "==", "!="])
            a, b = self.atom_int(env, op in ("==", "!=")), self.atom_int(env, op in ("==", "!="))
            self.feat("cmp_int")
            if rng.random() < 0.15:
                c = self.atom_int(env)
                return "(%s %s %s %s %s)" % (a[0], op, b[0], rng.choice(["<", "<="]), c[0]), T(BOOL)
            return "(%s %s %s)" % (a[0], op, b[0]), T(BOOL)
        if r < 0.5:
            a, b = self.atom_str(env), self.atom_str(env)
            self.feat("cmp_str")
            return "(%s %s %s)" % (a[0], rng.choice(["==", "!=", "<", "in"]), b[0]), T(BOOL)
        c, _, _ = self.cond(env, depth - 1)
        return "(%s)" % c, T(BOOL)

    def e_binop(self, env, depth):
        rng = self.rng
        r = rng.random()
        if r < 0.5:
            a, b = self.atom_int(env), self.atom_int(env)
            op = rng.choice(["+", "-", "*", "+", "//", "%", "&", "|"])
            if op in ("//", "%"):
                b = (repr(rng.choice([2, 3])), T(INT))
            self.feat("binop_int")
            return "(%s %s %s)" % (a[0], op, b[0]), T(INT)
        if r < 0.7:
            a, b = self.atom_str(env), self.atom_str(env)
            self.feat("binop_str")
            if rng.random() < 0.3:
                n = self.atom_int(env)
                return "(%s * %s)" % (a[0], n[0]), T(STR)
            return "(%s + %s)" % (a[0], b[0]), T(STR)
        # sequence concatenation
        for kind in rng.sample([TUPLE, LIST], 2):
            ns = self.names(env, lambda t: t[0] in ("seq", "generic") and t[1] == kind and elem_type(t) is not None)
            if len(ns) >= 1:
                x, y = rng.choice(ns), rng.choice(ns)
                self.feat("binop_seq")
                fx, fy = fixed_members(env[x]), fixed_members(env[y])
                if fx is not None and fy is not None:
                    return "(%s + %s)" % (x, y), ("seq", kind, fx + fy)
                return "(%s + %s)" % (x, y), ("generic", kind, [Un(elem_type(env[x]), elem_type(env[y]))])
        a = self.atom_int(env)
        self.feat("binop_float")
        return "(%s %s 1.5)" % (a[0], rng.choice(["+", "*", "/"])), T(FLOAT)

    def arg_for(self, env, pt, m, depth):
        """An argument expression whose static type fits parameter type pt (binding type variables in m)."""
        rng = self.rng
        if pt == OBJECT_T or pt[0] == "tvar":
            e = self.expr(env, depth - 1)
            if e[1][0] == "dictlit":
                return None
            unify(pt, e[1], m)
            return e[0]
        cands = []
        for n, t in env.items():
            if t[0] == "dictlit":
                continue
            m2 = dict(m)
            if unify(pt, t, m2):
                cands.append((n, m2))
        if cands and rng.random() < 0.85:
            n, m2 = rng.choice(cands)
            m.clear()
            m.update(m2)
            return n
        if has_tvar(pt):
            return None
        return default_expr(rng, pt)

    def e_call(self, env, depth):
        rng = self.rng
        pool = list(HELPERS.items()) + [(f["name"], (f["ptypes"], f["ret"])) for f in self.earlier]
        if self.earlier and rng.random() < 0.35:
            pool = [(f["name"], (f["ptypes"], f["ret"])) for f in self.earlier]
        for _ in range(4):
            name, (pts, rt) = rng.choice(pool)
            if name in MAY_RAISE_HELPERS and not self.in_try():
                continue
            m = {}
            args = []
            for pt in pts:
                a = self.arg_for(env, pt, m, depth)
                if a is None:
                    break
                args.append(a)
            else:
                self.feat("call_" + ("helper" if name in HELPERS else "generated") + ("_generic" if any(has_tvar(p) for p in pts) else ""))
                return "%s(%s)" % (name, ", ".join(args)), subst_tv(rt, m)
        return None

    def e_builtin(self, env, depth):
        rng = self.rng
        which = rng.choice(["len", "str", "int", "bool", "abs", "minmax", "sorted", "list", "tuple", "isinstance", "len"])
        sized = self.names(env, lambda t: all(m[0] in ("seq", "generic", "dictlit") or is_str(m) for m in members(t)))
        self.feat("builtin_" + which)
        if which == "len":
            if not sized:
                return None
            return "len(%s)" % rng.choice(sized), T(INT)
        if which == "str":
            e = self.expr(env, depth - 1)
            return "str(%s)" % e[0], T(STR)
        if which == "int":
            a = self.atom_int(env)
            return "int(%s)" % a[0], T(INT)
        if which == "bool":
            e = self.expr(env, depth - 1)
            return "bool(%s)" % e[0], T(BOOL)
        if which == "abs":
            a = self.atom_int(env)
            return "abs(%s)" % a[0], T(INT)
        if which == "minmax":
            a, b = self.atom_int(env), self.atom_int(env)
            return "%s(%s, %s)" % (rng.choice(["min", "max"]), a[0], b[0]), Un(widen(a[1]), widen(b[1]))
        iters = self.names(env, lambda t: t[0] in ("seq", "generic") and t[1] in (LIST, TUPLE, SEQUENCE, SET, FSET) and elem_type(t) is not None)
        if which == "isinstance":
            if not env:
                return None
            n = rng.choice(sorted(env))
            return "isinstance(%s, %s)" % (n, rng.choice(["int", "str", "float", "bool", "list", "tuple", "A", "B", "(int, str)"])), T(BOOL)
        if not iters:
            return None
        n = rng.choice(iters)
        et = elem_type(env[n])
        if which == "sorted":
            if not (is_int(et) or is_str(et)):
                return None
            return "sorted(%s)" % n, ("generic", LIST, [et])
        if which == "list":
            return "list(%s)" % n, ("generic", LIST, [et])
        return "tuple(%s)" % n, ("generic", TUPLE, [et])

    # ---------------- conditions (with the generator's own narrowing of env)
    def cond(self, env, depth=1):
        rng = self.rng
        if not env:
            e = self.literal()
            return e[0], env, env
        r = rng.random()
        n = rng.choice(sorted(env))
        t = env[n]
        if t[0] == "dictlit":
            self.feat("cond_truthy")
            return n, env, env
        mem = members(t)
        if r < 0.22:
            # isinstance on a class that splits the members if possible
            classes = {"int": int, "str": str, "float": float, "bool": bool, "list": list, "tuple": tuple, "A": U.A, "B": U.B,
                       "bytes": bytes, "dict": dict, "Color": U.Color}
            good = [k for k, c in classes.items() if any(any(issubclass(x, c) for x in cls_of(m)) for m in mem)]
            name = rng.choice(good) if good and rng.random() < 0.8 else rng.choice(sorted(classes))
            self.feat("cond_isinstance")
            if rng.random() < 0.15:
                other = rng.choice(sorted(classes))
                tup = (classes[name], classes[other])
                src = "isinstance(%s, (%s, %s))" % (n, name, other)
                et = dict(env)
                ef = dict(env)
                pos = Un(narrow_isinstance(t, tup[0], True), narrow_isinstance(t, tup[1], True))
                et[n] = pos
                ef[n] = narrow_isinstance(narrow_isinstance(t, tup[0], False), tup[1], False)
                return src, et, ef
            et, ef = dict(env), dict(env)
            et[n] = narrow_isinstance(t, classes[name], True)
            ef[n] = narrow_isinstance(t, classes[name], False)
            return "isinstance(%s, %s)" % (n, name), et, ef
        if r < 0.38:
            pos = rng.random() < 0.5
            et, ef = dict(env), dict(env)
            et[n] = narrow_none(t, pos)
            ef[n] = narrow_none(t, not pos)
            self.feat("cond_is_none")
            return "%s is %sNone" % (n, "" if pos else "not "), et, ef
        if r < 0.5:
            # == / != / in against literals of the right kind
            lits = [m for m in mem if m[0] == "known"]
            if lits and rng.random() < 0.6:
                lit = obj_src(rng.choice(lits)[1])
            elif any(subtype(m, T(STR)) for m in mem):
                lit = repr(rng.choice(["a", "b", ""]))
            elif any(cls_of(m)[0] in (U.Color,) for m in mem):
                lit = "Color.RED"
            else:
                lit = repr(rng.choice([0, 1, 2]))
            if not eq_safe(t, eval(lit, {"Color": U.Color, "IE": U.IE})):
                return n, env, env
            op = rng.choice(["==", "!=", "is", "is not", "in", "not in"])
            if op in ("is", "is not") and lit not in ("None", "True", "False", "Color.RED", "Color.BLUE", "IE.X", "IE.Y"):
                op = "==" if op == "is" else "!="
            self.feat("cond_eq_" + op.replace(" ", "_"))
            if op in ("in", "not in"):
                other = rng.choice(["1", "'a'", "None", "2"])
                if not eq_safe(t, eval(other)):
                    other = "None"
                return "%s %s (%s, %s)" % (n, op, lit, other), env, env
            return "%s %s %s" % (n, op, lit), env, env
        if r < 0.62:
            sized = all(m[0] in ("seq", "generic") or is_str(m) for m in mem)
            if sized:
                self.feat("cond_len")
                return "len(%s) %s %d" % (n, rng.choice(["==", "!=", ">", ">=", "<", "<="]), rng.choice([0, 1, 2, 3])), env, env
        if r < 0.74:
            self.feat("cond_truthy")
            return n, env, env
        if r < 0.82 and depth > 0:
            c, et, ef = self.cond(env, depth - 1)
            self.feat("cond_not")
            return "not (%s)" % c, ef, et
        if r < 0.94 and depth > 0:
            c1, et1, ef1 = self.cond(env, depth - 1)
            op = rng.choice(["and", "or"])
            # the second operand is evaluated under the first one's outcome
            c2, et2, ef2 = self.cond(et1 if op == "and" else ef1, depth - 1)
            self.feat("cond_" + op)
            if op == "and":
                return "(%s and %s)" % (c1, c2), et2, env
            return "(%s or %s)" % (c1, c2), env, ef2
        e = self.e_compare(env, 1)
        return e[0], env, env

    # ---------------- statements
    def in_try(self):
        return any(f.get("%try") for f in self.frozen)

    def may_assign(self, name, t):
        if name in self.reserved:
            return False
        return all(subtype(t, f[name]) for f in self.frozen if name in f)

    def target_for(self, env, t):
        """A name to assign a value of static type t to: mostly fresh, sometimes an existing one."""
        if t[0] != "dictlit" and env and self.rng.random() < 0.35:
            n = self.rng.choice(sorted(env))
            if self.may_assign(n, t):
                return n
        return self.fresh()

    def join_envs(self, envs):
        if not envs:
            return None
        out = {}
        for n in envs[0]:
            if all(n in e for e in envs):
                ts = [e[n] for e in envs]
                if any(t[0] == "dictlit" for t in ts):
                    if all(t == ts[0] for t in ts):
                        out[n] = ts[0]
                    continue
                out[n] = Un(*ts)
        return out

    def block(self, env, ind, depth, loop):
        """Generates statements until the budget share is used. Returns (lines, env_out or None if no fall-through)."""
        rng = self.rng
        lines = []
        p = "    " * ind
        n_here = rng.choice([1, 2, 2, 3, 3, 4]) if depth < 3 else rng.choice([1, 1, 2])
        env = dict(env)
        for _ in range(n_here):
            if self.budget <= 0:
                break
            self.budget -= 1
            r = rng.random()
            if depth > 0 and r < 0.34:
                r2 = rng.random()
                kinds = [(0.34, self.s_if), (0.5, self.s_for), (0.62, self.s_while), (0.8, self.s_try), (1.0, self.s_match)]
                fn = next(f for b, f in kinds if r2 < b)
                res = fn(env, ind, depth - 1, loop)
                if res is None:
                    continue
                ls, env2 = res
                lines += ls
                if env2 is None:
                    return lines, None
                env = env2
                continue
            if r < 0.42 and loop and rng.random() < 0.5:
                kw = rng.choice(["break", "continue"])
                self.feat(kw)
                # only as the last statement of a conditional block inside the loop (never dead code after it)
                if ind > loop:
                    lines.append(p + kw)
                    return lines, None
                continue
            if r < 0.47 and ind > 1:
                e = self.return_expr(env)
                self.feat("early_return")
                lines.append(p + "return " + e)
                return lines, None
            if r < 0.50 and self.in_try():
                self.feat("raise")
                lines.append(p + "raise %s(%r)" % (rng.choice(["ValueError", "KeyError", "IndexError", "TypeError"]), "x"))
                return lines, None
            if r < 0.58:
                res = self.s_unpack(env, p)
                if res is not None:
                    lines += res
                    continue
            if r < 0.64:
                ns = [n for n in self.names(env, is_int) if self.may_assign(n, T(INT))]
                if ns:
                    n = rng.choice(ns)
                    a = self.atom_int(env)
                    self.feat("augassign")
                    lines.append("%s%s %s %s" % (p, n, rng.choice(["+=", "-=", "*="]), a[0]))
                    env[n] = T(INT)
                    continue
            if r < 0.67 and env:
                n = rng.choice(sorted(env))
                if env[n][0] != "dictlit":
                    cls = rng.choice(["int", "str", "list", "tuple", "A", "float"])
                    pyc = {"int": int, "str": str, "list": list, "tuple": tuple, "A": U.A, "float": float}[cls]
                    nt = narrow_isinstance(env[n], pyc, True)
                    if nt != ("union", []) and self.in_try():
                        self.feat("assert_isinstance")
                        lines.append("%sassert isinstance(%s, %s)" % (p, n, cls))
                        env[n] = nt
                        continue
            e = self.expr(env, 2)
            tgt = self.target_for(env, e[1])
            self.feat("assign")
            lines.append("%s%s = %s" % (p, tgt, e[0]))
            env[tgt] = e[1]
        if not lines:
            e = self.expr(env, 1)
            tgt = self.fresh()
            lines.append("%s%s = %s" % (p, tgt, e[0]))
            env[tgt] = e[1]
        return lines, env

    def return_expr(self, env):
        ns = self.names(env, lambda t: t[0] != "dictlit" and subtype(t, self.ret))
        if ns and self.rng.random() < 0.8:
            return self.rng.choice(ns)
        return default_expr(self.rng, self.ret) or "None"

    def s_unpack(self, env, p):
        rng = self.rng
        ns = self.names(env, lambda t: fixed_members(t) is not None and len(t[2]) >= 1 and t[0] == "seq")
        if not ns:
            return None
        n = rng.choice(ns)
        fm = fixed_members(env[n])
        if len(fm) >= 2 and rng.random() < 0.3:
            # a, *b = t   /  *a, b = t
            a, b = self.fresh(), self.fresh()
            self.feat("unpack_star")
            if rng.random() < 0.5:
                env[a] = fm[0]
                env[b] = ("generic", LIST, [Un(*fm[1:])])
                return ["%s%s, *%s = %s" % (p, a, b, n)]
            env[b] = fm[-1]
            env[a] = ("generic", LIST, [Un(*fm[:-1])])
            return ["%s*%s, %s = %s" % (p, a, b, n)]
        names = [self.fresh() for _ in fm]
        for x, t in zip(names, fm):
            env[x] = t
        self.feat("unpack")
        return ["%s%s = %s" % (p, ", ".join(names) + ("," if len(names) == 1 else ""), n)]

    def s_if(self, env, ind, depth, loop):
        rng = self.rng
        p = "    " * ind
        c, et, ef = self.cond(env, 1)
        lines = [p + "if %s:" % c]
        outs = []
        b, e1 = self.block(et, ind + 1, depth, loop)
        lines += b
        if e1 is not None:
            outs.append(e1)
        self.feat("if")
        cur_f = ef
        while rng.random() < 0.3 and self.budget > 0:
            c2, et2, ef2 = self.cond(cur_f, 1)
            lines.append(p + "elif %s:" % c2)
            b, e2 = self.block(et2, ind + 1, depth, loop)
            lines += b
            if e2 is not None:
                outs.append(e2)
            cur_f = ef2
            self.feat("elif")
        if rng.random() < 0.6 and self.budget > 0:
            lines.append(p + "else:")
            b, e3 = self.block(cur_f, ind + 1, depth, loop)
            lines += b
            if e3 is not None:
                outs.append(e3)
            self.feat("else")
        else:
            outs.append(cur_f)
        return lines, self.join_envs(outs)

    def enter_region(self, env, is_try=False):
        """Freeze the names existing at the entry of a loop / try body; a few are widened first so that the body may
        reassign them with another class of value."""
        rng = self.rng
        env = dict(env)
        for n in sorted(env):
            if env[n][0] == "dictlit" or n in self.reserved:
                continue
            if rng.random() < 0.3:
                w = Un(widen(env[n]), rng.choice([T(INT), T(STR), NONE_T, T(INT)]))
                if self.may_assign(n, w):
                    env[n] = w if rng.random() < 0.5 else widen(env[n])
        fr = dict(env)
        if is_try:
            fr["%try"] = True
        self.frozen.append(fr)
        return env

    def s_for(self, env, ind, depth, loop):
        rng = self.rng
        p = "    " * ind
        iters = self.names(env, lambda t: t[0] != "dictlit" and elem_type(t) is not None and not is_str(t))
        var = self.fresh("i")
        r = rng.random()
        if iters and r < 0.6:
            n = rng.choice(iters)
            head, vt = "for %s in %s:" % (var, n), elem_type(env[n])
            extra = {var: vt}
            self.feat("for_iter")
        elif iters and r < 0.75:
            n = rng.choice(iters)
            j = self.fresh("j")
            head, extra = "for %s, %s in enumerate(%s):" % (j, var, n), {j: T(INT), var: elem_type(env[n])}
            self.feat("for_enumerate")
        else:
            head, extra = "for %s in range(%d):" % (var, rng.choice([0, 1, 2, 3])), {var: T(INT)}
            self.feat("for_range")
        body_env = self.enter_region(env)
        entry = dict(body_env)
        body_env.update(extra)
        self.reserved |= set(extra)
        lines = [p + head]
        b, _ = self.block(body_env, ind + 1, depth, ind + 1)
        lines += b
        self.frozen.pop()
        out = dict(entry)
        if rng.random() < 0.3 and self.budget > 0:
            self.frozen.append(dict(entry))
            lines.append(p + "else:")
            b, e2 = self.block(entry, ind + 1, depth, loop)
            lines += b
            self.frozen.pop()
            self.feat("for_else")
            # after the loop: either the else block ran to its end or the loop was left by break
            out = self.join_envs([entry] + ([e2] if e2 is not None else []))
        return lines, out

    def s_while(self, env, ind, depth, loop):
        rng = self.rng
        p = "    " * ind
        cnt = self.fresh("n")
        lit_counter = rng.random() < 0.12
        if lit_counter:
            self.feat("while_literal_counter")
        lines = [p + "%s = %s" % (cnt, "0" if lit_counter else "zero()")]
        env = dict(env)
        env[cnt] = T(INT)
        body_env = self.enter_region(env)
        entry = dict(body_env)
        self.reserved.add(cnt)
        bound = rng.choice([1, 2, 3])
        r = rng.random()
        if r < 0.25:
            head = "while True:"
            first = ["%s    %s += 1" % (p, cnt), "%s    if %s > %d:" % (p, cnt, bound), "%s        break" % p]
            self.feat("while_true")
        elif r < 0.6:
            head = "while %s < %d:" % (cnt, bound)
            first = ["%s    %s += 1" % (p, cnt)]
            self.feat("while_counter")
        else:
            c, _, _ = self.cond(body_env, 1)
            head = "while %s < %d and %s:" % (cnt, bound, c)
            first = ["%s    %s += 1" % (p, cnt)]
            self.feat("while_cond")
        lines.append(p + head)
        lines += first
        b, _ = self.block(body_env, ind + 1, depth, ind + 1)
        lines += b
        self.frozen.pop()
        out = dict(entry)
        if rng.random() < 0.3 and self.budget > 0:
            self.frozen.append(dict(entry))
            lines.append(p + "else:")
            b, e2 = self.block(entry, ind + 1, depth, loop)
            lines += b
            self.frozen.pop()
            self.feat("while_else")
            out = self.join_envs([entry] + ([e2] if e2 is not None else []))
        return lines, out

    def s_try(self, env, ind, depth, loop):
        rng = self.rng
        p = "    " * ind
        body_env = self.enter_region(env, is_try=True)
        entry = {k: v for k, v in body_env.items()}
        lines = [p + "try:"]
        b, e1 = self.block(body_env, ind + 1, depth, loop)
        lines += b
        self.frozen.pop()
        self.feat("try")
        outs = []
        has_finally = rng.random() < 0.35
        n_handlers = rng.choice([1, 1, 2]) if not (has_finally and rng.random() < 0.3) else 0
        # the handlers and the finally block see the entry types (frozen names) only
        self.frozen.append(dict(entry))
        for h in range(n_handlers):
            exc = rng.choice(["Exception", "(IndexError, KeyError)", "ValueError", "Exception", "(ValueError, TypeError, AssertionError)"])
            if rng.random() < 0.3:
                ev = self.fresh("e")
                lines.append(p + "except %s as %s:" % (exc, ev))
            else:
                lines.append(p + "except %s:" % exc)
            b, eh = self.block(entry, ind + 1, depth, loop)
            lines += b
            if eh is not None:
                outs.append(eh)
            self.feat("except")
        if n_handlers and e1 is not None and rng.random() < 0.3 and self.budget > 0:
            lines.append(p + "else:")
            b, e1 = self.block(e1, ind + 1, depth, loop)
            lines += b
            self.feat("try_else")
        if e1 is not None:
            outs.append(e1)
        out = self.join_envs(outs)
        if has_finally or not n_handlers:
            lines.append(p + "finally:")
            b, ef = self.block(entry, ind + 1, depth, 0)   # no break/continue/return out of finally
            lines += b
            self.feat("finally")
            if ef is None:
                out = None
            elif out is not None:
                out = dict(out)
                for n, t in ef.items():
                    if n not in entry or ef[n] != entry[n]:
                        out[n] = t
        self.frozen.pop()
        return lines, out

    def s_match(self, env, ind, depth, loop):
        rng = self.rng
        p = "    " * ind
        ns = self.names(env, lambda t: t[0] != "dictlit")
        if not ns:
            return None
        n = rng.choice(ns)
        t = env[n]
        lines = [p + "match %s:" % n]
        outs = []
        pats = []
        mem = members(t)
        for m in mem:
            if m[0] == "known":
                pats.append((obj_src(m[1]) if m[1][0] != "inst" else obj_src(m[1]), {}))
            elif m[0] == "seq" and fixed_members(m) is not None and m[1] == TUPLE:
                vs = [self.fresh("c") for _ in m[2]]
                if vs:
                    pats.append(("(%s%s)" % (", ".join(vs), "," if len(vs) == 1 else ""), {v: OBJECT_T for v in vs}))
                    if len(vs) >= 1:
                        a, b = self.fresh("c"), self.fresh("c")
                        pats.append(("[%s, *%s]" % (a, b), {a: OBJECT_T, b: ("generic", LIST, [OBJECT_T])}))
            elif m[0] in ("generic", "seq") and m[1] in (LIST, TUPLE, SEQUENCE):
                a, b = self.fresh("c"), self.fresh("c")
                pats.append(("[%s, *%s]" % (a, b), {a: OBJECT_T, b: ("generic", LIST, [OBJECT_T])}))
                pats.append(("[]", {}))
                pats.append(("[%s]" % a, {a: OBJECT_T}))
            elif m[0] == "typed" and m[1] in (INT, STR, BOOL, FLOAT, BYTES, CA, CB):
                cname = NAMES[V.CLASSES[m[1]]]
                pats.append(("%s()" % cname, {}))
                if m[1] == INT:
                    pats += [("0", {}), ("1", {}), ("1 | 2", {})]
                if m[1] == STR:
                    pats += [("'a'", {}), ("''", {})]
                if m[1] == BOOL:
                    pats += [("True", {}), ("False", {})]
                v = self.fresh("c")
                pats.append(("%s() as %s" % (cname, v), {v: OBJECT_T}))
        pats += [("None", {}), ("'a'", {}), ("int()", {}), ("str()", {})]
        if eq_safe(t, 1):
            pats += [("1", {}), ("(1, 'a')", {})]
        pats = [pt for pt in pats if eq_safe(t, 1) or not any(ch.isdigit() for ch in pt[0]) and "True" not in pt[0] and "False" not in pt[0]]
        k = rng.choice([1, 2, 2, 3])
        chosen = []
        for _ in range(k):
            pt = rng.choice(pats)
            if pt[0] not in [c[0] for c in chosen]:
                chosen.append(pt)
        wildcard = rng.random() < 0.6
        for pat, binds in chosen:
            lines.append("%s    case %s:" % (p, pat))
            e = dict(env)
            e.update(binds)
            b, eo = self.block(e, ind + 2, depth, loop)
            lines += b
            if eo is not None:
                outs.append(eo)
        if wildcard:
            lines.append("%s    case _:" % p)
            b, eo = self.block(env, ind + 2, depth, loop)
            lines += b
            if eo is not None:
                outs.append(eo)
        else:
            outs.append(env)
        self.feat("match")
        return lines, self.join_envs(outs)

    # ---------------- the function
    def generate(self):
        rng = self.rng
        n_par = rng.choice([1, 2, 2, 3, 3, 4])
        ptypes = [rng.choice(PARAM_TYPES) for _ in range(n_par)]
        self.ret = rng.choice([T(INT), T(STR), Un(T(INT), NONE_T), Un(T(INT), T(STR)), OBJECT_T, OBJECT_T, T(BOOL),
                               ("generic", LIST, [T(INT)]), ("seq", TUPLE, [T(INT), T(STR)]), Un(T(STR), NONE_T)])
        params = ["p%d" % i for i in range(n_par)]
        env = dict(zip(params, ptypes))
        head = "def %s(%s) -> %s:" % (self.name, ", ".join("%s: %s" % (a, ty_src(t)) for a, t in zip(params, ptypes)), ty_src(self.ret))
        lines = []
        while self.budget > 0:
            b, env2 = self.block(env, 1, 3, 0)
            lines += b
            if env2 is None:
                break
            env = env2
        else:
            env2 = env
        if env2 is not None:
            lines.append("    return " + self.return_expr(env2))
        return {"name": self.name, "ptypes": ptypes, "ret": self.ret, "src": "\n".join([head] + lines), "num_eq": self.num_eq}


def gen_module(rng, n_fns, feats, size=(6, 22)):
    fns = []
    for i in range(n_fns):
        g = FnGen(rng, "f%d" % i, fns[-6:], rng.randint(*size), feats)
        try:
            fns.append(g.generate())
        except (ValueError, IndexError, KeyError, StopIteration, RecursionError) as e:  # generator corner: skip this function
            feats["gen_error_" + type(e).__name__] = feats.get("gen_error_" + type(e).__name__, 0) + 1
    return fns


# ------------------------------------------------------------------ decoding Values / reference membership
from pyanalyze import value as PV  # noqa: E402
from pyanalyze.name_check_visitor import NameCheckVisitor, VisitorState  # noqa: E402
from pyanalyze.analysis_lib import make_module  # noqa: E402


class Unenc(Exception):
    pass


def decode(v):
    """Structural decoding of a pyanalyze Value into an x-term (only dataclass fields are read; no Value method is called).
    x-terms: any | tvar | (pyknown, obj) | (pytyped, cls) | (generic, cls, [args]) | (seq, cls, [members|('many', t)]) |
    (setseq, cls, [members]) | (dictinc, cls, [(k, v)]) | (union, [..]) | (subclass, cls, exactly)."""
    if isinstance(v, PV.AnyValue):
        return ("any",)
    if isinstance(v, PV.KnownValue):
        return ("pyknown", v.val)
    if isinstance(v, PV.AnnotatedValue):
        return decode(v.value)
    if isinstance(v, PV.MultiValuedValue):
        return ("union", [decode(x) for x in v.vals])
    if isinstance(v, PV.TypeVarValue):
        return ("tvar",)
    if isinstance(v, PV.SubclassValue):
        if isinstance(v.typ, PV.TypedValue) and isinstance(v.typ.typ, type):
            return ("subclass", v.typ.typ, bool(v.exactly))
        raise Unenc(v)
    if isinstance(v, (PV.TypedDictValue, PV.CallableValue, PV.NewTypeValue)):
        raise Unenc(v)
    if isinstance(v, PV.DictIncompleteValue):
        if not isinstance(v.typ, type):
            raise Unenc(v)
        return ("dictinc", v.typ, [(decode(p.key), decode(p.value)) for p in v.kv_pairs])
    if isinstance(v, PV.SequenceValue):
        if v.typ in (tuple, list):
            return ("seq", v.typ, [("many", decode(m)) if many else decode(m) for many, m in v.members])
        if v.typ in (set, frozenset):
            return ("setseq", v.typ, [decode(m) for _, m in v.members])
        raise Unenc(v)
    if isinstance(v, PV.GenericValue):
        if type(v) is not PV.GenericValue or not isinstance(v.typ, type):
            raise Unenc(v)
        return ("generic", v.typ, [decode(a) for a in v.args])
    if isinstance(v, PV.TypedValue):
        if type(v) is not PV.TypedValue or not isinstance(v.typ, type) or v.literal_only:
            raise Unenc(v)
        return ("pytyped", v.typ)
    raise Unenc(v)


def _isinst(o, cls):
    """isinstance plus the numeric promotions; None if CPython cannot answer."""
    try:
        if isinstance(o, cls):
            return True
    except TypeError:
        return None
    if cls is float:
        return isinstance(o, int)
    if cls is complex:
        return isinstance(o, (int, float))
    return False


def _and(rs):
    out = True
    for r in rs:
        if r is False:
            return False
        if r is None:
            out = None
    return out


def _or(rs):
    out = False
    for r in rs:
        if r is True:
            return True
        if r is None:
            out = None
    return out


def xm(o, t):
    """Three-valued reference membership of the runtime object o in the x-term t (None = not judged)."""
    k = t[0]
    if k == "any":
        return True
    if k == "tvar":
        return None
    if k == "pyknown":
        val = t[1]
        if o is val:
            return True
        if type(o) is not type(val):
            return False
        if isinstance(val, (type, type(len), type(xm))) or callable(val):
            return False
        try:
            return bool(o == val)
        except Exception:
            return None
    if k == "pytyped":
        return _isinst(o, t[1])
    if k == "union":
        return _or(xm(o, x) for x in t[1])
    if k == "subclass":
        if not isinstance(o, type):
            return False
        if t[2]:
            return o is t[1]
        try:
            return issubclass(o, t[1]) or (t[1] is float and issubclass(o, int)) or (t[1] is complex and issubclass(o, (int, float)))
        except TypeError:
            return None
    if k == "generic":
        r = _isinst(o, t[1])
        if r is not True:
            return r
        args = t[2]
        if type(o) in (tuple, list, set, frozenset) and len(args) == 1:
            return _and(xm(x, args[0]) for x in o)
        if type(o) is dict and len(args) == 1:
            return _and(xm(x, args[0]) for x in o)
        if type(o) is dict and len(args) == 2:
            return _and([_and(xm(x, args[0]) for x in o), _and(xm(x, args[1]) for x in o.values())])
        return True
    if k == "seq":
        r = _isinst(o, t[1])
        if r is not True:
            return r
        if type(o) not in (tuple, list):
            return None
        return _xmatch(list(o), t[2])
    if k == "setseq":
        r = _isinst(o, t[1])
        if r is not True:
            return r
        return _and(_or(xm(x, m) for m in t[2]) for x in o)
    if k == "dictinc":
        r = _isinst(o, t[1])
        if r is not True:
            return r
        if not isinstance(o, dict):
            return None
        return _and(_or(_and([xm(a, kt), xm(b, vt)]) for kt, vt in t[2]) for a, b in o.items())
    raise ValueError(t)


def _xmatch(xs, ms):
    if not ms:
        return not xs
    m = ms[0]
    if m[0] == "many":
        a = _xmatch(xs, ms[1:])
        if a is True:
            return True
        if not xs:
            return a
        b = _and([xm(xs[0], m[1]), _xmatch(xs[1:], ms)])
        return _or([a, b])
    if not xs:
        return False
    return _and([xm(xs[0], m), _xmatch(xs[1:], ms[1:])])


def xshow(t):
    k = t[0]
    if k in ("any", "tvar"):
        return k
    if k == "pyknown":
        return "Literal[%r]" % (t[1],)
    if k == "pytyped":
        return getattr(t[1], "__name__", str(t[1]))
    if k == "union":
        return " | ".join(xshow(x) for x in t[1]) if t[1] else "Never"
    if k == "subclass":
        return "type[%s]" % t[1].__name__
    if k == "generic":
        return "%s[%s]" % (t[1].__name__, ", ".join(xshow(x) for x in t[2]))
    if k in ("seq", "setseq"):
        return "<%s of [%s]>" % (t[1].__name__, ", ".join(("*" + xshow(m[1])) if m[0] == "many" else xshow(m) for m in t[2]))
    if k == "dictinc":
        return "<dict {%s}>" % ", ".join("%s: %s" % (xshow(a), xshow(b)) for a, b in t[2])
    return str(t)


# ------------------------------------------------------------------ checking a module with pyanalyze, keeping every check-phase Value
REC_TYPES = (ast.Name, ast.Subscript, ast.Attribute, ast.Call, ast.BinOp, ast.IfExp, ast.Compare, ast.BoolOp, ast.UnaryOp)


class RecVisitor(NameCheckVisitor):
    _c01_vals = None

    def visit(self, node):
        ret = NameCheckVisitor.visit(self, node)
        if self.state is VisitorState.check_names and isinstance(node, REC_TYPES):
            self._c01_vals.setdefault(id(node), []).append(ret)
        return ret

    def composite_from_node(self, node):
        comp = NameCheckVisitor.composite_from_node(self, node)
        if self.state is VisitorState.check_names and isinstance(node, (ast.Name, ast.Subscript, ast.Attribute)):
            self._c01_vals.setdefault(id(node), []).append(comp.value)
        return comp


# redundancy lints say nothing about the values: a function carrying only these is still judged
SETTINGS = pya.default_settings(extra_off=("impossible_pattern", "type_always_true", "value_always_true", "unsafe_comparison"))


def analyse(src):
    """pyanalyze on the module text: (failures, tree, {id(node): [Value, ...]})."""
    import contextlib, io
    tree = ast.parse(src)
    mod = make_module(src)
    kwargs = NameCheckVisitor.prepare_constructor_kwargs({"settings": SETTINGS})
    with contextlib.redirect_stderr(io.StringIO()), contextlib.redirect_stdout(io.StringIO()):
        v = RecVisitor(mod.__name__, src, tree, module=mod, annotate=True, **kwargs)
        v._c01_vals = {}
        res = v.check()
    fails = [{"lineno": f.get("lineno"), "code": f["code"].name if f.get("code") is not None else None,
              "message": pya.norm(f.get("description", "")).split("\n")[0]} for f in res]
    return fails, tree, v._c01_vals


def recorded_nodes(tree):
    """The expression nodes of function bodies that are instrumented, in a deterministic order: [(node, fn name)]."""
    out = []

    def walk(node, fn, skip):
        for field, val in ast.iter_fields(node):
            vals = val if isinstance(val, list) else [val]
            for ch in vals:
                if not isinstance(ch, ast.AST):
                    continue
                if isinstance(ch, ast.pattern) or isinstance(ch, ast.arguments):
                    continue
                if isinstance(node, ast.FunctionDef) and field in ("returns", "decorator_list"):
                    continue
                if isinstance(node, ast.AnnAssign) and field == "annotation":
                    continue
                if isinstance(node, ast.ExceptHandler) and field == "type":
                    continue
                sk = isinstance(node, ast.Call) and field == "func"
                if isinstance(ch, REC_TYPES) and not sk and isinstance(getattr(ch, "ctx", ast.Load()), ast.Load):
                    out.append((ch, fn))
                walk(ch, fn, sk)

    for st in tree.body:
        if isinstance(st, ast.FunctionDef) and st.name not in HELPERS:
            walk(st, st.name, False)
    return out


class _Instr(ast.NodeTransformer):
    def __init__(self, ids):
        self.ids = ids

    def generic_visit(self, node):
        node = ast.NodeTransformer.generic_visit(self, node)
        k = self.ids.get(id(node))
        if k is not None:
            return ast.copy_location(ast.Call(func=ast.Name(id="__rec", ctx=ast.Load()), args=[ast.Constant(k), node], keywords=[]), node)
        return node


class Abort(BaseException):
    pass


def snapshot(v):
    t = type(v)
    if t is list:
        return [snapshot(x) for x in v]
    if t is dict:
        return {k: snapshot(x) for k, x in v.items()}
    if t is set:
        return set(v)
    if t is tuple:
        return tuple(snapshot(x) for x in v)
    return v


class Runner:
    """The instrumented copy of a module, executed under CPython."""

    def __init__(self, src, fns):
        self.tree2 = ast.parse(src)
        self.nodes2 = recorded_nodes(self.tree2)
        ids = {id(n): k for k, (n, _) in enumerate(self.nodes2)}
        self.log = []
        tree2 = _Instr(ids).visit(self.tree2)
        # argument check at the entry of every generated function
        sig = {f["name"]: f["ptypes"] for f in fns}
        self.num_eq = {f["name"]: f.get("num_eq", False) for f in fns}
        for st in tree2.body:
            if isinstance(st, ast.FunctionDef) and st.name in sig:
                call = ast.Expr(ast.Call(func=ast.Name(id="__enter", ctx=ast.Load()),
                                         args=[ast.Constant(st.name)] + [ast.Name(id=a.arg, ctx=ast.Load()) for a in st.args.args], keywords=[]))
                st.body.insert(0, call)
        for n in ast.walk(tree2):
            if isinstance(n, (ast.While, ast.For)):
                n.body.insert(0, ast.Expr(ast.Call(func=ast.Name(id="__tick", ctx=ast.Load()), args=[], keywords=[])))
        ast.fix_missing_locations(tree2)
        self.sig = sig
        self.depth = 0
        self.ticks = 0
        self.ns = {"__rec": self.rec, "__enter": self.enter, "__tick": self.tick, "__name__": "c01_exec"}
        exec(compile(tree2, "<c01>", "exec"), self.ns)

    def rec(self, k, v):
        if len(self.log) > 5000:
            raise Abort("too long")
        self.log.append((k, snapshot(v)))
        return v

    def tick(self):
        self.ticks += 1
        if self.ticks > 3000:
            raise Abort("too many loop iterations")

    def enter(self, name, *args):
        self.calls += 1
        self.log.append(("enter", name, snapshot(args)))
        if self.calls == 1:
            return
        for i, (a, t) in enumerate(zip(args, self.sig[name])):
            if self.num_eq.get(name) and not _mentions_boolish(t) and _py_boolish(a):
                # the callee compares numbers with == / in / match: a bool or IntEnum value in a plain int position would
                # leave the quantifier (cross-type equality); the execution is cut here, nothing is judged after it
                raise Abort("cross-type-eq")
            if not G.member(a, t):
                self.log.append(("arg", name, i, snapshot(a)))
                raise Abort("tainted")

    def run(self, name, args):
        self.log = []
        self.calls = 0
        self.ticks = 0
        exc = None
        try:
            self.ns[name](*args)
        except Abort as e:
            exc = "Abort:%s" % e
        except Exception as e:
            exc = type(e).__name__
        return self.log, exc


def _boolish(o):
    if o[0] == "bool" or (o[0] == "inst" and o[1] == CIE):
        return True
    if o[0] in ("tuple", "list", "set", "fset"):
        return any(_boolish(x) for x in o[1])
    if o[0] == "dict":
        return any(_boolish(x) for x in o[1] + o[2])
    return False


def _py_boolish(v):
    import enum
    if isinstance(v, bool) or isinstance(v, enum.IntEnum):
        return True
    if isinstance(v, (tuple, list, set, frozenset)):
        return any(_py_boolish(x) for x in v)
    if isinstance(v, dict):
        return any(_py_boolish(x) for x in v) or any(_py_boolish(x) for x in v.values())
    return False


def _mentions_boolish(t):
    k = t[0]
    if k == "typed":
        return t[1] in (BOOL, CIE)
    if k == "known":
        return _boolish(t[1])
    if k in ("generic", "seq"):
        return any(_mentions_boolish(x) for x in t[2])
    if k == "union":
        return any(_mentions_boolish(x) for x in t[1])
    if k == "many":
        return _mentions_boolish(t[1])
    return False


def cross_type_equal(val, ts):
    """Is the runtime value == to a literal member of the inferred type that has another (numeric) type?"""
    import enum
    if not isinstance(val, (bool, int, float, complex)):
        return False
    for t in ts:
        for m in (t[1] if t[0] == "union" else [t]):
            if m[0] == "pyknown" and isinstance(m[1], (bool, int, float, complex)) and type(m[1]) is not type(val):
                try:
                    if m[1] == val:
                        return True
                except Exception:
                    pass
    return False


def gen_args(rng, ptypes, n, plain=False):
    """Argument tuples drawn from the declared parameter types. plain=True (the function compares numbers with ==, in or
    match): no bool / IntEnum value in a position not declared as such (the property's equality restriction)."""
    out, seen = [], set()
    for _ in range(n * 3):
        if len(out) >= n:
            break
        objs = []
        for t in ptypes:
            for _ in range(5):
                o = G.gen_obj_for(rng, t, 3)
                if G.member(V.obj_to_py(o), t) and not (plain and _boolish(o) and not _mentions_boolish(t)):
                    break
            else:
                o = None
            objs.append(o)
        if any(o is None for o in objs):
            continue
        key = repr(objs)
        if key in seen:
            continue
        seen.add(key)
        out.append(objs)
    return out


def build_args(objs):
    """Fresh argument objects: Obj terms, or {"src": [expression text, ...]} for objects the harness builds (nested
    containers / instances of harness.props.c01_objs classes, rebuilt for every execution because the function may
    mutate them through its own parameter)."""
    if isinstance(objs, dict):
        from harness.props import c01_objs
        ns = {"Leaf": c01_objs.Leaf, "Mid": c01_objs.Mid, "Top": c01_objs.Top}
        return [eval(e, ns) for e in objs["src"]]
    return [V.obj_to_py(o) for o in objs]


def args_text(objs):
    if isinstance(objs, dict):
        return ", ".join(objs["src"])
    return ", ".join(repr(V.obj_to_py(o)) for o in objs)


def fn_ranges(tree):
    return {st.name: (st.lineno, st.end_lineno) for st in tree.body if isinstance(st, ast.FunctionDef)}


def judge_module(fns, arg_sets, stats, on_exec=None):
    """Check + execute one module. fns: generated functions (dicts), arg_sets: {name: [argument object tuples]}.
    Returns the list of failures: dicts {fn, args, node, value, inferred, what, kind}."""
    body = "\n".join(f["src"] for f in fns) + "\n"
    src = prelude_for(body) + body
    try:
        fails, tree, vals = analyse(src)
    except SyntaxError as e:
        stats["syntax_error"] = stats.get("syntax_error", 0) + 1
        return [], src
    ranges = fn_ranges(tree)
    bad_fns = {}
    for f in fails:
        for name, (a, b) in ranges.items():
            if f["lineno"] is not None and a <= f["lineno"] <= b:
                bad_fns.setdefault(name, []).append(f["code"])
        if f["lineno"] is None or f["code"] == "internal_error":
            stats["module_level_failure_" + str(f["code"])] = stats.get("module_level_failure_" + str(f["code"]), 0) + 1
    nodes = recorded_nodes(tree)
    runner = Runner(src, fns)
    assert len(nodes) == len(runner.nodes2)
    dec_cache = {}
    # subject node index of the match statement whose `<pattern> as name` binds (owner, name)
    as_subject = {}
    subj_index = {id(n0): k0 for k0, (n0, o0) in enumerate(nodes)}
    for st0 in tree.body:
        if isinstance(st0, ast.FunctionDef):
            for m0 in ast.walk(st0):
                if isinstance(m0, ast.Match) and id(m0.subject) in subj_index:
                    for p0 in ast.walk(m0):
                        if isinstance(p0, ast.MatchAs) and p0.name is not None and p0.pattern is not None:
                            as_subject.setdefault((st0.name, p0.name), subj_index[id(m0.subject)])

    def terms(k):
        node = nodes[k][0]
        vs = vals.get(id(node))
        if not vs:
            return None
        out = []
        for v in vs:
            key = id(v)
            if key not in dec_cache:
                try:
                    dec_cache[key] = (decode(v), v)
                except Unenc:
                    dec_cache[key] = (None, v)
            out.append(dec_cache[key][0])
        return out

    failures = []
    for f in fns:
        name = f["name"]
        if name not in ranges:
            continue
        if name in bad_fns:
            stats["fn_with_diagnostics"] = stats.get("fn_with_diagnostics", 0) + 1
            for c in set(bad_fns[name]):
                stats["diag_" + str(c)] = stats.get("diag_" + str(c), 0) + 1
            continue
        stats["fn_judged"] = stats.get("fn_judged", 0) + 1
        for objs in arg_sets.get(name, []):
            args = build_args(objs)
            log, exc = runner.run(name, args)
            stats["executions"] = stats.get("executions", 0) + 1
            if exc:
                stats["exec_exc_" + exc.split(":")[0]] = stats.get("exec_exc_" + exc.split(":")[0], 0) + 1
            nontriv = False
            first = None
            cur_args = {}
            judged_ok = set()     # (node, value) pairs of this execution already found to be members (loops repeat them)
            for ent in log:
                if ent[0] == "enter":
                    if ent[1] in bad_fns:
                        # a callee in which pyanalyze reported a diagnostic: whatever it returns is outside the property
                        stats["cut_at_callee_with_diagnostics"] = stats.get("cut_at_callee_with_diagnostics", 0) + 1
                        break
                    cur_args[ent[1]] = ent[2]
                    continue
                if ent[0] == "arg":
                    _, callee, i, val = ent
                    if callee in bad_fns or first is not None:
                        continue
                    first = {"fn": name, "owner": name, "args": objs, "node": "argument %d of the call to %s" % (i, callee), "nid": -1,
                             "value": repr(val), "inferred": ty_src(next(g for g in fns if g["name"] == callee)["ptypes"][i]),
                             "kind": "arg", "lineno": 0, "never": False,
                             "what": "callee %s received %r for parameter %d although no diagnostic was reported" % (callee, val, i)}
                    continue
                k, val = ent
                node, owner = nodes[k]
                if owner in bad_fns:
                    continue
                try:
                    vkey = (k, type(val), repr(val))
                except Exception:
                    vkey = None
                if vkey is not None and vkey in judged_ok:
                    continue
                ts = terms(k)
                stats["checks"] = stats.get("checks", 0) + 1
                if ts is None:
                    stats["unvisited_node"] = stats.get("unvisited_node", 0) + 1
                    continue
                if any(t is None for t in ts):
                    stats["unencodable"] = stats.get("unencodable", 0) + 1
                    continue
                try:
                    r = _or(xm(val, t) for t in ts)
                except Exception as e:
                    stats["oracle_exc_" + type(e).__name__] = stats.get("oracle_exc_" + type(e).__name__, 0) + 1
                    continue
                if any(t[0] != "any" for t in ts):
                    nontriv = True
                if r is False and cross_type_equal(val, ts):
                    # the value is == to an inferred literal of another numeric type (True == 1, IE.X == 1): it got there
                    # through an ==/in/match test on mixed numeric types, which the property's quantifier leaves out;
                    # nothing is judged after it in this execution
                    stats["excluded_cross_type_equality"] = stats.get("excluded_cross_type_equality", 0) + 1
                    break
                if r is True and vkey is not None:
                    judged_ok.add(vkey)
                if r is None:
                    stats["not_judged_typevar"] = stats.get("not_judged_typevar", 0) + 1
                elif r is False and first is None:
                    # only the FIRST failing evaluation of an execution is a root cause; later ones may be consequences
                    inferred = " / ".join(dict.fromkeys(xshow(t) for t in ts))
                    fargs, fowner = objs, name
                    if owner != name:
                        try:
                            fargs, fowner = [V.py_to_obj(a) for a in cur_args[owner]], owner
                        except (V.Unencodable, KeyError):
                            pass
                    first = {"fn": fowner, "owner": owner, "args": fargs, "node": ast.unparse(node), "nid": k,
                             "kind": type(node).__name__, "lineno": node.lineno - ranges[owner][0], "col": node.col_offset,
                             "value": repr(val), "inferred": inferred, "never": all(t == ("union", []) for t in ts),
                             "xterms": ts, "pyvalue": val, "top": name,
                             "subj_xterms": terms(as_subject[(owner, node.id)])
                             if isinstance(node, ast.Name) and (owner, node.id) in as_subject else None,
                             # what was inferred for the root NAME of a failing subscript (a union there: see compositeUnionRoot)
                             "root_xterms": terms(subj_index[id(node.value)])
                             if isinstance(node, ast.Subscript) and id(node.value) in subj_index else None,
                             "what": "%s evaluated to %r, which is not in the inferred %s" % (ast.unparse(node), val, inferred)}
            if first is not None:
                failures.append(first)
            stats["nontrivial_exec"] = stats.get("nontrivial_exec", 0) + (1 if nontriv else 0)
            if on_exec is not None:
                on_exec(f, objs, nontriv, exc)
    return failures, src


# ------------------------------------------------------------------ shrinking a failing function
def _bodies(node):
    """(owner, field) pairs of every statement list below node."""
    for n in ast.walk(node):
        for field in ("body", "orelse", "finalbody"):
            v = getattr(n, field, None)
            if isinstance(v, list) and v and isinstance(v[0], ast.stmt):
                yield n, field
        if isinstance(n, ast.Match):
            for c in n.cases:
                yield c, "body"


def _variants(fn_src):
    """Smaller variants of a function: a statement dropped, a compound statement replaced by one of its blocks, an
    expression replaced by one of its operands."""
    tree = ast.parse(fn_src)
    spots = []
    for owner, field in _bodies(tree.body[0]):
        for i, st in enumerate(getattr(owner, field)):
            spots.append(("drop", id(owner), field, i))
            if isinstance(st, (ast.If, ast.For, ast.While, ast.Try)):
                for sub in ("body", "orelse", "finalbody"):
                    if getattr(st, sub, None):
                        spots.append(("lift", id(owner), field, i, sub))
            if isinstance(st, ast.Try):
                for hi in range(len(st.handlers)):
                    spots.append(("drophandler", id(owner), field, i, hi))
            if isinstance(st, ast.Match):
                for ci in range(len(st.cases)):
                    spots.append(("liftcase", id(owner), field, i, ci))
                    if len(st.cases) > 1:
                        spots.append(("dropcase", id(owner), field, i, ci))
    def body_exprs(t):
        out = []
        for st in t.body[0].body:
            out += [n for n in ast.walk(st) if isinstance(n, (ast.BoolOp, ast.IfExp, ast.BinOp, ast.UnaryOp, ast.Call, ast.Compare, ast.Tuple, ast.List))
                    and not isinstance(getattr(n, "ctx", None), ast.Store)]
        return out
    n_expr = len(body_exprs(tree))
    for sp in spots:
        t2 = ast.parse(fn_src)
        owners = {}
        for (o1, f1), (o2, f2) in zip(_bodies(tree.body[0]), _bodies(t2.body[0])):
            owners[(id(o1), f1)] = o2
        owner = owners[(sp[1], sp[2])]
        lst = getattr(owner, sp[2])
        st = lst[sp[3]]
        if sp[0] == "drop":
            new = lst[:sp[3]] + lst[sp[3] + 1:]
            if not new:
                if sp[2] != "body":
                    new = []
                else:
                    new = [ast.Pass()]
        elif sp[0] == "lift":
            new = lst[:sp[3]] + getattr(st, sp[4]) + lst[sp[3] + 1:]
        elif sp[0] == "liftcase":
            new = lst[:sp[3]] + st.cases[sp[4]].body + lst[sp[3] + 1:]
        elif sp[0] == "dropcase":
            st.cases.pop(sp[4])
            new = lst
        else:
            st.handlers.pop(sp[4])
            if not st.handlers and not st.finalbody:
                continue
            if not st.handlers:
                st.orelse = []
            new = lst
        setattr(owner, sp[2], new)
        try:
            src = ast.unparse(ast.fix_missing_locations(t2))
            compile(src, "<v>", "exec")
            yield src
        except (SyntaxError, ValueError):
            continue
    # expression simplification
    for idx in range(n_expr):
        for choice in range(3):
            t2 = ast.parse(fn_src)
            targets = body_exprs(t2)
            if idx >= len(targets):
                break
            tg = targets[idx]
            if isinstance(tg, ast.BoolOp):
                subs = tg.values
            elif isinstance(tg, ast.IfExp):
                subs = [tg.body, tg.orelse, tg.test]
            elif isinstance(tg, ast.BinOp):
                subs = [tg.left, tg.right]
            elif isinstance(tg, ast.UnaryOp):
                subs = [tg.operand]
            elif isinstance(tg, ast.Call):
                subs = list(tg.args)
            elif isinstance(tg, ast.Compare):
                subs = [tg.left] + tg.comparators
            else:
                subs = list(tg.elts)
            if choice >= len(subs):
                break
            rep = subs[choice]

            class R(ast.NodeTransformer):
                def visit(self, node):
                    if node is tg:
                        return rep
                    return self.generic_visit(node)

            t3 = R().visit(t2)
            try:
                src = ast.unparse(ast.fix_missing_locations(t3))
                compile(src, "<v>", "exec")
                yield src
            except (SyntaxError, ValueError, TypeError):
                continue


def deps_of(fn, fns):
    """The generated functions fn's text refers to (transitively), in definition order."""
    need, todo = set(), [fn]
    by = {f["name"]: f for f in fns}
    while todo:
        f = todo.pop()
        for name, g in by.items():
            if name != f["name"] and name not in need and (name + "(") in f["src"]:
                need.add(name)
                todo.append(g)
    return [f for f in fns if f["name"] in need]


def rejudge(fn, deps, objs):
    stats = {}
    fl, _ = judge_module(deps + [fn], {fn["name"]: [objs]}, stats)
    return [f for f in fl if f.get("owner", fn["name"]) == fn["name"] or f["kind"] == "arg"], stats


def shrink(fn, fns, objs, keep, max_checks=250):
    """Greedy delta debugging: keep(failures) must stay true."""
    deps = deps_of(fn, fns)
    cur = dict(fn)
    checks = 0
    progress = True
    while progress and checks < max_checks:
        progress = False
        for src in _variants(cur["src"]):
            if len(src) >= len(cur["src"]) or checks >= max_checks:
                continue
            checks += 1
            cand = dict(cur, src=src)
            try:
                fl, _ = rejudge(cand, deps, objs)
            except Exception:
                continue
            if keep(fl):
                cur = cand
                progress = True
                break
    # drop dependencies that are no longer used
    deps = deps_of(cur, fns)
    return cur, deps


# ------------------------------------------------------------------ classification skeleton of a failing evaluation
# Tokens (parsed by Driver/C01.lean, command `cls`; the predicates are Pya.C01.D01_* of Spec/D01.lean):
#   a0 | a1        assignment to the failing variable v (a1: the new value depends on v's previous value)
#   o              any other simple statement        u:<f>   the failing evaluation (f=1: an isinstance(v, float|complex) test
#   br co ret rs                                              occurs in the same statement)
#   if:<f> [ B ] [ B ]      wh:<true>:<f> [ B ] [ B ]      for [ B ] [ B ]
#   try [ B ] { [ H ] ... } [ E ] [ F ]                     mt:<irrefutable last case> { [ C ] ... }
def _reads(node):
    return {n.id for n in ast.walk(node) if isinstance(n, ast.Name) and isinstance(n.ctx, ast.Load)}


def _targets(st):
    """Names bound by a simple statement / a loop header."""
    out = set()
    tg = []
    if isinstance(st, ast.Assign):
        tg = st.targets
    elif isinstance(st, (ast.AugAssign, ast.AnnAssign, ast.For)):
        tg = [st.target]
    for t in tg:
        out |= {n.id for n in ast.walk(t) if isinstance(n, ast.Name)}
    return out


def _isfloat_test(node, v):
    for n in ast.walk(node):
        if isinstance(n, ast.Call) and isinstance(n.func, ast.Name) and n.func.id == "isinstance" and len(n.args) == 2:
            if isinstance(n.args[0], ast.Name) and n.args[0].id == v:
                names = {x.id for x in ast.walk(n.args[1]) if isinstance(x, ast.Name)}
                if names & {"float", "complex"}:
                    return True
        if isinstance(n, ast.MatchClass) and isinstance(n.cls, ast.Name) and n.cls.id in ("float", "complex"):
            return True
    return False


def _test_flag(node, v, fn_node):
    """0 | 1: isinstance(v, float|complex) in the condition | 2: the condition is the truth value of a variable w that was
    assigned from an expression containing a test (comparison / isinstance / not) on v."""
    if node is None:
        return 0
    if _isfloat_test(node, v):
        return 1
    for sub in ast.walk(node):
        if isinstance(sub, ast.Compare) and len(sub.ops) == 1 and isinstance(sub.ops[0], (ast.In, ast.NotIn)) and \
                isinstance(sub.left, ast.Name) and sub.left.id == v:
            c = sub.comparators[0]
            if (isinstance(c, ast.Constant) and isinstance(c.value, str)) or isinstance(c, ast.Name):
                return 3
    names = {n.id for n in ast.walk(node) if isinstance(n, ast.Name) and isinstance(n.ctx, ast.Load)} - {v}
    assigns = [st for st in ast.walk(fn_node) if isinstance(st, (ast.Assign, ast.AugAssign, ast.AnnAssign)) and st.value is not None]
    grew = True
    while grew:   # the names the condition depends on, through assignments (flow-insensitive)
        grew = False
        for st in assigns:
            if _targets(st) & names:
                new = (_reads(st.value) - {v}) - names
                if new:
                    names |= new
                    grew = True
    for st in assigns:
        if _targets(st) & names:
            for sub in ast.walk(st.value):
                is_test = isinstance(sub, ast.Compare) or (isinstance(sub, ast.UnaryOp) and isinstance(sub.op, ast.Not)) or \
                    (isinstance(sub, ast.Call) and isinstance(sub.func, ast.Name) and sub.func.id == "isinstance")
                if is_test and v in _reads(sub):
                    return 2
    # 4: another test on v itself
    for sub in ast.walk(node):
        is_test = isinstance(sub, ast.Compare) or (isinstance(sub, ast.UnaryOp) and isinstance(sub.op, ast.Not)) or \
            (isinstance(sub, ast.Call) and isinstance(sub.func, ast.Name) and sub.func.id == "isinstance")
        if is_test and v in _reads(sub):
            return 4
        if isinstance(sub, (ast.IfExp, ast.If, ast.While, ast.Assert)) and isinstance(sub.test, ast.Name) and sub.test.id == v:
            return 4
        if isinstance(sub, ast.BoolOp) and any(isinstance(x, ast.Name) and x.id == v for x in sub.values):
            return 4
    if isinstance(node, ast.Name) and node.id == v:
        return 4
    return 0


def _irrefutable(pat):
    if isinstance(pat, ast.MatchAs):
        return pat.pattern is None or _irrefutable(pat.pattern)
    if isinstance(pat, ast.MatchOr):
        return any(_irrefutable(p) for p in pat.patterns)
    return False


def skeleton(fn_node, fail_node, v):
    """The token line for the failing evaluation `fail_node` (an expression node of fn_node) about variable v."""
    def contains_fail(node):
        return any(n is fail_node for n in ast.walk(node)) if node is not None else False

    def self_dep(st, loop_assigns):
        """Does the value assigned to v by st depend on v's previous value (directly or through names assigned in the
        same loop)?"""
        if isinstance(st, ast.AugAssign):
            return True
        src = st.iter if isinstance(st, ast.For) else getattr(st, "value", None)
        if src is None:
            return False
        seen, todo = set(), list(_reads(src))
        while todo:
            x = todo.pop()
            if x == v:
                return True
            if x in seen:
                continue
            seen.add(x)
            for a in loop_assigns:
                if x in _targets(a):
                    if isinstance(a, ast.AugAssign):
                        todo.append(x)
                    s2 = a.iter if isinstance(a, ast.For) else getattr(a, "value", None)
                    if s2 is not None:
                        todo += list(_reads(s2))
        return False

    def block(stmts, loop_assigns):
        out = []
        for st in stmts:
            out += stmt(st, loop_assigns)
        return out

    def br(stmts, loop_assigns):
        return ["["] + block(stmts, loop_assigns) + ["]"]

    def u_tok(st):
        return "u:%d" % _test_flag(st, v, fn_node)

    def stmt(st, loop_assigns):
        if isinstance(st, ast.If):
            pre = [u_tok(st.test)] if contains_fail(st.test) else []
            return pre + ["if:%d" % _test_flag(st.test, v, fn_node)] + br(st.body, loop_assigns) + br(st.orelse, loop_assigns)
        if isinstance(st, (ast.While, ast.For)):
            inner = [a for a in ast.walk(st) if isinstance(a, (ast.Assign, ast.AugAssign, ast.AnnAssign, ast.For))]
            la = loop_assigns + inner
            if isinstance(st, ast.While):
                always = isinstance(st.test, ast.Constant) and bool(st.test.value)
                head = ["wh:%d:%d" % (always, _test_flag(st.test, v, fn_node))]
                first = [u_tok(st.test)] if contains_fail(st.test) else []
                return head + ["["] + first + block(st.body, la) + ["]"] + br(st.orelse, la)
            pre = [u_tok(st.iter)] if contains_fail(st.iter) else []
            tgt = []
            if v in _targets(st):
                tgt = ["a1" if self_dep(st, la) else "a0"]
            return pre + ["for", "["] + tgt + block(st.body, la) + ["]"] + br(st.orelse, la)
        if isinstance(st, ast.Try):
            hs = []
            for h in st.handlers:
                hs += br(h.body, loop_assigns)
            return ["try"] + br(st.body, loop_assigns) + ["{"] + hs + ["}"] + br(st.orelse, loop_assigns) + br(st.finalbody, loop_assigns)
        if isinstance(st, ast.Match):
            pre = [u_tok(st.subject)] if contains_fail(st.subject) else []
            cs = []
            for c in st.cases:
                binds = {n.name for n in ast.walk(c.pattern) if isinstance(n, (ast.MatchAs, ast.MatchStar)) and n.name}
                cs += ["["] + (["a0"] if v in binds else []) + block(c.body, loop_assigns) + ["]"]
            last = st.cases[-1]
            return pre + ["mt:%d:%d" % (last.guard is None and _irrefutable(last.pattern), 1 if any(_isfloat_test(c.pattern, v) for c in st.cases) else 0), "{"] + cs + ["}"]
        pre = [u_tok(st)] if contains_fail(st) else []
        if isinstance(st, ast.Break):
            return ["br"]
        if isinstance(st, ast.Continue):
            return ["co"]
        if isinstance(st, ast.Return):
            return pre + ["ret"]
        if isinstance(st, ast.Raise):
            return pre + ["rs"]
        if isinstance(st, ast.Assert):
            return pre + ["if:%d" % _test_flag(st.test, v, fn_node), "[", "]", "[", "rs", "]"]
        if v in _targets(st):
            return pre + ["a1" if self_dep(st, loop_assigns) else "a0"]
        fl = _test_flag(st, v, fn_node)
        return pre + (["o:%d" % fl] if fl else ["o"])

    return " ".join(block(fn_node.body, []))


# ---- Python mirror of Spec/D01.lean (used for the shrinking criterion and when the driver is unavailable; the verdict uses
# the driver's answer and the two are compared on every classified failure, stream `cls`)
def _parse_skel(tokens):
    pos = 0

    def blk():
        nonlocal pos
        assert tokens[pos] == "["
        pos += 1
        out = []
        while tokens[pos] != "]":
            out.append(st())
        pos += 1
        return out

    def st():
        nonlocal pos
        t = tokens[pos]
        pos += 1
        p = t.split(":")
        if p[0] == "if":
            return ("if", int(p[1]), blk(), blk())
        if p[0] == "wh":
            return ("loop", p[1] == "1", int(p[2]), blk(), blk())
        if p[0] == "for":
            return ("loop", False, 0, blk(), blk())
        if p[0] == "try":
            b = blk()
            assert tokens[pos] == "{"
            pos += 1
            hs = []
            while tokens[pos] != "}":
                hs.append(blk())
            pos += 1
            return ("try", b, hs, blk(), blk())
        if p[0] == "mt":
            assert tokens[pos] == "{"
            pos += 1
            cs = []
            while tokens[pos] != "}":
                cs.append(blk())
            pos += 1
            return ("mt", p[1] == "1", int(p[2]), cs)
        if p[0] == "u":
            return ("u", int(p[1]))
        if p[0] == "o":
            return ("o", int(p[1]) if len(p) > 1 else 0)
        return (p[0],)

    out = []
    while pos < len(tokens):
        out.append(st())
    return out


def _subblocks(s):
    k = s[0]
    if k == "if":
        return [s[2], s[3]]
    if k == "loop":
        return [s[3], s[4]]
    if k == "try":
        return [s[1]] + s[2] + [s[3], s[4]]
    if k == "mt":
        return s[3]
    return []


def _any(s, pred):
    return pred(s) or any(_any(x, pred) for b in _subblocks(s) for x in b)


def _u_in(s):
    return _any(s, lambda x: x[0] == "u")


def _scan(P, later, stmts):
    for i, s in enumerate(stmts):
        lat = later or any(_u_in(x) for x in stmts[i + 1:])
        if P(s) and (_u_in(s) or lat):
            return True
        sub_later = lat or (s[0] == "loop" and _u_in(s))
        if any(_scan(P, sub_later, b) for b in _subblocks(s)):
            return True
    return False


def _has_a(s):
    return _any(s, lambda x: x[0] in ("a0", "a1"))


def _jump_not_nested(block, kinds):
    """a break/continue of THIS loop (not of a nested loop) in the block"""
    for s in block:
        if s[0] in kinds:
            return True
        if s[0] != "loop" and any(_jump_not_nested(b, kinds) for b in _subblocks(s)):
            return True
    return False


def _tflag(s):
    return {"if": lambda: s[1], "loop": lambda: s[2], "u": lambda: s[1], "o": lambda: s[1], "mt": lambda: s[2]}.get(s[0], lambda: 0)()


D_PREDICATES = {
    "loopCarriedLiteral": lambda s: s[0] == "loop" and _any(s, lambda x: x[0] == "a1"),
    "C09:loopElse": lambda s: s[0] == "loop" and bool(s[4]) and _has_a(s),
    "C09:secondVisitSeed": lambda s: s[0] == "loop" and s[1] and _has_a(s),
    "C09:loopBreak": lambda s: s[0] == "loop" and _jump_not_nested(s[3], ("br",)) and _has_a(s),
    "C09:jumpThroughFinally": lambda s: s[0] == "try" and bool(s[4]) and _any(s, lambda x: x[0] in ("br", "co", "ret")) and _has_a(s),
    "C09:loopJumpInSuppressing": lambda s: s[0] == "try" and any(_any(x, lambda y: y[0] in ("br", "co")) for x in s[1]) and _has_a(s),
    "loopConstraintCycle": lambda s: s[0] == "loop" and _any(s, lambda y: _tflag(y) != 0),
    "C09:nestedLoopJump": lambda s: s[0] == "loop" and any(_any(x, lambda y: y[0] == "loop" and _any(y, lambda z: z[0] in ("br", "co")))
                                                            for b in _subblocks(s) for x in b) and _has_a(s),
    "C02:promote": lambda s: _tflag(s) == 1,
    "unionMemberConstraint": lambda s: _tflag(s) == 2,
}
# (matchExhaustiveLeavesScope and tupleConcat were repaired in /repo — 232b32d, b494820 —: no longer classes, their
# witnesses stay in corpus/C01.jsonl as regression cases that must pass)
# (strContainment was repaired in /repo — e71c8d1 —: no longer a class)
CLASS_ORDER = ["C02:promote", "unionMemberConstraint", "loopCarriedLiteral", "C09:loopElse", "C09:secondVisitSeed", "C09:loopBreak",
               "C09:jumpThroughFinally", "C09:loopJumpInSuppressing", "C09:nestedLoopJump", "loopConstraintCycle"]


def py_classes(line):
    try:
        prog = _parse_skel(line.split())
    except (AssertionError, IndexError):
        return None
    return [c for c in CLASS_ORDER if _scan(D_PREDICATES[c], False, prog)]


def find_fail_node(fn_src, f):
    tree = ast.parse(fn_src)
    fn = tree.body[0]
    for n in ast.walk(fn):
        if isinstance(n, REC_TYPES) and getattr(n, "lineno", None) == f["lineno"] + 1 and n.col_offset == f["col"] and \
                type(n).__name__ == f["kind"] and isinstance(getattr(n, "ctx", ast.Load()), ast.Load) and \
                ast.unparse(n) == f["node"]:
            return fn, n
    return fn, None


def fail_var(node):
    """The variable a failing evaluation is about: the name itself, or the base name of a subscript."""
    if isinstance(node, ast.Name):
        return node.id
    while isinstance(node, (ast.Subscript, ast.Attribute)):
        node = node.value
        if isinstance(node, ast.Name):
            return node.id
    return None


# ------------------------------------------------------------------ MiniPy: the Lean mini-language (correspondence streams)
MINI_TYPES = [
    T(INT), T(STR), T(BOOL), OBJECT_T, NONE_T, Un(T(INT), NONE_T), Un(T(STR), NONE_T), Un(T(INT), T(STR), NONE_T),
    Un(K(1), K("a"), NONE_T), ("seq", TUPLE, [T(INT), T(STR)]), ("seq", TUPLE, [T(INT), Un(T(STR), NONE_T)]),
    Un(("seq", TUPLE, [T(INT), T(STR)]), NONE_T), ("generic", LIST, [T(INT)]), ("generic", TUPLE, [T(INT)]),
    ("generic", LIST, [Un(T(INT), NONE_T)]), Un(("generic", LIST, [T(INT)]), ("seq", TUPLE, [T(STR), T(INT)])),
    ("seq", TUPLE, [T(INT), ("many", T(STR))]), ("generic", SEQUENCE, [T(STR)]), Un(T(FLOAT), NONE_T), T(CA),
]
MINI_LITS = [("int", 0), ("int", 1), ("int", 5), ("str", "a"), ("str", ""), ("none",), ("bool", 1), ("bool", 0), ("int", -1)]


# helper functions the MiniPy programs may call: (name, arity, declared return type, source); the Lean driver has the same
# implementations (Driver/C01.lean implStd). Parameters are `object` so that no argument diagnostic interferes.
MINI_HELPERS = [
    ("h0", 1, T(INT), "def h0(a: object) -> int:\n    return 7\n"),
    ("h1", 1, Un(T(STR), NONE_T), "def h1(a: object) -> Optional[str]:\n    return None if a is None else 's'\n"),
    ("h2", 1, ("seq", TUPLE, [T(INT), T(STR)]), "def h2(a: object) -> tuple[int, str]:\n    return (3, 't')\n"),
    ("h3", 2, ("generic", LIST, [T(INT)]), "def h3(a: object, b: object) -> list[int]:\n    return [1, 2]\n"),
    ("h4", 1, Un(T(INT), NONE_T), "def h4(a: object) -> Optional[int]:\n    return a if type(a) is int else None\n"),
    ("h5", 1, OBJECT_T, "def h5(a: object) -> object:\n    return a\n"),
]
MINI_PRELUDE = PRELUDE_HEAD + "".join(h[3] for h in MINI_HELPERS)


class MiniGen:
    def __init__(self, rng):
        self.rng = rng

    def test(self, defined):
        rng = self.rng
        x = rng.choice(defined)
        t = (rng.choice(["isnone", "notnone"]), x)
        while rng.random() < 0.2:
            t = ("not", t)
        return t

    def expr(self, defined, depth):
        rng = self.rng
        r = rng.random()
        if depth <= 0 or r < 0.3:
            if rng.random() < 0.6:
                return ("var", rng.choice(defined))
            return ("lit", rng.choice(MINI_LITS))
        if r < 0.5:
            return (rng.choice(["tup", "lst"]), [self.expr(defined, depth - 1) for _ in range(rng.choice([0, 1, 2, 2, 3]))])
        if r < 0.75:
            seqs = [x for x in defined if self.seqish.get(x)]
            if seqs and rng.random() < 0.7:
                base = ("var", rng.choice(seqs))
            elif rng.random() < 0.6:
                base = (rng.choice(["tup", "lst"]), [self.expr(defined, depth - 1) for _ in range(rng.choice([1, 2, 3]))])
            else:
                base = self.expr(defined, depth - 1)
            return ("sub", base, rng.choice([0, 1, -1, 0, 1, 2, -2, 5]))
        if r < 0.87:
            return ("ite", self.test(defined), self.expr(defined, depth - 1), self.expr(defined, depth - 1))
        if r < 0.93:
            f = rng.randrange(len(MINI_HELPERS))
            n = MINI_HELPERS[f][1] if rng.random() < 0.95 else 1 + (MINI_HELPERS[f][1] % 2)
            return ("call", f, [self.expr(defined, depth - 1) for _ in range(n)])
        return ("add", self.addend(defined, depth - 1), self.addend(defined, depth - 1))

    def addend(self, defined, depth):
        rng = self.rng
        r = rng.random()
        if r < 0.3:
            return ("lit", rng.choice([("int", 1), ("int", 5), ("str", "a"), ("bool", 1), ("int", 0), ("str", "")]))
        nums = [x for x in defined if self.numish.get(x)]
        if nums and r < 0.7:
            return ("var", rng.choice(nums))
        if r < 0.8:
            return ("call", rng.choice([0, 4, 1]), [("lit", ("int", 0))])
        return self.expr(defined, depth)

    def expr_noite(self, defined, depth):
        e = self.expr(defined, depth)
        for _ in range(6):
            if "'ite'" not in repr(e):
                return e
            e = self.expr(defined, depth)
        return ("var", self.rng.choice(defined))

    def block(self, defined, nvars, budget, depth):
        """returns (stmts, defined_after or None if the block always returns)"""
        rng = self.rng
        out = []
        defined = list(defined)
        for _ in range(rng.choice([1, 2, 2, 3])):
            if budget[0] <= 0:
                break
            budget[0] -= 1
            r = rng.random()
            if depth > 0 and r < 0.3:
                t = self.test(defined)
                b, db = self.block(defined, nvars, budget, depth - 1)
                e, de = self.block(defined, nvars, budget, depth - 1) if rng.random() < 0.7 else ([], defined)
                out.append(("if", t, b, e))
                outs = [d for d in (db, de) if d is not None]
                if not outs:
                    return out, None
                defined = [x for x in outs[0] if all(x in d for d in outs)]
            elif r < 0.36 and depth < 2:
                out.append(("ret", self.expr(defined, 2)))
                return out, None
            elif r < 0.42 and depth > 0:
                x = nvars[0]
                nvars[0] += 1
                seqs = [y for y in defined if self.seqish.get(y)]
                rr = rng.random()
                if seqs and rr < 0.55:
                    it = ("var", rng.choice(seqs))
                elif rr < 0.9:
                    it = (rng.choice(["tup", "lst"]), [self.expr(defined, 1) for _ in range(rng.choice([0, 1, 2, 2, 3]))])
                else:
                    it = self.expr(defined, 2)
                self.seqish[x] = False
                self.numish[x] = False
                inner = defined + [x]
                if rng.random() < 0.8:
                    # a simple body: assignments / unpackings without conditional expressions
                    body = []
                    for _ in range(rng.choice([1, 1, 2, 3])):
                        y = rng.choice([v for v in inner if v != x]) if rng.random() < 0.6 else nvars[0]
                        if y == nvars[0]:
                            nvars[0] += 1
                        e = self.expr_noite(inner, 2)
                        body.append(("asg", y, e))
                        self.numish[y] = e[0] == "add" or (e[0] == "lit" and e[1][0] in ("int", "str", "bool"))
                        self.seqish[y] = e[0] in ("tup", "lst")
                        if y not in inner:
                            inner.append(y)
                else:
                    body, _ = self.block(inner, nvars, budget, depth - 1)
                    body = [b for b in body if b[0] != "ret"] or [("asg", x, ("var", x))]
                out.append(("for", x, it, body))
                # names first bound in the loop (and the loop variable) are only possibly bound afterwards
            elif r < 0.46 and [x for x in defined if self.numish.get(x)]:
                x = rng.choice([x for x in defined if self.numish.get(x)])
                out.append(("aug", x, self.addend(defined, 1)))
            elif r < 0.5:
                n = rng.choice([1, 2, 2, 3])
                xs = []
                for _ in range(n):
                    x = rng.choice(defined) if rng.random() < 0.3 else nvars[0]
                    if x == nvars[0]:
                        nvars[0] += 1
                    xs.append(x)
                seqs = [x for x in defined if self.seqish.get(x)]
                rr = rng.random()
                if seqs and rr < 0.5:
                    e = ("var", rng.choice(seqs))
                elif rr < 0.8:
                    e = (rng.choice(["tup", "lst"]), [self.expr(defined, 2) for _ in range(n if rng.random() < 0.8 else rng.choice([0, 1, 2, 3]))])
                elif rr < 0.9:
                    e = ("call", rng.choice([2, 3]), [("lit", ("int", 0))] * (1 if rr < 0.85 else 2))
                    e = ("call", 2, [("lit", ("int", 0))]) if rr < 0.85 else ("call", 3, [("lit", ("int", 0)), ("lit", ("int", 0))])
                else:
                    e = self.expr(defined, 2)
                out.append(("unp", xs, e))
                for x in xs:
                    self.seqish[x] = False
                    self.numish[x] = False
                    if x not in defined:
                        defined.append(x)
            else:
                x = rng.choice(defined) if rng.random() < 0.4 else nvars[0]
                if x == nvars[0]:
                    nvars[0] += 1
                e = self.expr(defined, 3)
                out.append(("asg", x, e))
                self.numish[x] = e[0] == "add" or (e[0] == "lit" and e[1][0] in ("int", "str", "bool")) or \
                    (e[0] == "var" and self.numish.get(e[1], False))
                self.seqish[x] = e[0] in ("tup", "lst") or (e[0] == "var" and self.seqish.get(e[1], False)) or \
                    (e[0] == "ite" and any(y[0] in ("tup", "lst") or (y[0] == "var" and self.seqish.get(y[1], False)) for y in e[2:]))
                if x not in defined:
                    defined.append(x)
        return out, defined

    def program(self):
        rng = self.rng
        n = rng.choice([1, 2, 2, 3])
        params = [rng.choice(MINI_TYPES) for _ in range(n)]
        self.seqish = {i: any(m[0] in ("seq", "generic") for m in members(t)) for i, t in enumerate(params)}
        self.numish = {i: all(m in (T(INT), T(STR), T(BOOL)) or (m[0] == "known" and m[1][0] in ("int", "str", "bool")) for m in members(t))
                       for i, t in enumerate(params)}
        nvars = [n]
        budget = [rng.randint(2, 9)]
        body, d = self.block(list(range(n)), nvars, budget, 2)
        if d is not None:
            body.append(("ret", self.expr(d, 2)))
        return {"params": params, "body": body}


def mini_small_programs():
    """A small exhaustive family: one parameter x of each type, every (test, then-expr, else-expr) shape over it."""
    out = []
    atoms = [("var", 0), ("lit", ("int", 1)), ("lit", ("none",)), ("sub", ("var", 0), 0), ("sub", ("var", 0), -1), ("tup", [("var", 0), ("lit", ("int", 1))])]
    tests = [("isnone", 0), ("notnone", 0), ("not", ("isnone", 0))]
    for t in MINI_TYPES:
        for tst in tests:
            for a in atoms:
                out.append({"params": [t], "body": [("asg", 1, ("ite", tst, a, ("var", 0))), ("ret", ("tup", [("var", 1), ("var", 0)]))]})
            out.append({"params": [t], "body": [("if", tst, [("asg", 1, ("var", 0))], [("asg", 1, ("lit", ("int", 5)))]),
                                              ("asg", 2, ("lst", [("var", 1), ("var", 0)])), ("ret", ("sub", ("var", 2), 0))]})
            out.append({"params": [t], "body": [("if", tst, [("ret", ("var", 0))], []), ("ret", ("var", 0))]})
    return out


def mini_test_src(t):
    if t[0] == "isnone":
        return "v%d is None" % t[1]
    if t[0] == "notnone":
        return "v%d is not None" % t[1]
    return "not (%s)" % mini_test_src(t[1])


def mini_expr_src(e, path, instr):
    k = e[0]
    if k == "lit":
        s = obj_src(e[1])
        if s.startswith("-"):
            s = "(%s)" % s
    elif k == "var":
        s = "v%d" % e[1]
    elif k in ("tup", "lst"):
        parts = [mini_expr_src(x, path + [j], instr) for j, x in enumerate(e[1])]
        s = ("(%s%s)" % (", ".join(parts), "," if len(parts) == 1 else "")) if k == "tup" else "[%s]" % ", ".join(parts)
    elif k == "sub":
        s = "%s[%d]" % (mini_expr_src(e[1], path + [0], instr), e[2])
    elif k == "call":
        s = "%s(%s)" % (MINI_HELPERS[e[1]][0], ", ".join(mini_expr_src(x, path + [j], instr) for j, x in enumerate(e[2])))
    elif k == "add":
        s = "(%s + %s)" % (mini_expr_src(e[1], path + [0], instr), mini_expr_src(e[2], path + [1], instr))
    else:
        s = "(%s if %s else %s)" % (mini_expr_src(e[2], path + [1], instr), mini_test_src(e[1]), mini_expr_src(e[3], path + [2], instr))
    if instr:
        return "__rec(%r, %s)" % (".".join(map(str, path)), s)
    return s


def mini_block_src(stmts, path, ind, instr, out):
    p = "    " * ind
    if not stmts:
        out.append(p + "pass")
    for i, s in enumerate(stmts):
        sp = path + [i]
        if s[0] == "asg":
            out.append("%sv%d = %s" % (p, s[1], mini_expr_src(s[2], sp + [0], instr)))
        elif s[0] == "ret":
            out.append("%sreturn %s" % (p, mini_expr_src(s[1], sp + [0], instr)))
        elif s[0] == "unp":
            out.append("%s%s, = %s" % (p, ", ".join("v%d" % x for x in s[1]), mini_expr_src(s[2], sp + [0], instr)))
        elif s[0] == "aug":
            out.append("%sv%d += %s" % (p, s[1], mini_expr_src(s[2], sp + [0], instr)))
        elif s[0] == "for":
            out.append("%sfor v%d in %s:" % (p, s[1], mini_expr_src(s[2], sp + [0], instr)))
            mini_block_src(s[3], sp + [1], ind + 1, instr, out)
        else:
            out.append("%sif %s:" % (p, mini_test_src(s[1])))
            mini_block_src(s[2], sp + [1], ind + 1, instr, out)
            if s[3]:
                out.append(p + "else:")
                mini_block_src(s[3], sp + [2], ind + 1, instr, out)


def mini_src(prog, name, instr=False):
    head = "def %s(%s) -> object:" % (name, ", ".join("v%d: %s" % (i, ty_src(t)) for i, t in enumerate(prog["params"])))
    out = [head]
    mini_block_src(prog["body"], [], 1, instr, out)
    return "\n".join(out)


def mini_sexp(prog):
    def tst(t):
        return "(%s %d)" % (t[0], t[1]) if t[0] != "not" else "(not %s)" % tst(t[1])

    def ex(e):
        k = e[0]
        if k == "lit":
            return "(lit %s)" % V.obj_sexp(e[1])
        if k == "var":
            return "(var %d)" % e[1]
        if k in ("tup", "lst"):
            return "(" + " ".join([k] + [ex(x) for x in e[1]]) + ")"
        if k == "sub":
            return "(sub %s %d)" % (ex(e[1]), e[2])
        if k == "call":
            return "(" + " ".join(["call", str(e[1])] + [ex(x) for x in e[2]]) + ")"
        if k == "add":
            return "(add %s %s)" % (ex(e[1]), ex(e[2]))
        return "(ite %s %s %s)" % (tst(e[1]), ex(e[2]), ex(e[3]))

    def st(s):
        if s[0] == "asg":
            return "(asg %d %s)" % (s[1], ex(s[2]))
        if s[0] == "ret":
            return "(ret %s)" % ex(s[1])
        if s[0] == "unp":
            return "(unp (%s) %s)" % (" ".join(str(x) for x in s[1]), ex(s[2]))
        if s[0] == "aug":
            return "(aug %d %s)" % (s[1], ex(s[2]))
        if s[0] == "for":
            return "(for %d %s (%s))" % (s[1], ex(s[2]), " ".join(st(x) for x in s[3]))
        return "(if %s (%s) (%s))" % (tst(s[1]), " ".join(st(x) for x in s[2]), " ".join(st(x) for x in s[3]))

    return "(prog (%s) (rets %s) %s)" % (" ".join(V.ty_sexp(t) for t in prog["params"]), " ".join(V.ty_sexp(h[2]) for h in MINI_HELPERS),
                                         " ".join(st(s) for s in prog["body"]))


def mini_paths(prog, fn_node):
    """{path string: ast node} for every Expr node of the MiniPy program, by parallel traversal."""
    out = {}

    def ex(e, node, path):
        out[".".join(map(str, path))] = node
        k = e[0]
        if k in ("tup", "lst"):
            for j, (x, n) in enumerate(zip(e[1], node.elts)):
                ex(x, n, path + [j])
        elif k == "sub":
            ex(e[1], node.value, path + [0])
        elif k == "ite":
            ex(e[2], node.body, path + [1])
            ex(e[3], node.orelse, path + [2])
        elif k == "call":
            for j, (x, n) in enumerate(zip(e[2], node.args)):
                ex(x, n, path + [j])
        elif k == "add":
            ex(e[1], node.left, path + [0])
            ex(e[2], node.right, path + [1])

    def blk(stmts, nodes, path):
        for i, (s, n) in enumerate(zip(stmts, nodes)):
            sp = path + [i]
            if s[0] == "asg":
                ex(s[2], n.value, sp + [0])
            elif s[0] == "ret":
                ex(s[1], n.value, sp + [0])
            elif s[0] == "unp":
                ex(s[2], n.value, sp + [0])
            elif s[0] == "aug":
                ex(s[2], n.value, sp + [0])
            elif s[0] == "for":
                ex(s[2], n.iter, sp + [0])
                blk(s[3], n.body, sp + [1])
            else:
                blk(s[2], n.body, sp + [1])
                blk(s[3], n.orelse, sp + [2])

    blk(prog["body"], fn_node.body, [])
    return out


def parse_sexp(s):
    toks = s.replace("(", " ( ").replace(")", " ) ").split()
    pos = 0

    def rd():
        nonlocal pos
        t = toks[pos]
        pos += 1
        if t == "(":
            out = []
            while toks[pos] != ")":
                out.append(rd())
            pos += 1
            return out
        return t

    return rd()


def sexp_to_obj(x):
    if x == "none":
        return ("none",)
    k = x[0]
    if k in ("int", "bool", "flt", "cplx"):
        return (k, int(x[1]))
    if k in ("str", "bytes"):
        return (k, x[1] if len(x) > 1 else "")
    if k == "inst":
        return (k, int(x[1]), int(x[2]))
    if k == "cls":
        return (k, int(x[1]))
    if k == "dict":
        return (k, [sexp_to_obj(y) for y in x[1]], [sexp_to_obj(y) for y in x[2]])
    return (k, [sexp_to_obj(y) for y in x[1:]])


def sexp_to_ty(x):
    if x == "any":
        return ("any",)
    k = x[0]
    if k == "known":
        return (k, sexp_to_obj(x[1]))
    if k in ("typed", "subclass", "tvar"):
        return (k, int(x[1]))
    if k == "newtype":
        return (k, int(x[1]), int(x[2]))
    if k in ("generic", "seq"):
        return (k, int(x[1]), [sexp_to_ty(y) for y in x[2:]])
    if k == "union":
        return (k, [sexp_to_ty(y) for y in x[1:]])
    return (k, sexp_to_ty(x[1]))


def canon_ty(t):
    """Unions as sorted member lists (the member order of a constrained lookup follows the iteration order of a frozenset
    of AST nodes, stacked_scopes.py:1069 — order is C10's subject, not C01's); Annotated wrappers of constraints dropped."""
    k = t[0]
    if k == "union":
        ms = []
        for x in t[1]:
            x = canon_ty(x)
            ms += x[1] if x[0] == "union" else [x]
        out = []
        for m in sorted(ms, key=repr):
            if m not in out:   # identical members: kept or merged depending on object identity of unhashable literals (C14)
                out.append(m)
        return out[0] if len(out) == 1 else ("union", out)
    if k in ("generic", "seq"):
        return (k, t[1], [canon_ty(x) for x in t[2]])
    if k == "many":
        return (k, canon_ty(t[1]))
    if k == "annotated":
        return canon_ty(t[1])
    if k == "known":
        return (k, V.canon_obj(t[1]))
    return t


def mini_stream(ctx, progs, with_model=True):
    """Correspondence infer <-> pyanalyze, eval <-> CPython, mem <-> member, and the property itself on MiniPy programs."""
    rng = ctx.rng
    B = 60
    for b0 in range(0, len(progs), B):
        part = progs[b0:b0 + B]
        names = ["m%d" % i for i in range(len(part))]
        body = "\n".join(mini_src(p, n) for p, n in zip(part, names)) + "\n"
        src = MINI_PRELUDE + body
        try:
            fails, tree, vals = analyse(src)
        except Exception as e:
            ctx.disagree("mini", {"src": src[-600:]}, "EXC:%s" % type(e).__name__, "-")
            continue
        fnodes = {st.name: st for st in tree.body if isinstance(st, ast.FunctionDef)}
        ns = {}
        logs = []
        ibody = "\n".join(mini_src(p, n, instr=True) for p, n in zip(part, names)) + "\n"
        ns = {"__rec": lambda k, v: (logs.append((k, snapshot(v))), v)[1], "__name__": "c01_mini"}
        exec(compile(MINI_PRELUDE + ibody, "<c01-mini>", "exec"), ns)
        lines, meta = [], []
        for p, n in zip(part, names):
            argsets = p.get("argsets") or gen_args(rng, p["params"], ctx.n(3, 4))
            for objs in argsets:
                if "'cls'" in repr(objs):
                    continue  # class objects are subscriptable (dict[0] is a GenericAlias): outside the mini semantics
                if any(k in repr(objs) for k in ("'flt'", "'cplx'", "'inst'")) and ("'add'" in repr(p["body"]) or "'aug'" in repr(p["body"])):
                    continue  # arithmetic on floats / IntEnum members: opaque tokens in the Lean object universe
                if any(k in repr(objs) for k in ("'set'", "'fset'", "'dict'")) and ("'unp'" in repr(p["body"]) or "'for'" in repr(p["body"])):
                    continue  # iteration order of sets / dicts: the Lean semantics fixes the representation order
                lines.append("run %s (args %s)" % (mini_sexp(p), " ".join(V.obj_sexp(V.canon_obj(o)) for o in objs)))
                meta.append((p, n, objs))
        outs = run_driver(lines) if (with_model and lines) else [None] * len(lines)
        mem_lines, mem_meta = [], []
        for (p, n, objs), out in zip(meta, outs):
            case = {"src": mini_src(p, "f"), "args": [repr(V.obj_to_py(o)) for o in objs], "prog": p, "objs": objs}
            ctx.count(1, mini=1)
            paths = mini_paths(p, fnodes[n])
            # implementation: inferred value per node (last check-phase visit)
            impl = {}
            for path, node in paths.items():
                vs = vals.get(id(node)) or ([node.inferred_value] if hasattr(node, "inferred_value") else None)
                if not vs:
                    impl[path] = "unvisited"
                    continue
                try:
                    impl[path] = V.ty_sexp(canon_ty(V.value_to_ty(vs[-1])))
                except V.Unencodable:
                    impl[path] = "unencodable"
                except Exception as e:
                    impl[path] = "EXC:%s" % type(e).__name__
            # CPython: the run
            del logs[:]
            try:
                ret = ns[n](*[V.obj_to_py(o) for o in objs])
                outcome = "ret " + V.obj_sexp(V.canon_obj(V.py_to_obj(ret)))
            except (IndexError, TypeError, KeyError, UnboundLocalError, ValueError):
                outcome = "raised"
            cpy = [(k, V.obj_sexp(V.canon_obj(V.py_to_obj(v)))) for k, v in logs]
            conforms = True
            flags = "-"
            model = None
            if out is not None:
                if out == "bad-op" or " | " not in out:
                    ctx.disagree("mini", case, "driver", out)
                    continue
                parts = dict((seg[0], seg[2:]) for seg in out.split(" | "))
                model = {}
                for ent in parts["I"].split(";"):
                    if ent:
                        k, v = ent.split("=", 1)
                        model[k] = V.ty_sexp(canon_ty(sexp_to_ty(parse_sexp(v))))
                flags = parts["F"]
                ctx.tag("mini_flags_" + flags)
                ctx.corr("mini")
                diff = {k: (impl.get(k), model.get(k)) for k in set(impl) | set(model)
                        if impl.get(k) != model.get(k) and impl.get(k) != "unencodable"}
                if diff and any("(known (list" in str(x) for x in list(impl.values()) + list(model.values())):
                    # an unhashable literal: whether two occurrences merge depends on object identity (C14 `unhashable`),
                    # which the model cannot see
                    ctx.tag("mini_diff_unhashable_literal_identity")
                elif diff and "frag" not in flags:
                    conforms = False
                    ctx.disagree("mini", case, {k: v[0] for k, v in diff.items()}, {k: v[1] for k, v in diff.items()})
                elif diff:
                    ctx.tag("mini_diff_outside_fragment")
                ctx.corr("eval")
                xs = [tuple(ent.split("=", 1)) for ent in parts["X"].split(";") if ent]
                xs = [(k, V.obj_sexp(V.canon_obj(sexp_to_obj(parse_sexp(v))))) for k, v in xs]
                mo = parts["O"]
                if mo.startswith("ret "):
                    mo = "ret " + V.obj_sexp(V.canon_obj(sexp_to_obj(parse_sexp(mo[4:]))))
                if xs != cpy or mo != outcome or parts["A"] != "1":
                    ctx.disagree("eval", case, {"log": cpy, "outcome": outcome}, {"log": xs, "outcome": mo, "argsOk": parts["A"]})
            # the property on this program, with the reference membership
            sz = sum(1 for _ in paths)
            if sz >= 4 and any(s[0] == "if" for s in p["body"]) or "ite" in case["src"]:
                ctx.nontriv(case["src"] + "|" + repr(case["args"]))
            for k, v in logs:
                node = paths[k]
                vs = vals.get(id(node)) or ([node.inferred_value] if hasattr(node, "inferred_value") else None)
                if not vs:
                    continue
                try:
                    ts = [decode(x) for x in vs]
                    ok = _or(xm(v, t) for t in ts)
                except Unenc:
                    continue
                if len(mem_lines) < 400:
                    try:
                        gt = V.value_to_ty(vs[-1])
                        mem_lines.append("mem %s %s" % (V.obj_sexp(V.canon_obj(V.py_to_obj(v))), V.ty_sexp(gt)))
                        mem_meta.append((case, v, gt))
                    except V.Unencodable:
                        pass
                if ok is False and "frag" in flags:
                    # outside the modelled fragment the execution search (stream exec) is the judge, not this stream
                    ctx.tag("mini_failure_outside_fragment")
                    break
                if ok is False:
                    cls = "literalEqMerge" if "literalEqMerge" in flags else ("C03:noneAssign" if "noneReject" in flags else None)
                    if "loopNotFix" in flags and not cross_type_equal(v, ts):
                        cls = "loopCarriedLiteral"
                    if out is None and cross_type_equal(v, ts):
                        cls = "literalEqMerge"   # driver unavailable: the Python reading of the class
                    ctx.candidate({"src": case["src"], "args": case["args"], "node": k, "prog": p, "objs": objs},
                                  "node %s evaluated to %r, which is not in the inferred %s" % (k, v, " / ".join(xshow(t) for t in ts)),
                                  cls=cls, conforms=conforms, stream="mini")
                    break
            if b0 == 0 and len(ctx.samples) < 3:
                ctx.sample({"src": case["src"], "args": case["args"], "inferred": impl, "model": model, "flags": flags, "outcome": outcome})
        if with_model and mem_lines:
            res = run_driver(mem_lines)
            for (case, v, gt), r in zip(mem_meta, res):
                ctx.corr("spec")
                ref = bool(G.member(v, gt))
                if r != ("1" if ref else "0"):
                    ctx.disagree("spec", {"object": repr(v), "type": V.ty_sexp(gt)}, "member=%s" % ref, "mem=%s" % r)


# ------------------------------------------------------------------ classification of exec failures, candidates
def lit_only(t):
    k = t[0]
    if k == "pyknown":
        return True
    if k == "union":
        return bool(t[1]) and all(lit_only(x) for x in t[1])
    if k in ("seq", "setseq"):
        return all(lit_only(m[1] if m[0] == "many" else m) for m in t[2])
    return False


def conforms_to(cls, f):
    """Is the failure the behaviour the class stands for (not merely located in its region)?"""
    ts = f.get("xterms") or []
    val = f.get("pyvalue")
    if cls == "loopCarriedLiteral":
        return bool(ts) and all(lit_only(t) for t in ts)
    if cls == "C02:promote":
        return isinstance(val, int) or isinstance(val, float)  # an int / bool (float for complex) dropped by the negative branch
    if cls == "loopConstraintCycle":
        return bool(f.get("never"))
    if cls == "unionMemberConstraint":
        # the class is about the value the variable has when the carrying variable is tested being the one the stored test
        # was made on: a parameter that is reassigned between the two is another matter (a stale constraint)
        return not f.get("var_reassigned")
    if cls == "compositeUnionRoot":
        # the value comes from a union member other than the first one (whose narrowed element type is what was cached)
        return f.get("root_in_first_member") is not True
    if cls == "implicitNoneReturn":
        return val is None
    if cls == "matchAsNested":
        # the element constraints were applied to the subject: what is left is Never, some of the subject's own union members,
        # or the subject narrowed to the class / literal of an element sub-pattern
        def arms(t):
            return [a for u in t[1] for a in arms(u)] if t is not None and t[0] == "union" else [t]
        if f.get("never"):
            return True
        sub = [a for t in (f.get("subj_xterms") or []) for a in arms(t)]
        cs, lits = f.get("masq_subpatterns") or ([], [])

        def from_sub(a):
            if a is None:
                return False
            if a[0] == "pytyped":
                return a[1].__name__ in cs
            return a[0] == "pyknown" and any(type(a[1]) is type(l) and a[1] == l for l in lits)
        return bool(ts) and None not in sub and all(a in sub or from_sub(a) for t in ts for a in arms(t))
    if cls == "setDisplayOrder":
        # only the positions are wrong: every element belongs to some member of the inferred form
        def members_of(t):
            return [m[1] if m[0] == "many" else m for m in t[2]] if t[0] == "seq" else []
        ms = [m for t in ts for u in (t[1] if t[0] == "union" else [t]) for m in members_of(u)]
        return all(_or(xm(x, m) for m in ms) is not False for x in val)
    return True


def access_path(node):
    """(root name, keys) of a chain of literal subscripts / attributes over a name; None if it is not one."""
    keys = []
    while isinstance(node, (ast.Subscript, ast.Attribute)):
        if isinstance(node, ast.Attribute):
            keys.append(node.attr)
        elif isinstance(node.slice, ast.Constant):
            keys.append(node.slice.value)
        else:
            return None
        node = node.value
    if isinstance(node, ast.Name):
        return node.id, tuple(reversed(keys))
    return None


def composite_facts(fnode, node):
    """(inLoop, staleParent, joinReset) for a failing read `node` of a composite (or of the root name)."""
    ap = access_path(node)
    if ap is None:
        return None
    root, F = ap
    stores = []   # (statement, path) of every assignment to root or to one of its composites
    for st in ast.walk(fnode):
        if isinstance(st, (ast.Assign, ast.AugAssign, ast.AnnAssign)):
            for tg in (st.targets if isinstance(st, ast.Assign) else [st.target]):
                tp = access_path(tg)
                if tp is not None and tp[0] == root:
                    stores.append((st, tp[1]))
    if not any(len(pth) > 0 for _, pth in stores) and not F:
        return None   # a plain name in a function without composites: not this stream's business

    def inside(x, block):
        return any(n is x for b in block for n in ast.walk(b))

    def mentions_root_test(lp):
        for n in ast.walk(lp):
            if isinstance(n, (ast.If, ast.While, ast.IfExp, ast.Assert)) and root in _reads(n.test):
                return True
        return False

    in_loop = False
    for lp in ast.walk(fnode):
        if isinstance(lp, (ast.For, ast.While)):
            effect = any(inside(st, [lp]) for st, _ in stores) or mentions_root_test(lp)
            if effect and (inside(node, [lp]) or lp.end_lineno < node.lineno):
                in_loop = True
    stale = any(len(pth) > len(F) and pth[:len(F)] == F and st.lineno <= node.lineno for st, pth in stores)
    join_reset = False
    for cond in ast.walk(fnode):
        blocks = []
        if isinstance(cond, ast.If):
            blocks = [cond.body, cond.orelse]
        elif isinstance(cond, ast.Match):
            blocks = [c.body for c in cond.cases]
        elif isinstance(cond, ast.Try):
            blocks = [cond.body] + [h.body for h in cond.handlers] + [cond.orelse]
        for blk in blocks:
            if not blk or inside(node, blk) or cond.lineno > node.lineno:
                continue
            if any(inside(st, blk) and len(pth) < len(F) and F[:len(pth)] == pth for st, pth in stores):
                join_reset = True
    return in_loop, stale, join_reset


def _ann_members(ann):
    """The members of a Union[...] / Optional[...] / `A | B` annotation (the annotation itself otherwise)."""
    if isinstance(ann, ast.BinOp) and isinstance(ann.op, ast.BitOr):
        return _ann_members(ann.left) + _ann_members(ann.right)
    if isinstance(ann, ast.Subscript) and isinstance(ann.value, ast.Name):
        if ann.value.id == "Union":
            elts = ann.slice.elts if isinstance(ann.slice, ast.Tuple) else [ann.slice]
            return [m for e in elts for m in _ann_members(e)]
        if ann.value.id == "Optional":
            return _ann_members(ann.slice) + [ast.Constant(None)]
    return [ann]


def _ann_has(ann, v):
    """Is the Python value a member of the annotation? (the annotation forms of the union-root generator only;
    None = cannot tell)"""
    if isinstance(ann, ast.Constant) and ann.value is None:
        return v is None
    ms = _ann_members(ann)
    if len(ms) > 1:
        rs = [_ann_has(m, v) for m in ms]
        return True if any(r is True for r in rs) else (None if any(r is None for r in rs) else False)
    if isinstance(ann, ast.Name):
        cls = {"int": int, "str": str, "bool": bool, "object": object, "float": float}.get(ann.id)
        if cls is None:
            return None
        return isinstance(v, cls) and not (cls is int and isinstance(v, bool))
    if isinstance(ann, ast.Subscript) and isinstance(ann.value, ast.Name):
        head = ann.value.id.lower()
        elts = ann.slice.elts if isinstance(ann.slice, ast.Tuple) else [ann.slice]
        if head == "list":
            return _and_all([isinstance(v, list)] + [_ann_has(elts[0], x) for x in (v if isinstance(v, list) else [])])
        if head == "dict":
            if not isinstance(v, dict):
                return False
            return _and_all([_ann_has(elts[0], k) for k in v] + [_ann_has(elts[1], x) for x in v.values()])
        if head == "tuple":
            if not isinstance(v, tuple):
                return False
            if len(elts) == 2 and isinstance(elts[1], ast.Constant) and elts[1].value is Ellipsis:
                return _and_all([_ann_has(elts[0], x) for x in v])
            if len(elts) != len(v):
                return False
            return _and_all([_ann_has(e, x) for e, x in zip(elts, v)])
    return None


def _and_all(rs):
    return False if any(r is False for r in rs) else (None if any(r is None for r in rs) else True)


def union_root_facts(fnode, node, f):
    """(unionRoot, narrowedByTest) for a failing subscript read `t[k]...`; sets f["root_in_first_member"]."""
    if not isinstance(node, ast.Subscript):
        return None
    base = node
    while isinstance(base, (ast.Subscript, ast.Attribute)):
        base = base.value
    if not isinstance(base, ast.Name):
        return None
    root = base.id          # the key may be any literal, a slice of literals included (`p[1:2]` is a composite too)
    text = ast.unparse(node)
    params = [a.arg for a in fnode.args.args]
    union_root = False
    reassigned = any(isinstance(st, ast.Assign) and any(isinstance(t, ast.Name) and t.id == root for t in st.targets)
                     for st in ast.walk(fnode))
    if root in params and not reassigned:
        ann = fnode.args.args[params.index(root)].annotation
        ms = [m for m in _ann_members(ann) if isinstance(m, ast.Subscript)] if ann is not None else []
        union_root = len(ms) >= 2
        if union_root and f.get("fn") == fnode.name and f.get("args") is not None:
            try:
                val = V.obj_to_py(f["args"][params.index(root)])
                f["root_in_first_member"] = _ann_has(_ann_members(ann)[0], val)
            except Exception:
                pass
    else:
        for st in ast.walk(fnode):
            if isinstance(st, ast.Assign) and any(isinstance(t, ast.Name) and t.id == root for t in st.targets) and \
                    isinstance(st.value, ast.IfExp):
                union_root = True
    if not union_root:
        # the root name itself was narrowed to a union (`p != 'a' or p` leaves `str | Literal['a']`): the same per-member lookup
        union_root = any(t is not None and t[0] == "union" and len(t[1]) >= 2 for t in (f.get("root_xterms") or []))
    narrowed = False
    in_loop = any(isinstance(lp, (ast.For, ast.While)) and any(x is node for x in ast.walk(lp)) for lp in ast.walk(fnode))
    for st in ast.walk(fnode):
        # a test on the composite: the test of a statement / conditional expression, or a non-last operand of and / or
        tests = [st.test] if isinstance(st, (ast.If, ast.While, ast.Assert, ast.IfExp)) else \
            (st.values[:-1] if isinstance(st, ast.BoolOp) else [])
        for test in tests:
            if (st.lineno <= node.lineno or in_loop) and any(
                    isinstance(x, ast.Subscript) and ast.unparse(x) == text for x in ast.walk(test)):
                narrowed = True
    return union_root, narrowed


def _always_leaves(block):
    """Does every path through the block end in return / raise (syntactically)?"""
    for st in block:
        if isinstance(st, (ast.Return, ast.Raise)):
            return True
        if isinstance(st, ast.If) and st.orelse and _always_leaves(st.body) and _always_leaves(st.orelse):
            return True
        if isinstance(st, ast.While) and isinstance(st.test, ast.Constant) and st.test.value is True and \
                not any(isinstance(x, ast.Break) for x in ast.walk(st)):
            return True
        if isinstance(st, ast.Try) and not st.handlers and st.finalbody and _always_leaves(st.finalbody):
            return True
    return False


def classify_requests(failures, fn_src_of):
    """Driver lines for the failures: [(failure index, line, python-mirror answer)]."""
    reqs = []
    for i, f in enumerate(failures):
        if f["kind"] == "arg":
            continue
        src = fn_src_of(f)
        if src is None:
            continue
        fnode, node = find_fail_node(src, f)
        if node is None:
            continue
        if isinstance(node, ast.Name):
            for ma in ast.walk(fnode):
                if isinstance(ma, ast.MatchAs) and ma.name == node.id and ma.pattern is not None and \
                        (isinstance(ma.pattern, (ast.MatchSequence, ast.MatchMapping)) or
                         (isinstance(ma.pattern, ast.MatchOr) and any(isinstance(x, (ast.MatchSequence, ast.MatchMapping)) for x in ast.walk(ma.pattern)))):
                    sub = any(isinstance(x, (ast.MatchValue, ast.MatchSingleton, ast.MatchClass, ast.MatchOr)) for x in ast.walk(ma.pattern))
                    reqs.append((i, "masq 1 %d" % sub, ["matchAsNested"] if sub else []))
                    f["masq_subpatterns"] = (
                        [x.cls.id for x in ast.walk(ma.pattern) if isinstance(x, ast.MatchClass) and isinstance(x.cls, ast.Name)],
                        [x.value.value for x in ast.walk(ma.pattern) if isinstance(x, ast.MatchValue) and isinstance(x.value, ast.Constant)] +
                        [x.value for x in ast.walk(ma.pattern) if isinstance(x, ast.MatchSingleton)])
                    break
        if isinstance(node, ast.Subscript):
            uf = union_root_facts(fnode, node, f)
            if uf is not None and uf[0]:
                reqs.append((i, "curt %d %d" % uf, ["compositeUnionRoot"] if all(uf) else []))
        if isinstance(node, ast.Name):
            # is the failing variable assigned anywhere in the body (parameters: only their reassignments count)?
            n_asg = sum(1 for st in ast.walk(fnode)
                        if isinstance(st, (ast.Assign, ast.AugAssign, ast.AnnAssign, ast.For)) and node.id in _targets(st))
            f["var_reassigned"] = n_asg >= (1 if node.id in [a.arg for a in fnode.args.args] else 2)
        call = node if isinstance(node, ast.Call) else None
        if isinstance(node, ast.Name):
            # a name whose value is the result of a call (the call's own inferred value may be Any with extra metadata,
            # which every object belongs to: the omission then shows at the first narrowing of the name)
            for st in ast.walk(fnode):
                if isinstance(st, ast.Assign) and len(st.targets) == 1 and isinstance(st.targets[0], ast.Name) and \
                        st.targets[0].id == node.id and isinstance(st.value, ast.Call) and st.lineno < node.lineno:
                    call = st.value
        if call is not None and isinstance(call.func, ast.Name):
            callee = call.func.id
            try:
                csrc = fn_src_of({"owner": callee, "fn": callee, "module": f.get("module")})
            except Exception:
                csrc = None
            if csrc:
                cdef = next((st for st in ast.parse(csrc).body if isinstance(st, ast.FunctionDef) and st.name == callee), None)
                if cdef is not None:
                    uf = (cdef.returns is None, not _always_leaves(cdef.body))
                    reqs.append((i, "unret %d %d" % uf, ["implicitNoneReturn"] if all(uf) else []))
        facts = composite_facts(fnode, node) if isinstance(node, (ast.Name, ast.Subscript, ast.Attribute)) else None
        if facts is not None and any(facts):
            mirror = (["compositeInLoop"] if facts[0] else []) + (["compositeStaleParent"] if facts[1] else []) + \
                (["compositeJoinAfterReset"] if facts[2] else [])
            reqs.append((i, "comp %d %d %d" % facts, mirror))
        v = fail_var(node)
        if v is not None:
            line = "cls " + skeleton(fnode, node, v)
            reqs.append((i, line, py_classes(line[4:])))
            if isinstance(node, ast.Subscript):
                in_loop = any(isinstance(lp, (ast.For, ast.While)) and any(n is node for n in ast.walk(lp)) and
                              any(v in _targets(st) for st in ast.walk(lp) if isinstance(st, (ast.Assign, ast.AugAssign, ast.AnnAssign, ast.For)))
                              for lp in ast.walk(fnode))
                reqs.append((i, "subl 1 %d" % in_loop, ["loopCarriedSubscript"] if in_loop else []))
        elif isinstance(node, ast.Call) and isinstance(node.func, ast.Name) and node.func.id in ("list", "tuple"):
            ts = f.get("xterms") or []
            seqform = bool(ts) and all(any(m[0] == "seq" for m in (t[1] if t[0] == "union" else [t])) for t in ts)
            valseq = isinstance(f.get("pyvalue"), (tuple, list))
            reqs.append((i, "conv 1 %d %d" % (seqform, valseq), ["setDisplayOrder"] if (seqform and valseq) else []))
        elif isinstance(node, ast.Call) and isinstance(node.func, ast.Name):
            pts = HELPERS.get(node.func.id, ([], None))[0]
            tops = [t[1] for t in pts if t[0] == "tvar"]
            shared = any(tops.count(i) >= 2 for i in tops)
            ts = f.get("xterms") or []
            seqform = bool(ts) and all(any(m[0] == "seq" for m in (t[1] if t[0] == "union" else [t])) for t in ts)
            valseq = isinstance(f.get("pyvalue"), (tuple, list))
            reqs.append((i, "call %d %d %d" % (shared, seqform, valseq), ["C04:seqLeniency"] if (shared and seqform and valseq) else []))
    return reqs


def classify(ctx, failures, fn_src_of, with_model=True):
    """Sets f['classes'] (driver answer; Python mirror when the driver is unavailable), f['cls'], f['conforms']."""
    reqs = classify_requests(failures, fn_src_of)
    answers = None
    if with_model and reqs:
        answers = run_driver([r[1] for r in reqs])
    for j, (i, line, mirror) in enumerate(reqs):
        f = failures[i]
        if answers is not None:
            ans = [] if answers[j] in ("-", "bad-op") else answers[j].split(",")
            ctx.corr("cls")
            if answers[j] == "bad-op" or ans != (mirror or []):
                ctx.disagree("cls", {"line": line}, mirror, answers[j])
        else:
            ans = mirror or []
        f["classes"] = (ans + f.get("classes", [])) if line.startswith(("subl", "comp", "masq", "curt", "unret")) else (f.get("classes", []) + ans)
        if line.startswith("cls"):
            f["skeleton"] = line
    for f in failures:
        cs = f.get("classes", [])
        good = [c for c in cs if conforms_to(c, f)]
        if good:
            f["cls"], f["conforms"] = good[0], True
        elif cs:
            f["cls"], f["conforms"] = cs[0], False
        else:
            f["cls"], f["conforms"] = None, True


def fn_json(f):
    return {"name": f["name"], "ptypes": f["ptypes"], "ret": f["ret"], "src": f["src"], "num_eq": f.get("num_eq", False)}


def report(ctx, failures, fns_of, shrink_budget):
    """ctx.candidate for every failure; new ones (no class / non-conforming) are shrunk first."""
    for f in failures:
        fns = fns_of(f)
        fn = next((g for g in fns if g["name"] == f["fn"]), None)
        if fn is None:
            continue
        deps = deps_of(fn, fns)
        small = fn
        is_new = f["cls"] is None or not f["conforms"]
        if is_new and shrink_budget[0] > 0:
            shrink_budget[0] -= 1
            want = f["node"]
            try:
                small, deps = shrink(fn, fns, f["args"], lambda fl: bool(fl) and fl[0]["node"] == want, max_checks=ctx.n(120, 250))
            except Exception:
                small = fn
        case = {"fn": small["name"], "args": f["args"], "call": "%s(%s)" % (small["name"], args_text(f["args"])),
                "src": "\n".join(d["src"] for d in deps + [small]), "node": f["node"], "value": f["value"], "inferred": f["inferred"],
                "fns": [fn_json(d) for d in deps + [small]], "skeleton": f.get("skeleton"), "classes": f.get("classes", [])}
        ctx.candidate(case, f["what"], cls=f["cls"], conforms=f["conforms"], stream="exec")


def totuple(x):
    if isinstance(x, list):
        if x and isinstance(x[0], str):
            return tuple(totuple(y) if i else y for i, y in enumerate(x))
        return [totuple(y) for y in x]
    return x


def args_from_json(a):
    return a if isinstance(a, dict) else [totuple(o) for o in a]


# ------------------------------------------------------------------ the COMPOSITE stream: narrowing / stores on x[k1][k2], x.a.b
# pyanalyze keeps narrowed / stored values for "composite variables" (a name followed by literal subscripts / attributes);
# assigning to a prefix must forget every composite below it (stacked_scopes.py FunctionScope.set / _add_composite).
# The functions of this stream mutate their arguments only through the parameter's own name (no aliases): every value
# stored into a container is a fresh display / constructor call or a scalar.
COMPOSITE_KINDS = {
    # name: (root annotation, accessors per level: "k" str key | "i" int index, leaf type)
    "DD": ("dict[str, dict[str, Optional[int]]]", ["k", "k"], "optint"),
    "DDD": ("dict[str, dict[str, dict[str, Optional[int]]]]", ["k", "k", "k"], "optint"),
    "LL": ("list[list[Optional[int]]]", ["i", "i"], "optint"),
    "DL": ("dict[str, list[Union[int, str]]]", ["k", "i"], "intstr"),
    "DLO": ("dict[str, list[Optional[int]]]", ["k", "i"], "optint"),
    "OBJ": ("Top", None, None),
}
OBJ_PATHS = [(("mid",), "Mid"), (("mid", "leaf"), "Leaf"), (("mid", "n"), "optint"), (("mid", "leaf", "v"), "optint"),
             (("mid", "leaf", "w"), "intstr")]


class CompositeGen:
    def __init__(self, rng, name, feats):
        self.rng, self.name, self.feats = rng, name, feats
        self.kind = rng.choice(["DD", "DD", "DDD", "LL", "DL", "DLO", "OBJ", "OBJ"])
        self.counter = 0
        self.focus = None     # the composite the function is about (narrowed most of the time)

    def feat(self, k):
        self.feats["c_" + k] = self.feats.get("c_" + k, 0) + 1

    def leaf_src(self, tag, lit_only=False):
        rng = self.rng
        if tag == "optint":
            return rng.choice(["None", "0", "1", "2", "None"] + ([] if lit_only else ["q", "q"]))
        return rng.choice(["1", "'s'", "0", "''", "2"] + ([] if lit_only else ["w"]))

    def value_src(self, depth, tag=None, lit_only=False):
        """A FRESH value of the type found after `depth` accessors (a display / constructor call, or a scalar)."""
        if self.kind == "OBJ":
            if tag == "Top":
                return "Top(%s)" % self.value_src(1, "Mid", lit_only)
            if tag == "Mid":
                return "Mid(%s, %s)" % (self.value_src(2, "Leaf", lit_only), self.leaf_src("optint", lit_only))
            if tag == "Leaf":
                return "Leaf(%s, %s)" % (self.leaf_src("optint", lit_only), self.leaf_src("intstr", lit_only))
            return self.leaf_src(tag, lit_only)
        _, levels, leaf = COMPOSITE_KINDS[self.kind]
        if depth == len(levels):
            return self.leaf_src(leaf, lit_only)
        if levels[depth] == "k":
            return "{'a': %s, 'b': %s}" % (self.value_src(depth + 1, None, lit_only), self.value_src(depth + 1, None, lit_only))
        return "[%s, %s]" % (self.value_src(depth + 1, None, lit_only), self.value_src(depth + 1, None, lit_only))

    def all_paths(self):
        """[(accessor tuple, type tag)] of every composite of depth 1..n"""
        if self.kind == "OBJ":
            return list(OBJ_PATHS)
        _, levels, leaf = COMPOSITE_KINDS[self.kind]
        out = []

        def go(prefix, d):
            if d == len(levels):
                return
            for key in (("a", "b") if levels[d] == "k" else (0, 1)):
                pth = prefix + (key,)
                out.append((pth, leaf if d + 1 == len(levels) else "node%d" % (d + 1)))
                go(pth, d + 1)
        go((), 0)
        return out

    def path_src(self, path):
        if self.kind == "OBJ":
            return "r" + "".join("." + a for a in path)
        return "r" + "".join("[%r]" % k for k in path)

    def pick(self, leaf_only=False, prefix_of=None):
        paths = self.all_paths()
        if prefix_of is not None:
            cands = [pt for pt in paths if len(pt[0]) < len(prefix_of) and prefix_of[:len(pt[0])] == pt[0]]
            if cands:
                return self.rng.choice(cands)
        if leaf_only:
            paths = [pt for pt in paths if pt[1] in ("optint", "intstr")]
        if self.focus is not None and self.rng.random() < 0.55:
            same = [pt for pt in paths if pt[0] == self.focus]
            if same:
                return same[0]
        return self.rng.choice(paths)

    def fresh(self, p="v"):
        self.counter += 1
        return "%s%d" % (p, self.counter)

    def tag_depth(self, path):
        return len(path)

    def block(self, ind, budget, nest):
        rng = self.rng
        p = "    " * ind
        lines = []
        while budget[0] > 0:
            budget[0] -= 1
            r = rng.random()
            if r < 0.22 and nest > 0:
                path, tag = self.pick(leaf_only=True)
                self.focus = path
                src = self.path_src(path)
                form = rng.choice(["notnone", "notnone", "isint", "eq", "none_return"] if tag == "optint" else ["isint", "isstr", "eq", "isint"])
                self.feat("narrow_" + form + "_d%d" % len(path))
                if form == "none_return":
                    lines += [p + "if %s is None:" % src, p + "    return 0"]
                    continue
                cond = {"notnone": "%s is not None" % src, "isint": "isinstance(%s, int)" % src, "isstr": "isinstance(%s, str)" % src,
                        "eq": "%s == 1" % src}[form]
                lines.append(p + "if %s:" % cond)
                lines += self.block(ind + 1, budget, nest - 1) or [p + "    pass"]
                if rng.random() < 0.3 and budget[0] > 0:
                    lines.append(p + "else:")
                    lines += self.block(ind + 1, budget, nest - 1) or [p + "    pass"]
            elif r < 0.40:
                # store to a composite / reassign a proper prefix (the root included)
                if self.focus is not None and rng.random() < 0.6:
                    if rng.random() < 0.3:
                        self.feat("assign_root")
                        lines.append(p + "r = " + self.value_src(0, "Top"))
                        continue
                    path, tag = self.pick(prefix_of=self.focus)
                    self.feat("assign_prefix_d%d" % len(path))
                else:
                    path, tag = self.pick()
                    self.feat("store_d%d" % len(path))
                lines.append(p + "%s = %s" % (self.path_src(path), self.value_src(len(path), tag)))
            elif r < 0.75:
                path, tag = self.pick()
                self.feat("read_d%d" % len(path))
                lines.append(p + "%s = %s" % (self.fresh(), self.path_src(path)))
            elif r < 0.83 and nest > 0:
                self.feat("for")
                lines.append(p + "for %s in range(2):" % self.fresh("i"))
                lines += self.block(ind + 1, budget, nest - 1) or [p + "    pass"]
            elif r < 0.92 and nest > 0:
                self.feat("ifelse")
                lines.append(p + "if c:")
                lines += self.block(ind + 1, budget, nest - 1) or [p + "    pass"]
                lines.append(p + "else:")
                lines += self.block(ind + 1, budget, nest - 1) or [p + "    pass"]
            else:
                if ind > 1 and rng.random() < 0.5:
                    break
        return lines

    def generate(self):
        rng = self.rng
        ann = COMPOSITE_KINDS[self.kind][0]
        head = "def %s(r: %s, q: Optional[int], w: Union[int, str], c: bool) -> int:" % (self.name, ann)
        body = self.block(1, [rng.randint(4, 10)], 3)
        body.append("    return 0")
        self.feat("kind_" + self.kind)
        argsets = []
        for _ in range(3):
            argsets.append({"src": [self.value_src(0, "Top", lit_only=True), rng.choice(["None", "0", "1", "2"]),
                                    rng.choice(["1", "'s'", "0"]), rng.choice(["True", "False"])]})
        return {"name": self.name, "ptypes": [], "ret": T(INT), "src": "\n".join([head] + body), "num_eq": False}, argsets


def _dct(**kv):
    return ("dict", [("str", k) for k in kv], list(kv.values()))


_OI, _OS = Un(T(INT), NONE_T), Un(T(STR), NONE_T)
_NONE = ("none",)
UNION_ROOTS = [
    # (declared type of the root: a union of containers, literal keys, element kind per member, argument objects)
    (Un(("seq", TUPLE, [_OI]), ("generic", LIST, [_OS])), [0],
     [("tuple", [_NONE]), ("tuple", [("int", 1)]), ("list", [_NONE]), ("list", [("str", "a")]), ("list", [("str", "")])]),
    (Un(("seq", TUPLE, [T(INT), T(INT)]), ("seq", TUPLE, [T(STR), T(STR)])), [0, 1],
     [("tuple", [("int", 1), ("int", 2)]), ("tuple", [("int", 0), ("int", 0)]), ("tuple", [("str", "a"), ("str", "b")]), ("tuple", [("str", ""), ("str", "a")])]),
    (Un(("generic", LIST, [T(INT)]), ("generic", LIST, [T(STR)])), [0],
     [("list", [("int", 1)]), ("list", [("int", 0), ("int", 2)]), ("list", [("str", "a")]), ("list", [("str", ""), ("str", "b")])]),
    (Un(("generic", DICT, [T(STR), _OI]), ("generic", DICT, [T(STR), _OS])), ["a"],
     [_dct(a=("int", 1)), _dct(a=_NONE), _dct(a=("str", "x")), _dct(a=("str", ""), b=_NONE)]),
    (Un(("generic", LIST, [_OS]), ("seq", TUPLE, [_OI, T(STR)])), [0],
     [("list", [("str", "a")]), ("list", [_NONE]), ("tuple", [("int", 1), ("str", "a")]), ("tuple", [_NONE, ("str", "")])]),
    # controls: the members agree on the element type
    (Un(("generic", LIST, [_OI]), ("generic", TUPLE, [_OI])), [0],
     [("list", [("int", 1)]), ("list", [_NONE]), ("tuple", [("int", 0)]), ("tuple", [_NONE, ("int", 1)])]),
    (Un(("seq", TUPLE, [_OI, T(INT)]), ("seq", TUPLE, [_OI, T(STR)])), [0, 1],
     [("tuple", [("int", 1), ("int", 2)]), ("tuple", [_NONE, ("int", 0)]), ("tuple", [("int", 0), ("str", "a")]), ("tuple", [_NONE, ("str", "")])]),
]


class UnionRootGen:
    """A composite `t[k]` over a root that is a UNION of containers, narrowed by a test and read in both branches and
    after the statement (the root is a parameter, or a local assigned a conditional expression of two displays)."""

    def __init__(self, rng, name, feats):
        self.rng, self.name, self.feats = rng, name, feats

    def generate(self):
        rng = self.rng
        ty, keys, objs = rng.choice(UNION_ROOTS)
        key = repr(rng.choice(keys))
        comp = "t[%s]" % key
        test = rng.choice(["%s is not None", "%s is None", "isinstance(%s, int)", "isinstance(%s, str)", "%s == 1", "%s == 'a'",
                           "%s", "not %s", "not isinstance(%s, str)"]) % comp
        self.feats["c_union_root"] = self.feats.get("c_union_root", 0) + 1
        head = "def %s(t: %s, p: Optional[int], q: Optional[str], c: bool) -> int:" % (self.name, ty_src(ty))
        lines = []
        if key == "0" and rng.random() < 0.25:
            # a local union root instead of the parameter
            lines.append("    t = [p] if c else (q,)")
            self.feats["c_union_root_local"] = self.feats.get("c_union_root_local", 0) + 1
        shape = rng.choice(["if", "if", "ret", "ifexp", "assert", "nested"])
        if shape == "if":
            lines += ["    if %s:" % test, "        v1 = %s" % comp, "        v2 = t", "    else:", "        v3 = %s" % comp, "    v4 = %s" % comp]
        elif shape == "ret":
            lines += ["    if %s:" % test, "        v1 = %s" % comp, "        return 1", "    v2 = %s" % comp]
        elif shape == "ifexp":
            lines += ["    v1 = (%s, 0) if %s else (%s, 1)" % (comp, test, comp), "    v2 = %s" % comp]
        elif shape == "assert":
            lines += ["    assert %s" % test, "    v1 = %s" % comp]
        else:
            lines += ["    if c:", "        if %s:" % test, "            v1 = %s" % comp, "        else:", "            v2 = %s" % comp,
                      "        v3 = %s" % comp, "    v4 = %s" % comp]
        lines.append("    return 0")
        argsets = [[o, rng.choice([_NONE, ("int", 1)]), rng.choice([_NONE, ("str", "a")]), ("bool", b)] for o in objs for b in (0, 1)]
        return {"name": self.name, "ptypes": [ty, _OI, _OS, T(BOOL)], "ret": T(INT), "src": "\n".join([head] + lines), "num_eq": False}, argsets


def composite_stream(ctx, stats, feats, on_exec):
    """Returns (failures, modules): functions of the COMPOSITE grammar, judged like the rest."""
    rng = ctx.rng
    n_fns = ctx.n(200, 2000)
    per_mod = 25
    failures, modules = [], {}
    for m in range((n_fns + per_mod - 1) // per_mod):
        fns, args = [], {}
        for i in range(per_mod):
            f, a = CompositeGen(rng, "k%d" % i, feats).generate()
            fns.append(f)
            args[f["name"]] = a
        for i in range(3):
            f, a = UnionRootGen(rng, "u%d" % i, feats).generate()
            fns.append(f)
            args[f["name"]] = a
        try:
            fl, _ = judge_module(fns, args, stats, on_exec)
        except Exception as e:
            ctx.notes.append("composite module %d: %s" % (m, traceback.format_exc()[-600:]))
            ctx.tag("module_crash_" + type(e).__name__)
            continue
        if m == 0 and fns:
            ctx.sample({"composite_function": fns[0]["src"], "arguments": args[fns[0]["name"]][0]["src"]})
        for f in fl:
            f["module"] = id(fns)
            f["stream"] = "composite"
        if fl:
            modules[id(fns)] = fns
        failures += fl
    return failures, modules


# ------------------------------------------------------------------ the MATCH stream: structural pattern matching (patma.py)
def _tup(*xs):
    return ("tuple", list(xs))


_I = lambda n: ("int", n)
_S = lambda z: ("str", z)
_F = lambda i: ("flt", i)
MATCH_SUBJECTS = [
    # (declared type, argument objects)
    (("seq", TUPLE, [T(INT)]), [_tup(_I(1)), _tup(_I(5))]),
    (("seq", TUPLE, [T(INT), T(STR)]), [_tup(_I(1), _S("a")), _tup(_I(2), _S(""))]),
    (("seq", TUPLE, [T(INT), T(STR), T(FLOAT)]), [_tup(_I(1), _S("a"), _F(0)), _tup(_I(2), _S("b"), _F(1))]),
    (("seq", TUPLE, [T(INT), T(INT), T(INT), T(INT)]), [_tup(_I(1), _I(2), _I(3), _I(4)), _tup(_I(0), _I(0), _I(1), _I(1))]),
    (("seq", TUPLE, []), [_tup()]),
    (("generic", TUPLE, [T(INT)]), [_tup(), _tup(_I(1)), _tup(_I(1), _I(2)), _tup(_I(3), _I(1), _I(2)), _tup(_I(1), _I(2), _I(3), _I(4))]),
    (("seq", TUPLE, [T(INT), ("many", T(STR))]), [_tup(_I(1)), _tup(_I(1), _S("a")), _tup(_I(2), _S("a"), _S("b")), _tup(_I(2), _S("a"), _S("b"), _S("c"))]),
    (("seq", TUPLE, [("many", T(INT)), T(STR)]), [_tup(_S("a")), _tup(_I(1), _S("a")), _tup(_I(1), _I(2), _S("b")), _tup(_I(1), _I(2), _I(3), _S("b"))]),
    (("seq", TUPLE, [T(STR), ("many", T(INT)), T(BYTES)]), [_tup(_S("a"), ("bytes", "a")), _tup(_S("a"), _I(1), ("bytes", "")), _tup(_S(""), _I(1), _I(2), ("bytes", "a"))]),
    (Un(("seq", TUPLE, [T(INT)]), ("seq", TUPLE, [T(INT), T(STR)])), [_tup(_I(1)), _tup(_I(1), _S("a")), _tup(_I(2))]),
    (Un(("seq", TUPLE, [T(INT), T(STR)]), ("seq", TUPLE, [T(INT), T(STR), T(FLOAT)]), NONE_T), [("none",), _tup(_I(1), _S("a")), _tup(_I(1), _S("a"), _F(0))]),
    (Un(("seq", TUPLE, [T(INT), T(INT)]), T(INT), T(STR)), [_I(1), _S("a"), _tup(_I(1), _I(2)), _I(2), _S("ab")]),
    (Un(("generic", TUPLE, [T(INT)]), ("generic", LIST, [T(STR)])), [_tup(_I(1), _I(2)), ("list", [_S("a")]), ("list", []), _tup()]),
    (("generic", LIST, [T(INT)]), [("list", []), ("list", [_I(1)]), ("list", [_I(1), _I(2)]), ("list", [_I(1), _I(2), _I(3)])]),
    (("generic", LIST, [Un(T(INT), T(STR))]), [("list", [_I(1), _S("a")]), ("list", [_S("a")]), ("list", [_S("a"), _I(2), _I(1)])]),
    (("generic", SEQUENCE, [T(INT)]), [("list", [_I(1), _I(2)]), _tup(_I(1)), _tup(), ("list", [_I(1), _I(2), _I(3)])]),
    (T(STR), [_S(""), _S("a"), _S("ab")]),
    (Un(T(STR), ("generic", LIST, [T(STR)])), [_S("ab"), ("list", [_S("a"), _S("b")]), ("list", [])]),
    (("generic", DICT, [T(STR), T(INT)]), [("dict", [], []), ("dict", [_S("a")], [_I(1)]), ("dict", [_S("a"), _S("b")], [_I(1), _I(2)])]),
    (("generic", MAPPING, [T(STR), Un(T(INT), NONE_T)]), [("dict", [_S("a")], [("none",)]), ("dict", [_S("a"), _S("b")], [_I(1), ("none",)])]),
    (Un(("generic", DICT, [T(STR), T(INT)]), ("seq", TUPLE, [T(INT), T(INT)]), NONE_T), [("none",), ("dict", [_S("a")], [_I(1)]), _tup(_I(1), _I(2))]),
    (OBJECT_T, [_I(1), _S("a"), _tup(_I(1), _S("a")), ("list", [_I(1)]), ("none",), ("dict", [_S("a")], [_I(1)])]),
]


class MatchGen:
    def __init__(self, rng, name, feats):
        self.rng, self.name, self.feats = rng, name, feats
        self.counter = 0

    def feat(self, k):
        self.feats["m_" + k] = self.feats.get("m_" + k, 0) + 1

    def cap(self):
        self.counter += 1
        return "c%d" % self.counter

    def sub(self, depth, caps, bind=True):
        """a sub-pattern; `caps` collects the capture names it binds"""
        rng = self.rng
        r = rng.random()
        if r < 0.32 and bind:
            c = self.cap()
            caps.append(c)
            return c
        if r < 0.45:
            return "_"
        if r < 0.60:
            return rng.choice(["1", "2", "'a'", "'b'", "None", "0", "''"])
        if r < 0.74:
            cls = rng.choice(["int", "str", "float", "tuple", "list", "bytes"])
            if bind and rng.random() < 0.4:
                c = self.cap()
                caps.append(c)
                return "%s() as %s" % (cls, c) if rng.random() < 0.5 or cls in ("tuple", "list") else "%s(%s)" % (cls, c)
            return cls + "()"
        if r < 0.82:
            return rng.choice(["1 | 2", "int() | str()", "'a' | 'b'", "None | 0", "int() | None"])
        if depth > 0 and r < 0.95:
            return self.seq(depth - 1, caps, bind)
        if depth > 0:
            return self.mapping(depth - 1, caps, bind)
        return "_"

    def seq(self, depth, caps, bind=True):
        rng = self.rng
        n = rng.choice([0, 1, 1, 2, 2, 3])
        star = rng.choice(["none", "first", "middle", "last", "alone", "first", "last"])
        if star == "alone":
            n = 0
        subs = [self.sub(depth, caps, bind) for _ in range(n)]
        if star != "none":
            if bind and rng.random() < 0.7:
                c = self.cap()
                caps.append(c)
                st = "*" + c
            else:
                st = "*_"
            if star == "alone":
                subs = [st]
            elif star == "first":
                subs = [st] + subs
            elif star == "last":
                subs = subs + [st]
            else:
                k = len(subs) // 2 if len(subs) >= 2 else len(subs)
                subs = subs[:k] + [st] + subs[k:]
        self.feat("seq_star_%s_fixed%d" % (star, n))
        if rng.random() < 0.5:
            return "[%s]" % ", ".join(subs)
        return "(%s%s)" % (", ".join(subs), "," if len(subs) == 1 else "")

    def mapping(self, depth, caps, bind=True):
        rng = self.rng
        keys = rng.sample(["a", "b", "z"], rng.choice([0, 1, 1, 2]))
        items = ["%r: %s" % (k, self.sub(depth, caps, bind)) for k in keys]
        if bind and rng.random() < 0.3:
            c = self.cap()
            caps.append(c)
            items.append("**" + c)
        self.feat("mapping")
        return "{%s}" % ", ".join(items)

    def top(self, caps, last):
        rng = self.rng
        r = rng.random()
        if r < 0.62:
            pat = self.seq(2, caps)
        elif r < 0.72:
            pat = self.mapping(1, caps)
        elif r < 0.8:
            # or-pattern of sequence shapes (no bindings: the alternatives would have to bind the same names)
            pat = "%s | %s" % (self.seq(1, [], bind=False), self.seq(1, [], bind=False))
            self.feat("or_of_sequences")
        else:
            mine = []
            pat = self.sub(0, mine)
            if pat in ("_",) or (pat.isidentifier() and not last):
                pat, mine = "int()", []
            caps += mine
        if rng.random() < 0.15:
            c = self.cap()
            caps.append(c)
            pat = "%s as %s" % (pat if "|" not in pat and " as " not in pat else "(%s)" % pat, c)
            self.feat("as_pattern")
        return pat

    def generate(self):
        rng = self.rng
        ty, objs = rng.choice(MATCH_SUBJECTS)
        head = "def %s(s: %s, q: Optional[int], c: bool) -> int:" % (self.name, ty_src(ty))
        for _attempt in range(8):
            self.counter = 0
            lines = ["    match s:"]
            ncases = rng.choice([1, 2, 2, 3, 4])
            for i in range(ncases):
                caps = []
                pat = self.top(caps, last=(i == ncases - 1))
                guard = ""
                if rng.random() < 0.2:
                    guard = rng.choice([" if c", " if q is None", " if q is not None", " if not c"])
                    self.feat("guard")
                lines.append("        case %s%s:" % (pat, guard))
                self.counter += 1
                lines.append("            v%d = s" % self.counter)
                for cc in caps:
                    self.counter += 1
                    lines.append("            v%d = %s" % (self.counter, cc))
                if not caps:
                    lines.append("            pass")
            if rng.random() < 0.4:
                lines.append("        case _:")
                self.counter += 1
                lines.append("            v%d = s" % self.counter)
                self.feat("wildcard_case")
            self.counter += 1
            lines.append("    v%d = s" % self.counter)
            lines.append("    return 0")
            src = "\n".join([head] + lines)
            try:
                compile(PRELUDE_HEAD + src, "<m>", "exec")
                break
            except SyntaxError:
                self.feat("regenerated_after_SyntaxError")
                continue
        else:
            src = head + "\n    return 0"
        argsets = [[o, rng.choice([("none",), _I(1)]), ("bool", rng.choice([0, 1]))] for o in objs]
        return {"name": self.name, "ptypes": [ty, Un(T(INT), NONE_T), T(BOOL)], "ret": T(INT), "src": src, "num_eq": False}, argsets


def match_stream(ctx, stats, feats, on_exec):
    rng = ctx.rng
    n_fns = ctx.n(250, 2500)
    per_mod = 25
    failures, modules = [], {}
    for m in range((n_fns + per_mod - 1) // per_mod):
        fns, args = [], {}
        for i in range(per_mod):
            f, a = MatchGen(rng, "m%d" % i, feats).generate()
            fns.append(f)
            args[f["name"]] = a
        try:
            fl, _ = judge_module(fns, args, stats, on_exec)
        except Exception as e:
            ctx.notes.append("match module %d: %s" % (m, traceback.format_exc()[-600:]))
            ctx.tag("module_crash_" + type(e).__name__)
            continue
        if m == 0 and fns:
            ctx.sample({"match_function": fns[0]["src"]})
        for f in fl:
            f["module"] = id(fns)
            f["stream"] = "match"
        if fl:
            modules[id(fns)] = fns
        failures += fl
    return failures, modules

# ------------------------------------------------------------------ the COND stream: comparison chains in every kind of test
def _lits(*vs):
    return Un(*[K(v) for v in vs])


COND_PARAMS = [
    # (declared type, kind, argument objects); kind: I orderable int, O Optional int, S str, P Optional str, L list[int]
    (_lits(0, 1, 2), "I", [_I(0), _I(1), _I(2)]),
    (_lits(1, 5), "I", [_I(1), _I(5)]),
    (_lits(0, 1), "I", [_I(0), _I(1)]),
    (_lits(1, 2, 3), "I", [_I(1), _I(2), _I(3)]),
    (T(INT), "I", [_I(0), _I(1), _I(2), _I(4)]),
    (Un(T(INT), NONE_T), "O", [("none",), _I(0), _I(1), _I(3)]),
    (Un(K(1), K(2), NONE_T), "O", [("none",), _I(1), _I(2)]),
    (Un(K(0), NONE_T), "O", [("none",), _I(0)]),
    (_lits("a", "b"), "S", [_S("a"), _S("b")]),
    (T(STR), "S", [_S(""), _S("a"), _S("b")]),
    (Un(K("a"), K("b"), NONE_T), "P", [("none",), _S("a"), _S("b")]),
    (("generic", LIST, [T(INT)]), "L", [("list", []), ("list", [_I(1)]), ("list", [_I(1), _I(2)])]),
]
ORDER_OPS = ["<", "<=", ">", ">="]
EQ_OPS = ["==", "!="]
IS_OPS = ["is", "is not"]
IN_OPS = ["in", "not in"]


class CondGen:
    """One function whose tests are comparison chains (1-3 operators, all ten operators) over variables, literals, None,
    len(var), other variables and calls; used in if / elif / else, `not (...)`, while / while-not, conditional
    expressions, asserts, early returns and and/or trees with opaque operands. Every variable is read in every branch
    and after the statement."""

    def __init__(self, rng, name, feats):
        self.rng, self.name, self.feats = rng, name, feats
        self.counter = 0

    def feat(self, k):
        self.feats[k] = self.feats.get(k, 0) + 1

    def vars_of(self, *kinds):
        return [n for n, k in self.vars if k in kinds]

    def operand(self, kind):
        """An operand of the given kind: (source, is a bare variable / literal / other)."""
        rng = self.rng
        r = rng.random()
        if kind == "I":
            vs = self.vars_of("I")
            if vs and r < 0.45:
                return rng.choice(vs)
            if r < 0.75:
                return str(rng.choice([0, 1, 2, 3, 5]))
            ls = self.vars_of("L")
            if ls and r < 0.85:
                self.feat("operand_len")
                return "len(%s)" % rng.choice(ls)
            if vs and r < 0.95:
                self.feat("operand_call")
                return rng.choice(["inc(%s)", "ident(%s)"]) % rng.choice(vs)
            self.feat("operand_call")
            return "zero()"
        if kind == "O":
            vs = self.vars_of("O")
            if vs and r < 0.6:
                return rng.choice(vs)
            self.feat("operand_None")
            return "None"
        if kind == "S":
            vs = self.vars_of("S")
            if vs and r < 0.5:
                return rng.choice(vs)
            if vs and r < 0.6:
                self.feat("operand_call")
                return "ident(%s)" % rng.choice(vs)
            return repr(rng.choice(["a", "b", ""]))
        if kind == "P":
            vs = self.vars_of("P")
            if vs and r < 0.6:
                return rng.choice(vs)
            return "None"
        raise ValueError(kind)

    def container(self, fam):
        rng = self.rng
        ls = self.vars_of("L")
        if fam == "I" and ls and rng.random() < 0.25:
            return rng.choice(ls)
        pool = [0, 1, 2, 3, 5] if fam == "I" else ["a", "b", ""]
        elts = [repr(x) for x in rng.sample(pool, rng.choice([1, 2, 2, 3]))]
        if rng.random() < 0.25:
            elts.append("None")
        form = rng.choice(["tuple", "tuple", "list", "set"])
        if form == "tuple":
            return "(%s%s)" % (", ".join(elts), "," if len(elts) == 1 else "")
        if form == "list":
            return "[%s]" % ", ".join(elts)
        return "{%s}" % ", ".join(elts)

    def chain(self):
        rng = self.rng
        fam = "I" if (rng.random() < 0.75 or not self.vars_of("S", "P")) else "S"
        opt = "O" if fam == "I" else "P"
        n_ops = rng.choice([1, 2, 2, 2, 3, 3])
        left_kind = fam if (rng.random() < 0.7 or not self.vars_of(opt)) else opt
        parts = [self.operand(left_kind)]
        for i in range(n_ops):
            last = i == n_ops - 1
            ops = list(EQ_OPS) * 2 + IS_OPS
            if left_kind == fam:
                ops += ORDER_OPS * 2
            if last:
                ops += IN_OPS
            op = rng.choice(ops)
            if op in ORDER_OPS:
                right_kind = fam
            elif op in IN_OPS:
                parts += [op, self.container(fam)]
                break
            else:
                right_kind = opt if (rng.random() < 0.35) else fam
            right = self.operand(right_kind)
            if op in IS_OPS and right not in ("None",) and not right.isidentifier():
                # `is` against an int / str literal or a call: use None or a variable instead
                cands = self.vars_of(fam, opt)
                right, right_kind = (rng.choice(cands), fam) if cands and rng.random() < 0.5 else ("None", opt)
                if right in self.vars_of(opt):
                    right_kind = opt
            if op in IS_OPS and parts[-1] not in ("None",) and not parts[-1].isidentifier():
                op = "==" if op == "is" else "!="
            parts += [op, right]
            left_kind = right_kind
        self.feat("chain_len_%d" % ((len(parts) - 1) // 2))
        for o in parts[1::2]:
            self.feat("op_" + o.replace(" ", "_"))
        return "%s" % " ".join(parts)

    def opaque(self):
        rng = self.rng
        ls = self.vars_of("L")
        c = ["c", "c", "not c", "zero() == 0", "parse_int('x') is None"]
        if ls:
            c.append("len(%s) > 1" % rng.choice(ls))
        self.feat("opaque_operand")
        return rng.choice(c)

    def cond(self, depth=2):
        rng = self.rng
        r = rng.random()
        if depth == 0 or r < 0.5:
            return self.chain()
        if r < 0.65:
            self.feat("cond_not")
            return "not (%s)" % self.cond(depth - 1)
        op = rng.choice(["and", "or"])
        a = self.cond(depth - 1)
        b = self.opaque() if rng.random() < 0.4 else self.cond(depth - 1)
        if rng.random() < 0.5:
            a, b = b, a
        self.feat("cond_" + op)
        return "(%s %s %s)" % (a, op, b)

    def reads(self, ind):
        self.counter += 1
        return "%sv%d = (%s,)" % (ind, self.counter, ", ".join(n for n, _ in self.vars))

    def update(self, ind):
        """A statement that changes the state (so that loops end): assignment from a literal, a call result, or a break."""
        rng = self.rng
        r = rng.random()
        iv = self.vars_of("I")
        if r < 0.3 or not iv:
            return ind + "break"
        v = rng.choice(iv)
        if r < 0.65:
            return "%s%s = %d" % (ind, v, rng.choice([0, 1, 2, 5]))
        if r < 0.85:
            return "%s%s = inc(%s)" % (ind, v, v)
        ov = self.vars_of("O")
        if ov:
            return "%s%s = None" % (ind, rng.choice(ov))
        return ind + "break"

    def statement(self, ind):
        rng = self.rng
        shape = rng.choice(["if", "if", "if", "elif", "ifnot", "while", "whilenot", "ifexp", "assert", "return", "if_in_loop",
                            "stored", "stored"])
        self.feat("shape_" + shape)
        out = []
        i2 = ind + "    "
        if shape == "stored":
            # a narrowing test stored in a variable, the tested variable reassigned on SOME paths, then the stored test used
            x, k = rng.choice([v for v in self.vars if v[1] in "IOSP"])
            lit = {"I": ["0", "1", "7"], "O": ["None", "1", "7"], "S": ["'a'", "'z'", "''"], "P": ["None", "'a'", "'z'"]}[k]
            tests = ["%s is None" % x, "%s is not None" % x, "isinstance(%s, int)" % x, "isinstance(%s, str)" % x,
                     "%s == %s" % (x, rng.choice(lit)), "%s != %s" % (x, rng.choice(lit)), self.chain(), "not (%s)" % self.chain()]
            self.counter += 1
            ok = "ok%d" % self.counter
            out.append("%s%s = %s" % (ind, ok, rng.choice(tests)))
            how = rng.choice(["if", "if", "while", "except", "for", "none"])
            self.feat("stored_reassign_" + how)
            asg = "%s%s = %s" % (i2, x, rng.choice(lit))
            if how == "if":
                out += ["%sif %s:" % (ind, self.opaque()), asg]
            elif how == "while":
                out += ["%swhile %s:" % (ind, self.opaque()), asg, i2 + "break"]
            elif how == "except":
                out += [ind + "try:", i2 + "boom(c)", ind + "except ValueError:", asg]
            elif how == "for":
                ls = self.vars_of("L")
                out += ["%sfor _j in %s:" % (ind, rng.choice(ls) if ls else "range(int(c))"), asg]
            use = rng.choice([ok, "not %s" % ok, "(%s and %s)" % (ok, self.opaque()), "(%s or %s)" % (self.opaque(), ok)])
            if rng.random() < 0.2:
                out += ["%swhile %s:" % (ind, use), self.reads(i2), i2 + "break"]
            else:
                out += ["%sif %s:" % (ind, use), self.reads(i2), ind + "else:", self.reads(i2)]
        elif shape in ("if", "ifnot"):
            c = self.cond()
            out.append("%sif %s:" % (ind, c if shape == "if" else "not (%s)" % c))
            out.append(self.reads(i2))
            out.append(ind + "else:")
            out.append(self.reads(i2))
        elif shape == "elif":
            out.append("%sif %s:" % (ind, self.cond()))
            out.append(self.reads(i2))
            out.append("%selif %s:" % (ind, self.cond()))
            out.append(self.reads(i2))
            out.append(ind + "else:")
            out.append(self.reads(i2))
        elif shape in ("while", "whilenot"):
            c = self.cond(1)
            out.append("%swhile %s:" % (ind, c if shape == "while" else "not (%s)" % c))
            out.append(self.reads(i2))
            out.append(self.update(i2))
            if rng.random() < 0.3:
                out.append(ind + "else:")
                out.append(self.reads(i2))
        elif shape == "ifexp":
            self.counter += 1
            names = ", ".join(n for n, _ in self.vars)
            out.append("%sv%d = ((%s, 0) if %s else (%s, 1))" % (ind, self.counter, names, self.cond(1), names))
        elif shape == "assert":
            out.append("%sassert %s" % (ind, self.cond()))
        elif shape == "return":
            out.append("%sif %s:" % (ind, self.cond()))
            out.append(self.reads(i2))
            out.append(i2 + "return 1")
        else:
            iv = self.vars_of("L")
            out.append("%sfor _i in %s:" % (ind, rng.choice(["(0, 1)", "(0, 1, 2)"] + iv)))
            out.append("%sif %s:" % (i2, self.cond(1)))
            out.append(self.reads(i2 + "    "))
            out.append(self.update(i2 + "    "))
            out.append(i2 + "else:")
            out.append(self.reads(i2 + "    "))
        out.append(self.reads(ind))
        return out

    def generate(self):
        rng = self.rng
        n_par = rng.choice([2, 3, 3, 4])
        chosen = [rng.choice(COND_PARAMS) for _ in range(n_par)]
        if not any(k == "I" for _, k, _ in chosen):
            chosen[0] = rng.choice(COND_PARAMS[:4])
        self.vars = [("p%d" % i, k) for i, (_, k, _) in enumerate(chosen)]
        head = "def %s(%s, c: bool) -> int:" % (self.name, ", ".join("p%d: %s" % (i, ty_src(t)) for i, (t, _, _) in enumerate(chosen)))
        lines = []
        if rng.random() < 0.4:
            # a local whose value is a union of literals
            a, b = rng.sample([0, 1, 2, 5], 2)
            lines.append("    w = %d if c else %d" % (a, b))
            self.vars.append(("w", "I"))
            self.feat("local_from_literals")
        for _ in range(rng.choice([1, 1, 2])):
            lines += self.statement("    ")
        lines.append("    return 0")
        src = "\n".join([head] + lines)
        combos = list(itertools.product(*[objs for _, _, objs in chosen]))
        rng.shuffle(combos)
        argsets = [list(cmb) + [("bool", rng.choice([0, 1]))] for cmb in combos[:16]]
        return {"name": self.name, "ptypes": [t for t, _, _ in chosen] + [T(BOOL)], "ret": T(INT), "src": src, "num_eq": False}, argsets


class UnannotatedGen:
    """An UNANNOTATED module-level helper (some paths return a value, some fall off the end, some use a bare return) and
    an annotated caller that records the result of the call."""

    def __init__(self, rng, k, feats):
        self.rng, self.k, self.feats = rng, k, feats

    def generate(self):
        rng = self.rng
        h, name = "h%d" % self.k, "g%d" % self.k
        lit = lambda: rng.choice(["1", "'a'", "(1, 'a')", "a", "0", "[a]"])
        test = rng.choice(["flag", "a is None", "a == 1", "0 < a < 2", "not flag", "a != 0 != flag", "a in (1, 2)"])
        shape = rng.choice(["falls", "falls", "elif", "bare", "all", "for", "while", "try", "nested"])
        self.feats["unannotated_" + shape] = self.feats.get("unannotated_" + shape, 0) + 1
        b = ["def %s(a, flag):" % h]
        if shape == "falls":
            b += ["    if %s:" % test, "        return %s" % lit()]
        elif shape == "elif":
            b += ["    if %s:" % test, "        return %s" % lit(), "    elif flag:", "        return %s" % lit(), "    else:", "        b = a"]
        elif shape == "bare":
            b += ["    if %s:" % test, "        return %s" % lit(), "    return"]
        elif shape == "all":
            b += ["    if %s:" % test, "        return %s" % lit(), "    else:", "        return %s" % lit()]
        elif shape == "for":
            b += ["    for x in (1, 2):", "        if a == x:", "            return %s" % rng.choice(["x", "1", "'a'"])]
        elif shape == "while":
            b += ["    while %s:" % test, "        return %s" % lit()]
        elif shape == "try":
            b += ["    try:", "        if %s:" % test, "            return %s" % lit(), "    finally:", "        b = a"]
        else:
            b += ["    if flag:", "        if %s:" % test, "            return %s" % lit(), "    else:", "        return %s" % lit()]
        ms = rng.choice([[0, 1, 2], [1, 5], [1, 2, None]])
        c = ["def %s(p0: %s, c: bool) -> int:" % (name, ty_src(_lits(*ms))), "    r = %s(p0, c)" % h, "    v1 = r"]
        if rng.random() < 0.4:
            c += ["    if r is None:", "        v2 = r", "    else:", "        v3 = r"]
        c.append("    return 0")
        helper = {"name": h, "ptypes": [OBJECT_T, OBJECT_T], "ret": OBJECT_T, "src": "\n".join(b), "num_eq": False}
        caller = {"name": name, "ptypes": [_lits(*ms), T(BOOL)], "ret": T(INT), "src": "\n".join(c), "num_eq": False}
        argsets = [[V.py_to_obj(m), ("bool", bb)] for m in ms for bb in (0, 1)]
        return helper, caller, argsets


class StarIterGen:
    """Displays with unpacking of CONDITIONALLY EMPTY containers (`{**base}` with base a union of dict displays incl. `{}`;
    `[*xs]`, `(*xs,)`, `{*xs}` with xs possibly empty), iterated by `for` (directly or through list / tuple / set /
    sorted / enumerate / keys / items), with a variable assigned before the loop, reassigned in the body and read in the
    loop's else and after the loop."""

    def __init__(self, rng, name, feats):
        self.rng, self.name, self.feats = rng, name, feats

    def generate(self):
        rng = self.rng
        kind = rng.choice(["dict", "dict", "dict", "list", "tuple", "set"])
        self.feats["star_" + kind] = self.feats.get("star_" + kind, 0) + 1
        lines = ["def %s(c: bool, b: bool) -> int:" % self.name]
        if kind == "dict":
            full = rng.choice(["{'x': 1}", "{'x': 1, 'y': 2}", "{'x': None}"])
            other = rng.choice(["{}", "{}", "{'z': 3}"])
            lines.append("    base = %s if c else %s" % ((full, other) if rng.random() < 0.5 else (other, full)))
            d = rng.choice(["{**base}", "{**base}", "{**base, **base}", "{**base, **({'w': 0} if b else {})}", "{'k': 0, **base}", "{**{}, **base}"])
        else:
            full = rng.choice(["[1, 2]", "(1,)", "['a']", "[None, 1]"])
            empty = rng.choice(["[]", "()", "[]"])
            lines.append("    base = %s if c else %s" % ((full, empty) if rng.random() < 0.5 else (empty, full)))
            body = rng.choice(["*base", "*base", "*base, *base", "*base, *(base if b else ())", "*[], *base"])
            d = {"list": "[%s]", "tuple": "(%s,)", "set": "{%s}"}[kind] % body
        lines.append("    d = %s" % d)
        it = rng.choice(["d", "d", "d", "d", "d", "d", "list(d)", "tuple(d)", "set(d)", "sorted(d, key=str)", "enumerate(d)"] +
                        (["d.keys()", "d.items()", "d.values()"] if kind == "dict" else ["reversed(list(d))"]))
        init = rng.choice(["None", "0", "'init'"])
        lines.append("    y = %s" % init)
        lines.append("    n = 0")
        lines.append("    for k in %s:" % it)
        lines.append("        y = %s" % rng.choice(["k", "k", "1", "(k, n)"]))
        if rng.random() < 0.3:
            lines.append("        n = inc(n)")
        if rng.random() < 0.2:
            lines += ["        if b:", "            break"]
        if rng.random() < 0.3:
            lines += ["    else:", "        v1 = y"]
        lines += ["    v2 = y", "    v3 = d", "    return 0"]
        fn = {"name": self.name, "ptypes": [T(BOOL), T(BOOL)], "ret": T(INT), "src": "\n".join(lines), "num_eq": False}
        return fn, [[("bool", a), ("bool", bb)] for a in (0, 1) for bb in (0, 1)]


def cond_stream(ctx, stats, feats, on_exec):
    rng = ctx.rng
    n_fns = ctx.n(300, 2000)
    per_mod = 25
    failures, modules = [], {}
    for m in range((n_fns + per_mod - 1) // per_mod):
        fns, args = [], {}
        for i in range(3):
            hf, cf, a = UnannotatedGen(rng, i, feats).generate()
            fns += [hf, cf]
            args[cf["name"]] = a
        for i in range(5):
            f, a = StarIterGen(rng, "s%d" % i, feats).generate()
            fns.append(f)
            args[f["name"]] = a
        for i in range(per_mod):
            f, a = CondGen(rng, "k%d" % i, feats).generate()
            fns.append(f)
            args[f["name"]] = a
        try:
            fl, _ = judge_module(fns, args, stats, on_exec)
        except Exception as e:
            ctx.notes.append("cond module %d: %s" % (m, traceback.format_exc()[-600:]))
            ctx.tag("module_crash_" + type(e).__name__)
            continue
        if m == 0 and fns:
            ctx.sample({"cond_function": fns[11]["src"]})
        for f in fl:
            f["module"] = id(fns)
            f["stream"] = "cond"
        if fl:
            modules[id(fns)] = fns
        failures += fl
    return failures, modules

# ------------------------------------------------------------------ chained comparisons: model (Core/CmpChain.lean) vs pyanalyze / CPython
CHAIN_VARS = [[0, 1, 2], [1, 5], [0, 1], [1, 2, 3], [1, 2, None], [0, None], ["a", "b"], ["a", "b", None], ["", "a"]]
_MIRROR = {"<": ">", "<=": ">=", ">": "<", ">=": "<=", "==": "==", "!=": "!=", "is": "is", "is not": "is not"}
_ORD = {"<": "lt", "<=": "le", ">": "gt", ">=": "ge"}


def _lit_atom(v):
    return "n" if v is None else ("i%d" % v if isinstance(v, int) else "s" + v)


def _atom_lit(a):
    return None if a == "n" else (int(a[1:]) if a[0] == "i" else a[1:])


class ChainGen:
    """`if <test>: reads else: reads` where <test> is a comparison chain (1-3 links, possibly under `not`s) over
    Literal-union parameters, literals, None and opaque operands; with its translation to Core/CmpChain.lean."""

    def __init__(self, rng, name):
        self.rng, self.name = rng, name

    def operand(self, fam):
        """(source, kind, payload): kind v (narrowable variable), l (literal), o (opaque)."""
        rng = self.rng
        r = rng.random()
        vs = [i for i, ms in enumerate(self.vars) if self.fam(ms) == fam]
        if vs and r < 0.45:
            i = rng.choice(vs)
            return "p%d" % i, "v", i
        if r < 0.8:
            v = rng.choice([0, 1, 2, 3, 5] if fam == "I" else ["a", "b", ""])
            return repr(v), "l", v
        if r < 0.86:
            return "None", "l", None
        if fam == "I":
            return rng.choice(["o0", "o1", "inc(o0)", "ident(o1)"] + (["inc(p%d)" % i for i in vs if None not in self.vars[i]][:1])), "o", None
        return rng.choice(["t0", "ident(t0)"]), "o", None

    @staticmethod
    def fam(ms):
        return "S" if any(isinstance(m, str) for m in ms) else "I"

    def can_order(self, a):
        # ordering comparisons raise (and pyanalyze reports them) on None
        return not (a[1] == "l" and a[2] is None) and not (a[1] == "v" and None in self.vars[a[2]])

    def link(self, a, op, b):
        """The model's reading of `a op b` (`_visit_single_compare`)."""
        if op in ("in", "not in"):
            if a[1] == "v":
                return "(a %d (in %s) %d)" % (a[2], " ".join(_lit_atom(x) for x in b[2]), op == "in")
            return "(o)"
        if b[1] == "l":
            var, lit, o = a, b[2], op
        elif a[1] == "l":
            var, lit, o = b, a[2], _MIRROR[op]
        else:
            return "(o)"
        if var[1] != "v":
            return "(o)"
        if o in _ORD:
            return "(a %d (ord %s %s) 1)" % (var[2], _ORD[o], _lit_atom(lit))
        return "(a %d (eq %s) %d)" % (var[2], _lit_atom(lit), o in ("==", "is"))

    def chain(self):
        rng = self.rng
        fam = rng.choice(["I", "I", "I", "S"]) if any(self.fam(ms) == "S" for ms in self.vars) else "I"
        n = rng.choice([1, 2, 2, 2, 3])
        ops_src, links = [], []
        a = self.operand(fam)
        src = a[0]
        for i in range(n):
            ops = ["==", "!="] * 2
            if self.can_order(a):
                ops += ["<", "<=", ">", ">="] * 2
            if i == n - 1 and a[1] != "l":
                ops += ["in", "not in"]
            op = rng.choice(ops)
            if op in ("in", "not in"):
                pool = [0, 1, 2, 3, 5] if fam == "I" else ["a", "b", ""]
                elts = rng.sample(pool, rng.choice([1, 2, 2, 3])) + ([None] if rng.random() < 0.3 else [])
                body = ", ".join(repr(x) for x in elts)
                form = rng.choice(["(%s,)", "[%s]", "{%s}"])
                b = (form % body, "c", elts)
            else:
                b = self.operand(fam)
                while op in _ORD and not self.can_order(b):
                    b = self.operand(fam)
                if op in ("==", "!=") and b[1] == "l" and b[2] is None and rng.random() < 0.7:
                    op = "is" if op == "==" else "is not"
                if op in ("==", "!=") and a[1] == "l" and a[2] is None and rng.random() < 0.5:
                    op = "is" if op == "==" else "is not"
            links.append((a, op, b))
            src += " %s %s" % (op, b[0])
            a = b
        return src, links

    def generate(self):
        rng = self.rng
        self.vars = [rng.choice(CHAIN_VARS) for _ in range(rng.choice([1, 2, 2, 3]))]
        src, links = self.chain()
        model = "(chain %s)" % " ".join(self.link(*l) for l in links)
        for _ in range(rng.choice([0, 0, 0, 1, 1, 2])):
            src, model = "not (%s)" % src, "(not %s)" % model
        names = ", ".join("p%d" % i for i in range(len(self.vars)))
        head = "def %s(%s, o0: int, o1: int, t0: str) -> int:" % (
            self.name, ", ".join("p%d: %s" % (i, ty_src(_lits(*ms))) for i, ms in enumerate(self.vars)))
        text = "\n".join([head, "    if %s:" % src, "        v1 = (%s,)" % names, "    else:", "        v2 = (%s,)" % names, "    return 0"])
        return {"name": self.name, "src": text, "test": src, "model": model, "vars": self.vars, "links": links}


def chain_stream(ctx, with_model=True):
    """Correspondence: the values pyanalyze infers for the variables in both branches of `if <chain test>` vs
    `Test.branches` of Core/CmpChain.lean (stream chain); the value of the test under CPython vs `Test.eval`
    (stream chainEval)."""
    rng = ctx.rng
    n_fns = ctx.n(250, 1200)
    per_mod = 25
    for m in range((n_fns + per_mod - 1) // per_mod):
        cases = [ChainGen(rng, "c%d" % i).generate() for i in range(per_mod)]
        body = "\n".join(c["src"] for c in cases) + "\n"
        src = prelude_for(body) + body
        try:
            fails, tree, vals = analyse(src)
        except Exception as e:
            ctx.tag("chain_module_crash_" + type(e).__name__)
            continue
        ranges = fn_ranges(tree)
        bad = set()
        for f in fails:
            for name, (a, b) in ranges.items():
                if f["lineno"] is not None and a <= f["lineno"] <= b:
                    bad.add(name)
        fnodes = {st.name: st for st in tree.body if isinstance(st, ast.FunctionDef)}
        lines, metas = [], []
        for c in cases:
            if c["name"] in bad:
                ctx.tag("chain_fn_with_diagnostics")
                continue
            # pyanalyze: the literals inferred for each variable in the two branches
            ifn = next(st for st in fnodes[c["name"]].body if isinstance(st, ast.If))
            impl = []
            ok = True
            for branch in (ifn.body, ifn.orelse):
                ent = []
                for i, nm in enumerate(branch[0].value.elts):
                    vs = vals.get(id(nm))
                    if not vs:
                        ok = False
                        break
                    try:
                        t = decode(vs[-1])
                    except Unenc:
                        ok = False
                        break
                    ms = t[1] if t[0] == "union" else [t]
                    if any(x[0] != "pyknown" for x in ms):
                        ok = False
                        break
                    ent.append(sorted(_lit_atom(x[1]) for x in ms))
                if not ok:
                    break
                impl.append(ent)
            if not ok:
                ctx.tag("chain_not_literal_values")
                continue
            # environments for the run-time reading
            envs = []
            for _ in range(3):
                rho = [rng.choice(ms) for ms in c["vars"]]
                g = {"o0": rng.choice([0, 1, 3]), "o1": rng.choice([0, 1, 2]), "t0": rng.choice(["a", "b"]), "inc": lambda n: n + 1, "ident": lambda x: x}
                g.update({"p%d" % i: v for i, v in enumerate(rho)})
                try:
                    truth = bool(eval(c["test"], dict(g)))
                    om = []
                    for (a, op, b) in c["links"]:
                        try:
                            om.append(bool(eval("%s %s %s" % (a[0], op, b[0]), dict(g))))
                        except TypeError:
                            om.append(False)
                except TypeError:
                    ctx.tag("chain_eval_raises")
                    continue
                envs.append((rho, om, truth, {k: v for k, v in g.items() if not callable(v)}))
            scope = " ".join("(%d %s)" % (i, " ".join(_lit_atom(x) for x in ms)) for i, ms in enumerate(c["vars"]))
            for rho, om, truth, g in (envs or [([ms[0] for ms in c["vars"]], [False] * len(c["links"]), None, {})]):
                lines.append("(chn (scope %s) (test %s) (env %s) (omega %s))" % (
                    scope, c["model"], " ".join("(%d %s)" % (i, _lit_atom(v)) for i, v in enumerate(rho)), " ".join("1" if b else "0" for b in om)))
                metas.append((c, impl, truth, g))
        outs = run_driver(lines) if (with_model and lines) else [None] * len(lines)
        seen = set()
        for (c, impl, truth, g), out in zip(metas, outs):
            ctx.count(1, chain=1)
            if out is None:
                continue
            case = {"src": c["src"], "model": c["model"], "env": g}
            try:
                pp, nn, hh = [x.strip() for x in out.split("|")]
                model = [[sorted(x for x in e.split("=")[1].split(",") if x) for e in part[2:].split(";")] for part in (pp, nn)]
            except Exception:
                ctx.disagree("chain", case, impl, out)
                continue
            if c["name"] not in seen:
                seen.add(c["name"])
                ctx.corr("chain")
                if model[0] != model[1]:
                    ctx.nontriv({"chain": c["test"], "vars": c["vars"]})
                if model != impl:
                    ctx.disagree("chain", case, impl, out)
            if truth is not None:
                ctx.corr("chainEval")
                if hh != "H %d" % truth:
                    ctx.disagree("chainEval", case, truth, out)
        if m == 0 and cases:
            ctx.sample({"chain_function": cases[0]["src"], "chain_model": cases[0]["model"]})


def corpus_entries():
    path = os.path.join(lean.HERE, "corpus", "C01.jsonl")
    out = []
    if os.path.exists(path):
        for l in open(path):
            if l.strip():
                out.append(json.loads(l))
    return out


def load_fns(js):
    return [{"name": f["name"], "ptypes": [totuple(t) for t in f["ptypes"]], "ret": totuple(f["ret"]), "src": f["src"],
             "num_eq": f.get("num_eq", False)} for f in js]


def mini_from_json(p):
    def ex(e):
        k = e[0]
        if k == "lit":
            return ("lit", totuple(e[1]))
        if k == "var":
            return ("var", e[1])
        if k in ("tup", "lst"):
            return (k, [ex(x) for x in e[1]])
        if k == "sub":
            return ("sub", ex(e[1]), e[2])
        if k == "call":
            return ("call", e[1], [ex(x) for x in e[2]])
        if k == "add":
            return ("add", ex(e[1]), ex(e[2]))
        return ("ite", tst(e[1]), ex(e[2]), ex(e[3]))

    def tst(t):
        return (t[0], t[1]) if t[0] != "not" else ("not", tst(t[1]))

    def st(s):
        if s[0] == "asg":
            return ("asg", s[1], ex(s[2]))
        if s[0] == "ret":
            return ("ret", ex(s[1]))
        if s[0] == "unp":
            return ("unp", list(s[1]), ex(s[2]))
        if s[0] == "aug":
            return ("aug", s[1], ex(s[2]))
        if s[0] == "for":
            return ("for", s[1], ex(s[2]), [st(x) for x in s[3]])
        return ("if", tst(s[1]), [st(x) for x in s[2]], [st(x) for x in s[3]])

    out = {"params": [totuple(t) for t in p["params"]], "body": [st(s) for s in p["body"]]}
    if p.get("argsets"):
        out["argsets"] = [[totuple(o) for o in a] for a in p["argsets"]]
    return out


def exec_stream(ctx, with_model=True):
    rng = ctx.rng
    stats, feats = {}, {}
    n_fns = ctx.n(800, 5000)
    n_args = ctx.n(6, 8)
    per_mod = 20
    shrink_budget = [3]
    all_failures = []
    modules = {}

    def on_exec(f, objs, nontriv, exc):
        ctx.count(1, exec=1)
        if nontriv:
            ctx.nontriv("%x|%s" % (hash(f["src"]) & 0xffffffffffff, repr(objs)))

    # the corpus first: minimised witnesses of the known classes and of past disagreements
    for ent in corpus_entries():
        if ent.get("kind") != "exec":
            continue
        fns = load_fns(ent["fns"])
        fl, _ = judge_module(fns, {ent["fn"]: [args_from_json(ent["args"])]}, stats, on_exec)
        ctx.tag("corpus_exec")
        for f in fl:
            f["module"] = id(fns)
        modules[id(fns)] = fns
        all_failures += fl
    for m in range((n_fns + per_mod - 1) // per_mod):
        fns = gen_module(rng, per_mod, feats)
        args = {f["name"]: gen_args(rng, f["ptypes"], n_args, f["num_eq"]) for f in fns}
        try:
            fl, _ = judge_module(fns, args, stats, on_exec)
        except Exception as e:
            ctx.notes.append("module %d: %s" % (m, traceback.format_exc()[-600:]))
            ctx.tag("module_crash_" + type(e).__name__)
            continue
        if m == 0 and fns:
            ctx.sample({"function": fns[0]["src"], "arguments": [repr([V.obj_to_py(o) for o in a]) for a in args.get(fns[0]["name"], [])[:2]]})
        for f in fl:
            f["module"] = id(fns)
        if fl:
            modules[id(fns)] = fns
        all_failures += fl
    cfl, cmods = composite_stream(ctx, stats, feats, on_exec)
    all_failures += cfl
    modules.update(cmods)
    mfl, mmods = match_stream(ctx, stats, feats, on_exec)
    all_failures += mfl
    modules.update(mmods)
    kfl, kmods = cond_stream(ctx, stats, feats, on_exec)
    all_failures += kfl
    modules.update(kmods)
    for k, v in stats.items():
        ctx.tag("x_" + k, v)
    for k, v in feats.items():
        ctx.tag("g_" + k, v)

    def fns_of(f):
        return modules[f["module"]]

    def src_of(f):
        g = next((g for g in fns_of(f) if g["name"] == f["owner"]), None)
        return g["src"] if g else None

    classify(ctx, all_failures, src_of, with_model)
    for f in all_failures:
        ctx.tag("fail_" + str(f["cls"]) + ("" if f["conforms"] else "_nonconforming"))
    # one candidate per (class, function) is enough
    seen, uniq = set(), []
    for f in all_failures:
        key = (f["module"], f["fn"], f["cls"], f["node"])
        if key not in seen:
            seen.add(key)
            uniq.append(f)
    report(ctx, uniq, fns_of, shrink_budget)


def mini_progs(ctx):
    g = MiniGen(ctx.rng)
    progs = [mini_from_json(e["prog"]) for e in corpus_entries() if e.get("kind") == "mini"]
    small = mini_small_programs()
    if not ctx.big():
        small = small[::3]
    return progs + small + [g.program() for _ in range(ctx.n(250, 2000))]


def malformed(ctx):
    bad = ["run (prog) (args)", "cls if:0 [ o", "run (prog ((typed 1)) (asg x (lit (int 1)))) (args (int 1))", "cls zz", "binop 1 1 1", "foo"]
    good = ["cls o u:0 ret", "run (prog ((typed 1)) (ret (var 0))) (args (int 1))"]
    res = run_driver(bad + good)
    for line, r in zip(bad + good, res):
        ctx.corr("malformed")
        ctx.count(1, malformed=1)
        if (r == "bad-op") != (line in bad):
            ctx.disagree("malformed", {"line": line}, "expected %s" % ("bad-op" if line in bad else "a result"), r)


def composite_bounds():
    """(lo, hiOff) of `for i in range(lo, len(varname.attributes) - hiOff)` in FunctionScope._add_composite, read off the
    AST of the live source; raises if the loop no longer has that shape."""
    path = os.path.join(pya.REPO, "pyanalyze", "stacked_scopes.py")
    tree = ast.parse(open(path).read())
    fn = None
    for cls in tree.body:
        if isinstance(cls, ast.ClassDef) and cls.name == "FunctionScope":
            fn = next((n for n in cls.body if isinstance(n, ast.FunctionDef) and n.name == "_add_composite"), None)
    if fn is None:
        raise ValueError("FunctionScope._add_composite not found")
    loops = [n for n in ast.walk(fn) if isinstance(n, ast.For)]
    if len(loops) != 1:
        raise ValueError("_add_composite: expected exactly one for loop")
    it = loops[0].iter
    if not (isinstance(it, ast.Call) and isinstance(it.func, ast.Name) and it.func.id == "range" and len(it.args) == 2
            and isinstance(it.args[0], ast.Constant) and isinstance(it.args[0].value, int)):
        raise ValueError("_add_composite: loop is not range(<int>, <expr>)")
    lo, hi = it.args[0].value, it.args[1]

    def is_len(e):
        return isinstance(e, ast.Call) and isinstance(e.func, ast.Name) and e.func.id == "len" and ast.unparse(e.args[0]) == "varname.attributes"

    if is_len(hi):
        off = 0
    elif isinstance(hi, ast.BinOp) and isinstance(hi.op, ast.Sub) and is_len(hi.left) and isinstance(hi.right, ast.Constant) \
            and isinstance(hi.right.value, int) and hi.right.value >= 0:
        off = hi.right.value
    else:
        raise ValueError("_add_composite: upper bound is not len(varname.attributes) [- k]: " + ast.unparse(hi))
    return lo, off


def translate(ctx):
    tb, changed = V.regenerate_class_table()
    ctx.extra["class_table_regenerated"] = {"changed_on_disk": changed, "classes": len(tb["names"])}
    lo, off = composite_bounds()
    text = ("/-! GENERATED by harness/props/c01.py (translate) from the live /repo tree on every run: the bounds of the loop\n"
            "`for i in range(lo, len(varname.attributes) - hiOff)` in `FunctionScope._add_composite` (pyanalyze/stacked_scopes.py).\n"
            "Do not edit. -/\nnamespace Pya.C01\n\ndef addCompositeLo : Nat := %d\ndef addCompositeHiOff : Nat := %d\n\nend Pya.C01\n" % (lo, off))
    ch = lean.write_if_changed(os.path.join(lean.LEAN, "PyaModel", "Generated", "CompositeBounds.lean"), text)
    ctx.extra["composite_bounds"] = {"lo": lo, "hiOff": off, "changed_on_disk": ch}


def composite_reg_stream(ctx):
    """Correspondence: the prefixes under which the real FunctionScope._add_composite records a composite vs
    `recordedUnder` of Core/Composite.lean (with the regenerated bounds)."""
    from pyanalyze.stacked_scopes import CompositeVariable, FunctionScope, Scope, ScopeType
    from pyanalyze.value import KnownValue
    rng = ctx.rng
    keys = ["a", "b", KnownValue(0), KnownValue("k"), "c"]
    paths = [[i] for i in range(3)] + [[i, j] for i in range(3) for j in range(3)]
    paths += [[rng.randrange(5) for _ in range(rng.choice([3, 3, 4, 5]))] for _ in range(ctx.n(40, 400))]
    outs = run_driver(["creg " + ".".join(map(str, pth)) for pth in paths])
    for pth, out in zip(paths, outs):
        fs = FunctionScope(Scope(ScopeType.module_scope, {}, None))
        cv = CompositeVariable("x", tuple(keys[i] for i in pth))
        fs._add_composite(cv)
        impl = []
        for k, vs in fs.name_to_composites.items():
            if cv in vs:
                impl.append("-" if k == "x" else ".".join(str(keys.index(a)) for a in k.attributes))
        ctx.corr("composite-reg")
        ctx.count(1, composite_reg=1)
        if sorted(impl) != sorted(x for x in out.split(";") if x):
            ctx.disagree("composite-reg", {"composite": "x" + "".join("[%r]" % (keys[i],) for i in pth)}, sorted(impl), out)


def run(ctx):
    import warnings
    warnings.simplefilter("ignore")
    mini_stream(ctx, mini_progs(ctx))
    malformed(ctx)
    composite_reg_stream(ctx)
    chain_stream(ctx)
    exec_stream(ctx)


def run_impl_only(ctx):
    import warnings
    warnings.simplefilter("ignore")
    mini_stream(ctx, mini_progs(ctx), with_model=False)
    exec_stream(ctx, with_model=False)


def replay(ctx, data):
    import warnings
    warnings.simplefilter("ignore")
    case = data["case"] if "case" in data else data["broken"][0]["case"]
    if "fns" in case:
        fns = load_fns(case["fns"])
        stats = {}
        # some inferred values depend on the order in which identity-hashed constraint objects are iterated, which varies
        # from run to run (see compositeUnionRoot): a recorded failure is re-tried a few times before it counts as gone
        for _attempt in range(8):
            fl, src = judge_module(fns, {case["fn"]: [args_from_json(case["args"])]}, stats)
            if fl:
                break
        for f in fl:
            f["module"] = 0
        classify(ctx, fl, lambda f: next((g["src"] for g in fns if g["name"] == f["owner"]), None))
        report(ctx, fl, lambda f: fns, [0])
        print(src[src.index("def " + fns[0]["name"]):] if ("def " + fns[0]["name"]) in src else src)
        print("call:", case.get("call"))
    elif "prog" in case:
        p = mini_from_json(case["prog"])
        if case.get("objs"):
            p["argsets"] = [[totuple(o) for o in case["objs"]]]
        mini_stream(ctx, [p])
    print(json.dumps({"candidates": [{k: c[k] for k in ("what", "class", "conforms")} for c in ctx.candidates],
                      "broken": ctx.broken[:3]}, indent=1, default=str)[:3000])
    # a reproduced failure that is a listed known finding (and conforms) is reported as such, exit 0; anything else exit 1
    from harness import main as _main
    known = {e["class"]: e for e in _main.load_known(ctx.prop) if e.get("status") == "known"}
    new = [c for c in ctx.candidates if not (c["class"] in known and c["conforms"])]
    for c in ctx.candidates:
        if c not in new:
            print("KNOWN-FINDING: property=%s class=%s %s" % (ctx.prop, c["class"], known[c["class"]].get("what", "")[:300]))
    for c in new:
        print("VIOLATION property=%s (replayed) class=%s conforms=%s: %s" % (ctx.prop, c["class"], c["conforms"], c["what"]))
    return 1 if (new or ctx.broken) else 0
