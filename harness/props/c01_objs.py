"""Small user classes with nested attributes for the COMPOSITE stream of C01 (a real module so that pyanalyze's import of
the generated module and the harness's own execution of it share the class objects)."""
from typing import Optional, Union


class Leaf:
    v: Optional[int]
    w: Union[int, str]

    def __init__(self, v: Optional[int], w: Union[int, str]) -> None:
        self.v = v
        self.w = w


class Mid:
    leaf: Leaf
    n: Optional[int]

    def __init__(self, leaf: Leaf, n: Optional[int]) -> None:
        self.leaf = leaf
        self.n = n


class Top:
    mid: Mid

    def __init__(self, mid: Mid) -> None:
        self.mid = mid
