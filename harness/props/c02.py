"""C02 — narrowing never loses the actual value and never widens.

Streams (correspondence, implementation vs Lean model `Core/Narrow.lean`)
  narrow   : constrain_value(V, constraint built exactly as the checker builds it, both polarities)   vs `narrow`
  narrowb  : the same for and / or / not combinations (AndConstraint.make / OrConstraint.make / invert) vs `narrowB`
  flow     : conditions of the full grammar (atoms on x / on y / opaque operands) in if/elif/while/ternary/assert/walrus
             position: types revealed in both branches vs `narrowB` (every member of the model's type must be revealed; the
             revealed type may be wider by the merge of the bool-op subscopes); the module is executed for the search
  match    : `match x: case …` statements through the checker (patma), types revealed in every case body and after the
             statement vs `matchBody` / `matchAfter`; the same module is executed by CPython for the property search
  e2e      : `def f(x: T): if <cond>: reveal_type(x) else: reveal_type(x)` through the checker (inferred Value decoded
             structurally) vs `narrow` / `narrowB`
  bool     : get_boolability(V)                                                                         vs `getBool`
  spec     : Lean `holds`/`condOk`/`truthy`/`objLen`/`mem` vs CPython evaluating the real condition on the real object
Property search on the implementation (oracle: CPython evaluates the condition; reference `member`):
  keeps    : o in V, cond(o) == pol  =>  o in narrowed(pol)          (unit level and end to end)
  widen    : o in narrowed(pol)      =>  o in V or o in tested(cond)
  verdict  : boolability "always true"/"always false"  =>  every member object is truthy / falsy
"""
import ast, enum, itertools, json, os, re

from harness.common import lean, pya, values as V, gen_values as G
from harness.props.c03 import ty_src, obj_src, PRELUDE, subterms, subobjs, totuple, property_silent, ABCS as ABCS_
from harness import universe as U

PROP = "C02"
LEAN_PROP = "PyaModel.Props.C02"
NAMESPACE = "Pya.C02"
LEAN_TARGETS = ["PyaModel.Core.Sexp", "PyaModel.Spec.Mem", "PyaModel.Generated.ClassTable", "PyaModel.Core.Narrow",
                "PyaModel.Spec.NarrowSpec", "PyaModel.Generated.NarrowTables", "PyaModel.Generated.ConstraintSites"]
ANCHORS = [
    ("pyanalyze/stacked_scopes.py", "Constraint.apply_to_value"),
    ("pyanalyze/stacked_scopes.py", "Constraint.invert"),
    ("pyanalyze/stacked_scopes.py", "AndConstraint"),
    ("pyanalyze/stacked_scopes.py", "OrConstraint"),
    ("pyanalyze/stacked_scopes.py", "EquivalentConstraint"),
    ("pyanalyze/stacked_scopes.py", "constrain_value"),
    ("pyanalyze/stacked_scopes.py", "_constrain_value"),
    ("pyanalyze/stacked_scopes.py", "extract_constraints"),
    ("pyanalyze/predicates.py", "is_universally_assignable"),
    ("pyanalyze/predicates.py", "IsAssignablePredicate"),
    ("pyanalyze/predicates.py", "EqualsPredicate"),
    ("pyanalyze/predicates.py", "InPredicate"),
    ("pyanalyze/boolability.py", "get_boolability"),
    ("pyanalyze/boolability.py", "_get_boolability_no_mvv"),
    ("pyanalyze/boolability.py", "_get_type_boolability"),
    ("pyanalyze/boolability.py", "Boolability"),
    ("pyanalyze/value.py", "is_overlapping"),
    ("pyanalyze/value.py", "_deliteral"),
    ("pyanalyze/implementation.py", "_isinstance_impl"),
    ("pyanalyze/implementation.py", "_issubclass_impl"),
    ("pyanalyze/implementation.py", "len_of_value"),
    ("pyanalyze/implementation.py", "len_transformer"),
    ("pyanalyze/name_check_visitor.py", "NameCheckVisitor._constraint_from_compare_op"),
    ("pyanalyze/name_check_visitor.py", "NameCheckVisitor._constraint_from_predicate_provider"),
    ("pyanalyze/name_check_visitor.py", "NameCheckVisitor._visit_possible_constraint"),
    ("pyanalyze/name_check_visitor.py", "NameCheckVisitor.visit_If"),
    ("pyanalyze/name_check_visitor.py", "NameCheckVisitor.visit_BoolOp"),
    ("pyanalyze/name_check_visitor.py", "NameCheckVisitor._visit_single_compare"),
    ("pyanalyze/name_check_visitor.py", "NameCheckVisitor.visit_Match"),
    ("pyanalyze/patma.py", "PatmaVisitor.visit_MatchSingleton"),
    ("pyanalyze/patma.py", "PatmaVisitor.visit_MatchValue"),
    ("pyanalyze/patma.py", "PatmaVisitor.visit_MatchOr"),
    ("pyanalyze/patma.py", "PatmaVisitor.visit_MatchAs"),
    ("pyanalyze/patma.py", "PatmaVisitor.visit_MatchClass"),
    ("pyanalyze/patma.py", "AlwaysMatching"),
]
RULE = (
    "values V: every atom of the vocabulary (classes, literals, type[...], NewType, Never, one-argument generics, tuple forms) "
    "and every two-member union of a fixed atom selection (exhaustive), then seeded random terms of depth <=2 (quick) / <=3 "
    "(thorough); conditions: every kind (isinstance/issubclass with 1-2 classes, is/is not, ==/!=, in/not in over tuple/list/"
    "set/frozenset literals, truthiness, len <op> n, TypeIs, TypeGuard, class pattern, assert_is_instance, assert_is) drawn "
    "near V (classes above/below/beside the classes of V, literals of V and of its members), both polarities; boolean "
    "combinations of 2-3 leaves with not/and/or; objects: the fixed small-object list (scalars, class objects, containers of "
    "<=2 scalars) plus objects generated from V; end to end: the same triples spelled as source where a spelling exists. "
    "every comparison in both operand orders (`len(x) < 2` and `2 < len(x)`, `x == 1` and `1 == x`, `x is None` and `None is x`); "
    "conditions of the full grammar: and/or/not trees of depth <=3 over atoms on x, atoms on a second variable y and opaque "
    "operands that yield no constraint (`flag()`, `a == b`, `a is b`, `a in b`, `isinstance(x, cls_var)`) in if / elif / while / "
    "ternary / assert / walrus position, the generated module really executed on every object of both declared types x both "
    "values of every opaque bit (each variable's object must belong to the type revealed in the branch that ran); "
    "comparison chains with a link that narrows nothing (`None is x is a`, `x == 1 != 1`) among the atoms, comprehension-condition and "
    "assert-message positions; match cases carry guards of the same grammar (atoms on the subject, on a capture `cap`, on another "
    "variable, opaque calls, trees), executed under both values of every opaque bit; "
    "match statements (1-4 cases of singleton / value / class / or / wildcard patterns, bodies falling through or returning) over "
    "subjects mixing ==-equal literals of different types (1/True, 0/False, None, enum members, int/bool/float classes), the "
    "generated module is really executed by CPython on every object of the declared type and the object must belong to the type "
    "revealed in the body that ran and after the statement (singleton patterns are identity tests: no equality exemption). "
    "Excluded per the quantifier: objects on which the test raises, `is` with a non-singleton, ==/in where equality with a "
    "tested literal does not imply identity of type and structure (bool/int, IntEnum/int, set/frozenset), str containers. "
    "non-trivial = the narrowed type differs from V in at least one branch; distinct by (V, cond) text"
)
ASSUMPTIONS = [
    "per-class facts (_get_type_boolability, enum member counts, KNOWN_MUTABLE_TYPES) enter the model through Generated/NarrowTables.lean, class-level assignability through Generated/ClassTable.lean (both regenerated every run)",
    "assignability inside IsAssignablePredicate / EqualsPredicate / InPredicate is the shared model `ca` (Core/Assign.lean), tied to the code by the C03/C04 correspondence; protocol targets in the value-dependent region (generic protocol vs Enum class / literal enum member / class object / type[...] / metaclass, also between the tested types of a conjunction) are searched on the implementation but not compared with the model; an object lost there is classified on the implementation with pyanalyze's own is_overlapping / is_assignable",
    "Enum class objects against generic ABC targets (Iterable[T], Collection[T], ...) are outside the oracle: the object universe has no element structure for them (like str/bytes objects)",
    "TypeIs/TypeGuard functions are trusted to return `o in T`; `is` is compared only with singletons (None, bools, enum members, classes)",
    "id()-based simplifications of AndConstraint.make / OrConstraint.make are not modelled (the harness never reuses a constraint object); union member order and duplicate members are not compared (C10 / C14)",
    "the places where constraints are combined / inverted are scanned from the live source (Generated/ConstraintSites.lean) and must be registered with the stream that reaches them with a NULL operand (Spec/NarrowSites.lean); registered as outside the fragment: check_call (constraints of a call through a union of callables, no_return_unless) and the sub-pattern conjunctions of class / mapping / sequence patterns",
    "revealed types are compared with the model for the fixed flow shapes and for match guards without an atom on the subject; deeper trees / subject guards are evaluated by the checker in the scopes earlier operands left and are judged by execution only",
    "match sequence/mapping patterns, comparison predicates on the variable itself (x < 3: metadata only) and constraints on attributes/subscripts are outside the model",
]
TRUSTED = [
    "Spec/NarrowSpec.lean (holds, condOk, truthy, objLen) and Spec/Mem.lean (mem) are validated on every run against CPython evaluating the real condition on the real object (stream spec)",
]

from pyanalyze import value as PV  # noqa: E402
from pyanalyze.stacked_scopes import (  # noqa: E402
    AndConstraint, Constraint, ConstraintType, NULL_CONSTRAINT, OrConstraint, PredicateProvider, VarnameWithOrigin, constrain_value,
)
from pyanalyze.predicates import EqualsPredicate, InPredicate, IsAssignablePredicate  # noqa: E402
from pyanalyze.boolability import get_boolability, _get_type_boolability  # noqa: E402
from pyanalyze.name_check_visitor import NameCheckVisitor  # noqa: E402
from pyanalyze.implementation import len_of_value, len_transformer  # noqa: E402

# exception classes repaired by a fix commit in /repo: a failing input of such a class is a *new* violation again
FIXED_CLASSES = {"alwaysTrueWrong"}  # /repo c376956 (abstract base classes and protocols are boolable)


def live_cls(names):
    names = [x for x in names if x != "-" and x not in fixed_classes()]
    return names[0] if names else None


VN = VarnameWithOrigin("x")
VNY = VarnameWithOrigin("y")
VNC = VarnameWithOrigin("cap")
OPS = {"eq": (ast.Eq, "=="), "ne": (ast.NotEq, "!="), "lt": (ast.Lt, "<"), "le": (ast.LtE, "<="), "gt": (ast.Gt, ">"),
       "ge": (ast.GtE, ">=")}
ENUMS = [V.CID[U.Color], V.CID[U.IE]]
IE = V.CID[U.IE]


# ------------------------------------------------------------------ tables regenerated from the live tree
def translate(ctx):
    tb, changed = V.regenerate_class_table()
    rows_b, rows_x, counts, mut = [], [], [], []
    for c in V.CLASSES:
        rows_b.append(_get_type_boolability(c).value)
        rows_x.append(_get_type_boolability(c, is_exact=True).value)
        counts.append(len(list(c)) if isinstance(c, type) and issubclass(c, enum.Enum) and c in V.N_INST else 0)
        mut.append(bool(issubclass(c, PV.KNOWN_MUTABLE_TYPES)))
    text = """import PyaModel.Core.Narrow
/-! GENERATED by harness/props/c02.py (translate) from the live /repo tree on every run. Do not edit.
Index = class id of Generated/ClassTable.lean: `_get_type_boolability(c)`, the same with `is_exact=True`
(as `Boolability.value`), the number of members of the Enum classes of the object universe,
`issubclass(c, KNOWN_MUTABLE_TYPES)`. -/
namespace Pya.C02

def liveBool : BoolTable where
  typeBoolL := [%s]
  typeBoolExactL := [%s]
  enumCountL := [%s]
  mutableL := [%s]
  lenRevMirrored := %s
  andValueLeaks := %s

end Pya.C02
""" % (", ".join(map(str, rows_b)), ", ".join(map(str, rows_x)), ", ".join(map(str, counts)),
       ", ".join("true" if m else "false" for m in mut), "true" if lenrev_mirrored() else "false",
       "true" if and_value_leaks() else "false")
    ch2 = lean.write_if_changed(os.path.join(lean.LEAN, "PyaModel", "Generated", "NarrowTables.lean"), text)
    sites = constraint_sites()
    stext = """/-! GENERATED by harness/props/c02.py (translate: AST scan of the live /repo tree) on every run. Do not edit.
Every place in name_check_visitor.py / stacked_scopes.py / patma.py where abstract constraints are combined, inverted,
extracted from a value or handed to a scope: (file, enclosing function, callee, number of calls). -/
namespace Pya.C02

def liveSites : List (String × String × String × Nat) := [
%s]

end Pya.C02
""" % ",\n".join('  ("%s", "%s", "%s", %d)' % k for k in sites)
    ch3 = lean.write_if_changed(os.path.join(lean.LEAN, "PyaModel", "Generated", "ConstraintSites.lean"), stext)
    ctx.extra["constraint_sites"] = {"count": len(sites), "changed_on_disk": ch3}
    ctx.extra["tables_regenerated"] = {"class_table_changed": changed, "narrow_tables_changed": ch2, "classes": len(V.CLASSES)}


SITE_FILES = ["pyanalyze/name_check_visitor.py", "pyanalyze/stacked_scopes.py", "pyanalyze/patma.py"]


def constraint_sites():
    """AST scan of the live source: calls of AndConstraint.make / OrConstraint.make / EquivalentConstraint.make / .invert() /
    extract_constraints / constraint_from_condition / add_constraint, by enclosing function."""
    import collections
    out = collections.Counter()

    def callee(node):
        f = node.func
        if isinstance(f, ast.Attribute):
            if f.attr == "make" and isinstance(f.value, ast.Name) and f.value.id in ("AndConstraint", "OrConstraint", "EquivalentConstraint"):
                return f.value.id + ".make"
            if f.attr in ("invert", "constraint_from_condition", "add_constraint"):
                return f.attr
        if isinstance(f, ast.Name) and f.id == "extract_constraints":
            return f.id
        return None

    def walk(node, qual, file):
        for ch in ast.iter_child_nodes(node):
            q = qual
            if isinstance(ch, (ast.FunctionDef, ast.AsyncFunctionDef, ast.ClassDef)):
                q = (qual + "." if qual else "") + ch.name
            if isinstance(ch, ast.Call):
                c = callee(ch)
                if c:
                    out[(file.split("/")[-1], qual, c)] += 1
            walk(ch, q, file)

    for file in SITE_FILES:
        walk(ast.parse(open(os.path.join(pya.REPO, file)).read()), "", file)
    return [k + (v,) for k, v in sorted(out.items())]


_LENREV = []


def lenrev_mirrored():
    """Behavioural probe of `_visit_single_compare` on the live tree: is `2 < len(x)` narrowed like `len(x) > 2` (operator
    mirrored, True) or like `len(x) < 2` (operator used as written, False: the defect `reversedLenCompare`)?  The answer is
    regenerated into Generated/NarrowTables.lean (`lenRevMirrored`), so the model follows the code."""
    if not _LENREV:
        src = ("from typing import Union\nfrom typing_extensions import reveal_type\n"
               "def f(x: Union[tuple[int], tuple[int, int, int]]) -> None:\n    if 2 < len(x):\n        reveal_type(x)\n")
        _, tree, _ = pya.check_source(src, annotate=True)
        val = None
        for node in ast.walk(tree):
            if isinstance(node, ast.Call) and isinstance(node.func, ast.Name) and node.func.id == "reveal_type":
                val = getattr(node.args[0], "inferred_value", None)
        val = strip_constraint_ext(val) if val is not None else None
        if isinstance(val, PV.SequenceValue) and len(val.members) == 3:
            _LENREV.append(True)
        elif isinstance(val, PV.SequenceValue) and len(val.members) == 1:
            _LENREV.append(False)
        else:
            raise RuntimeError("cannot recognise how `2 < len(x)` is narrowed any more: %r" % (val,))
    return _LENREV[0]


_ANDLEAK = []


def and_value_leaks():
    """Behavioural probe of `visit_BoolOp`: does the value of `p() and (p() or x is None)` still carry the constraint of
    `x is None` on a member value (`not (...)` then narrows x to int: True, the defect `nullAbsorbLeak`), or not (False)?
    Regenerated into Generated/NarrowTables.lean (`andValueLeaks`)."""
    if not _ANDLEAK:
        src = ("from typing import Optional\nfrom typing_extensions import reveal_type\ndef p() -> bool:\n    return False\n"
               "def f(x: Optional[int]) -> None:\n    if not (p() and (p() or x is None)):\n        reveal_type(x)\n")
        _, tree, _ = pya.check_source(src, annotate=True)
        val = None
        for node in ast.walk(tree):
            if isinstance(node, ast.Call) and isinstance(node.func, ast.Name) and node.func.id == "reveal_type":
                val = getattr(node.args[0], "inferred_value", None)
        val = strip_constraint_ext(val) if val is not None else None
        if isinstance(val, PV.MultiValuedValue) and len(val.vals) == 2:
            _ANDLEAK.append(False)
        elif isinstance(val, PV.TypedValue) and val.typ is int:
            _ANDLEAK.append(True)
        else:
            raise RuntimeError("cannot recognise how `not (p() and (p() or x is None))` is narrowed any more: %r" % (val,))
    return _ANDLEAK[0]


def fixed_classes():
    """exception classes repaired in /repo: a failing input of such a class is a new violation again"""
    return FIXED_CLASSES | ({"reversedLenCompare"} if lenrev_mirrored() else set()) \
        | (set() if and_value_leaks() else {"nullAbsorbLeak"})


MIRROR = {"eq": "eq", "ne": "ne", "lt": "gt", "le": "ge", "gt": "lt", "ge": "le"}


# ------------------------------------------------------------------ conditions
# leaf conds: ("isinst", [cids]) ("issub", [cids]) ("is", obj) ("isnot", obj) ("eq", obj) ("ne", obj) ("in", cont) ("notin", cont)
#   ("truthy",) ("len", op, n) ("typeis", ty) ("typeguard", ty) ("mclass", cid) ("ainst", cid) ("ais", obj)
# combinations: ("not", b) ("and", [bs]) ("or", [bs])
#   ("lenrev", op, n) = `n op len(x)` (literal on the left); ("swap", c) = c in ("eq","ne","is","isnot") spelled `l == x`
LEAF = {"isinst", "issub", "is", "isnot", "eq", "ne", "in", "notin", "truthy", "len", "lenrev", "typeis", "typeguard", "mclass", "ainst",
        "ais", "swap"}


def is_leaf(c):
    return c[0] in LEAF


def cond_sexp(c):
    k = c[0]
    if k == "swap":
        return cond_sexp(c[1])   # `l == x` builds the same constraint as `x == l` (EqualsPredicate is symmetric)
    if k == "lenrev":
        return "(lenrev %s %d)" % (c[1], c[2])
    if k in ("isinst", "issub"):
        return "(%s %s)" % (k, " ".join(map(str, c[1])))
    if k in ("is", "isnot", "eq", "ne", "in", "notin", "ais"):
        return "(%s %s)" % (k, V.obj_sexp(V.canon_obj(c[1])))
    if k == "truthy":
        return "truthy"
    if k == "len":
        return "(len %s %d)" % (c[1], c[2])
    if k in ("typeis", "typeguard"):
        return "(%s %s)" % (k, V.ty_sexp(c[1]))
    if k in ("mclass", "ainst"):
        return "(%s %d)" % (k, c[1])
    if k == "chain":
        return cond_sexp(chain_expand(c))
    if k == "other":
        return "(other %s)" % cond_sexp(c[1])
    if k == "cap":
        return "(cap %s)" % cond_sexp(c[1])
    if k == "opq":
        return "(opq %d)" % c[1]
    if k == "not":
        return "(not %s)" % cond_sexp(c[1])
    if k in ("and", "or"):
        return "(%s %s)" % (k, " ".join(cond_sexp(x) for x in c[1]))
    raise ValueError(c)


def leaves(c):
    """the atoms on the narrowed variable"""
    if c[0] == "chain":
        return leaves(chain_expand(c))
    if c[0] in ("other", "opq", "cap"):
        return []
    if c[0] == "swap":
        return [c[1]]
    if is_leaf(c):
        return [c]
    if c[0] == "not":
        return leaves(c[1])
    return [l for x in c[1] for l in leaves(x)]


def build_constraint(c, checker):
    """The constraint object exactly as the checker builds it for the condition (positive branch)."""
    k = c[0]
    if k == "isinst":
        pat = PV.unite_values(*[PV.TypedValue(V.CLASSES[i]) for i in c[1]])
        return Constraint(VN, ConstraintType.predicate, True, IsAssignablePredicate(pat, checker, positive_only=False))
    if k == "issub":
        pat = PV.unite_values(*[PV.SubclassValue(PV.TypedValue(V.CLASSES[i])) for i in c[1]])
        return Constraint(VN, ConstraintType.predicate, True, IsAssignablePredicate(pat, checker, positive_only=False))
    if k in ("is", "isnot"):
        return Constraint(VN, ConstraintType.predicate, k == "is", EqualsPredicate(V.obj_to_py(c[1]), checker, use_is=True))
    if k in ("eq", "ne"):
        return Constraint(VN, ConstraintType.predicate, k == "eq", EqualsPredicate(V.obj_to_py(c[1]), checker))
    if k in ("in", "notin"):
        other = V.obj_to_py(c[1])
        types = {type(v) for v in list(other)}
        ptype = next(iter(types)) if len(types) == 1 else object
        return Constraint(VN, ConstraintType.predicate, k == "in", InPredicate(other, ptype, checker))
    if k == "truthy":
        return Constraint(VN, ConstraintType.is_truthy, True, None)
    if k == "len":
        return NameCheckVisitor._constraint_from_predicate_provider(
            None, PredicateProvider(VN, len_of_value, len_transformer), c[2], OPS[c[1]][0]())
    if k == "lenrev":
        # `_visit_single_compare` passes the operator of `n op len(x)` on as it is, or mirrored (probed on the live tree;
        # the end-to-end stream goes through the real visitor)
        op = MIRROR[c[1]] if lenrev_mirrored() else c[1]
        return NameCheckVisitor._constraint_from_predicate_provider(
            None, PredicateProvider(VN, len_of_value, len_transformer), c[2], OPS[op][0]())
    if k == "swap":
        return build_constraint(c[1], checker)
    if k == "typeis":
        return Constraint(VN, ConstraintType.predicate, True, IsAssignablePredicate(V.ty_to_value(c[1]), checker, positive_only=False))
    if k == "typeguard":
        return Constraint(VN, ConstraintType.is_value_object, True, V.ty_to_value(c[1]))
    if k == "mclass":
        return Constraint(VN, ConstraintType.predicate, True,
                          IsAssignablePredicate(PV.TypedValue(V.CLASSES[c[1]]), checker, positive_only=True))
    if k == "ainst":
        return Constraint(VN, ConstraintType.is_instance, True, V.CLASSES[c[1]])
    if k == "ais":
        return Constraint(VN, ConstraintType.is_value, True, V.obj_to_py(c[1]))
    if k == "chain":
        # visit_Compare: AndConstraint.make of the links' constraints in source order (chain_expand lists them reversed)
        return AndConstraint.make([build_constraint(x, checker) for x in reversed(chain_expand(c)[1])])
    if k == "cap":
        import dataclasses
        return dataclasses.replace(build_constraint(c[1], checker), varname=VNC, inverted=None)   # the same atom on a capture
    if k == "other":
        import dataclasses
        return dataclasses.replace(build_constraint(c[1], checker), varname=VNY, inverted=None)  # the same atom on variable y
    if k == "opq":
        return NULL_CONSTRAINT   # a call / a comparison of two non-literals / isinstance(x, cls_var): no constraint
    if k == "not":
        return build_constraint(c[1], checker).invert()
    if k == "and":
        return AndConstraint.make(reversed([build_constraint(x, checker) for x in c[1]]))
    if k == "or":
        return OrConstraint.make([build_constraint(x, checker) for x in c[1]])
    raise ValueError(c)


def canon_result(t):
    """Narrowed values are compared as sets of members (order: C10; duplicates: C14)."""
    ms = t[1] if t[0] == "union" else [t]
    return sorted({V.ty_sexp(m) for m in ms})


def canon_sexp_result(s):
    """The same canonical form for a model output line (an s-expression)."""
    toks = s.replace("(", " ( ").replace(")", " ) ").split()
    pos = [0]

    def parse():
        if toks[pos[0]] == "(":
            pos[0] += 1
            out = []
            while toks[pos[0]] != ")":
                out.append(parse())
            pos[0] += 1
            return out
        pos[0] += 1
        return toks[pos[0] - 1]

    def show(x):
        return x if isinstance(x, str) else "(" + " ".join(show(y) for y in x) + ")"

    tree = parse()
    if isinstance(tree, list) and tree and tree[0] == "union":
        return sorted({show(x) for x in tree[1:]})
    return [show(tree)]


def impl_narrow(V_ty, c, pol, checker):
    try:
        cons = build_constraint(c, checker)
        if not pol:
            cons = cons.invert()
        if has_other(c):
            # constraints are applied per variable by the scopes; `constrain_value` itself applies whatever it is given
            from pyanalyze.stacked_scopes import _constrain_value
            res = _constrain_value([V.ty_to_value(V_ty)], [k for k in cons.apply() if k.varname == VN])
        else:
            res = constrain_value(V.ty_to_value(V_ty), cons)
        return V.value_to_ty(res)
    except Exception as e:  # noqa: BLE001
        return "EXC:%s" % type(e).__name__


# ------------------------------------------------------------------ the oracle: CPython evaluates the condition
class Undefined(Exception):
    """the property's quantifier does not range over this (condition, object) pair"""


def _eq_safe(o, l):
    """equality with a tested literal implies same type and structure (deep)"""
    try:
        if not (o == l):
            return True
    except Exception:  # noqa: BLE001
        return False
    return _deep_same(o, l)


def _deep_same(a, b):
    if type(a) is not type(b):
        return False
    if isinstance(a, (tuple, list)):
        return len(a) == len(b) and all(_deep_same(x, y) for x, y in zip(a, b))
    if isinstance(a, (set, frozenset)):
        return len(a) == len(b) and all(any(_deep_same(x, y) for y in b) for x in a)
    if isinstance(a, dict):
        return len(a) == len(b) and all(any(_deep_same(k, k2) and _deep_same(v, b[k2]) for k2 in b) for k, v in a.items())
    return a == b


def py_holds(c, o, env=None):
    """Evaluate the real condition on the real object; raises Undefined when the quantifier excludes the pair.
    env = (object of the other variable, opaque bits) for combinations with atoms on `y` / opaque operands."""
    k = c[0]
    try:
        if k == "chain":
            return py_holds(chain_expand(c), o, env)
        if k == "other":
            return py_holds(c[1], env[0])
        if k == "cap":
            return py_holds(c[1], o)
        if k == "opq":
            return bool(env[1][c[1]])
        if k in ("isinst", "mclass", "ainst"):
            cs = tuple(V.CLASSES[i] for i in (c[1] if k == "isinst" else [c[1]]))
            return isinstance(o, cs)
        if k == "issub":
            if not isinstance(o, type):
                raise Undefined()
            return issubclass(o, tuple(V.CLASSES[i] for i in c[1]))
        if k in ("is", "isnot", "ais"):
            l = V.obj_to_py(c[1])
            if not (l is None or isinstance(l, (bool, enum.Enum, type))):
                raise Undefined()
            return (o is l) if k != "isnot" else (o is not l)
        if k in ("eq", "ne"):
            l = V.obj_to_py(c[1])
            if not _eq_safe(o, l):
                raise Undefined()
            return (o == l) if k == "eq" else (o != l)
        if k in ("in", "notin"):
            cont = V.obj_to_py(c[1])
            if not isinstance(cont, (tuple, list, set, frozenset)):
                raise Undefined()
            if not all(_eq_safe(o, l) for l in cont):
                raise Undefined()
            return (o in cont) if k == "in" else (o not in cont)
        if k == "truthy":
            return bool(o)
        if k == "swap":
            kk, l = c[1][0], V.obj_to_py(c[1][1])
            if kk in ("is", "isnot"):
                if not (l is None or isinstance(l, (bool, enum.Enum, type))):
                    raise Undefined()
                return (l is o) if kk == "is" else (l is not o)
            if not _eq_safe(o, l):
                raise Undefined()
            return (l == o) if kk == "eq" else (l != o)
        if k == "lenrev":
            if isinstance(o, type):
                raise Undefined()
            return {"eq": lambda a, b: a == b, "ne": lambda a, b: a != b, "lt": lambda a, b: a < b, "le": lambda a, b: a <= b,
                    "gt": lambda a, b: a > b, "ge": lambda a, b: a >= b}[c[1]](c[2], len(o))
        if k == "len":
            if isinstance(o, type):
                raise Undefined()  # len(EnumClass) is defined through the metaclass; class objects are left out of `len` tests
            return {"eq": lambda a, b: a == b, "ne": lambda a, b: a != b, "lt": lambda a, b: a < b, "le": lambda a, b: a <= b,
                    "gt": lambda a, b: a > b, "ge": lambda a, b: a >= b}[c[1]](len(o), c[2])
        if k in ("typeis", "typeguard"):
            return G.member(o, c[1])
        if k == "not":
            return not py_holds(c[1], o, env)
        if k == "and":
            return all([py_holds(x, o, env) for x in c[1]])  # every operand must be defined (no short-circuit in the spec)
        if k == "or":
            return any([py_holds(x, o, env) for x in c[1]])
    except Undefined:
        raise
    except Exception:  # noqa: BLE001  (TypeError: len() of unsized object, unhashable key, ...)
        raise Undefined()
    raise ValueError(c)


def tested_ty(c):
    k = c[0]
    if k in ("isinst",):
        return ("union", [("typed", i) for i in c[1]])
    if k == "issub":
        return ("union", [("subclass", i) for i in c[1]])
    if k in ("is", "isnot", "eq", "ne", "ais"):
        return ("known", c[1])
    if k in ("in", "notin"):
        return ("union", [("known", x) for x in c[1][1]])
    if k in ("typeis", "typeguard"):
        return c[1]
    if k in ("mclass", "ainst"):
        return ("typed", c[1])
    if k in ("truthy", "len", "lenrev"):
        return ("union", [])
    if k == "swap":
        return tested_ty(c[1])
    if k in ("other", "opq", "cap"):
        return ("union", [])
    if k == "chain":
        return tested_ty(chain_expand(c))
    if k == "not":
        return tested_ty(c[1])
    return ("union", [tested_ty(x) for x in c[1]])


# ------------------------------------------------------------------ generators
ATOM_CLASSES = [0, G.INT, G.BOOL, G.FLOAT, G.COMPLEX, G.STR, G.BYTES, G.NONE, G.TUPLE, G.LIST, G.SET, G.FSET, G.DICT, G.TYPE,
                G.SEQUENCE, G.ITERABLE, G.COLLECTION, G.CONTAINER, G.MAPPING, G.HASHABLE, G.SIZED] + G.USER
LITS = [("int", 0), ("int", 1), ("int", 2), ("bool", 0), ("bool", 1), ("str", ""), ("str", "a"), ("bytes", "a"), ("none",),
        ("inst", V.CID[U.Color], 0), ("inst", V.CID[U.Color], 1), ("inst", IE, 0),
        ("tuple", []), ("tuple", [("int", 1), ("str", "a")]), ("fset", [("int", 1)])]
UNHASHABLE_LITS = [("list", []), ("list", [("int", 1)]), ("set", [("int", 1)]), ("dict", [("str", "a")], [("int", 1)]), ("dict", [], [])]
SINGLETONS = [("none",), ("bool", 0), ("bool", 1), ("inst", V.CID[U.Color], 0), ("inst", V.CID[U.Color], 1), ("inst", IE, 0),
              ("inst", IE, 1), ("cls", G.INT), ("cls", V.CID[U.B])]
SUBCLS = [0, G.INT, G.FLOAT, G.STR, V.CID[U.A], V.CID[U.B], V.CID[U.Cc], V.CID[U.Color]]


def atoms():
    out = [("typed", c) for c in ATOM_CLASSES]
    out += [("known", l) for l in LITS + UNHASHABLE_LITS]
    out += [("subclass", c) for c in SUBCLS]
    out += [("newtype", n, G.NT_CLS[n]) for n in range(3)]
    out += [("union", []), ("any",)]
    out += [("generic", G.LIST, [("typed", G.INT)]), ("generic", G.SEQUENCE, [("typed", G.STR)]),
            ("generic", G.TUPLE, [("typed", G.INT)]), ("generic", G.DICT, [("typed", G.STR), ("typed", G.INT)]),
            ("generic", G.SET, [("typed", G.INT)]), ("generic", G.ITERABLE, [("typed", G.INT)])]
    out += [("seq", G.TUPLE, []), ("seq", G.TUPLE, [("typed", G.INT)]), ("seq", G.TUPLE, [("typed", G.INT), ("typed", G.STR)]),
            ("seq", G.TUPLE, [("typed", G.INT), ("many", ("typed", G.STR))]), ("seq", G.TUPLE, [("many", ("typed", G.INT))]),
            ("seq", G.LIST, [("typed", G.INT)]), ("seq", G.LIST, [])]
    out += [("annotated", ("typed", G.INT)), ("annotated", ("known", ("none",))), ("annotated", ("seq", G.TUPLE, [("typed", G.INT)]))]
    return out


UNION_ATOMS = [("seq", G.TUPLE, [("typed", G.STR), ("typed", G.INT), ("typed", G.INT)]), ("typed", G.INT), ("typed", G.BOOL), ("typed", G.FLOAT), ("typed", G.STR), ("known", ("none",)), ("typed", V.CID[U.A]),
               ("typed", V.CID[U.B]), ("typed", V.CID[U.Cc]), ("typed", V.CID[U.Color]), ("known", ("int", 1)), ("known", ("bool", 1)),
               ("known", ("str", "a")), ("typed", G.LIST), ("seq", G.TUPLE, [("typed", G.INT)]),
               ("seq", G.TUPLE, [("typed", G.INT), ("typed", G.STR)]), ("typed", G.HASHABLE), ("subclass", V.CID[U.A]),
               ("known", ("inst", V.CID[U.Color], 0)), ("typed", 0)]


def small_values():
    out = atoms()
    for i, a in enumerate(UNION_ATOMS):
        for b in UNION_ATOMS[i + 1:]:
            out.append(("union", [a, b]))
    out.append(("union", [("typed", G.INT), ("typed", G.STR), ("known", ("none",))]))
    out.append(("annotated", ("union", [("typed", G.INT), ("known", ("none",))])))
    return [G.norm_term(t) for t in out]


def classes_near(rng, Vt):
    cs = [s[1] for s in subterms(Vt) if s[0] in ("typed", "generic", "seq", "subclass")] + [s[2] for s in subterms(Vt) if s[0] == "newtype"]
    cs += [{"int": G.INT, "bool": G.BOOL, "str": G.STR, "bytes": G.BYTES, "none": G.NONE, "flt": G.FLOAT, "cplx": G.COMPLEX,
            "tuple": G.TUPLE, "list": G.LIST, "set": G.SET, "fset": G.FSET, "dict": G.DICT}.get(s[1][0], 0)
           for s in subterms(Vt) if s[0] == "known" and s[1][0] not in ("inst", "cls")]
    cs += [s[1][1] for s in subterms(Vt) if s[0] == "known" and s[1][0] == "inst"]
    near = set()
    for c in cs:
        for d in ATOM_CLASSES:
            if G._sub(V.CLASSES[d], c) or G._sub(V.CLASSES[c], d):
                near.add(d)
    near = sorted(near) or ATOM_CLASSES
    return near


def literals_near(rng, Vt):
    out = [s[1] for s in subterms(Vt) if s[0] == "known"]
    for _ in range(3):
        out.append(G.gen_obj_for(rng, Vt, depth=2))
    out.append(rng.choice(LITS))
    return out


def no_cross_eq(lits, Vt):
    """IntEnum members compare equal to ints (and the model's == does not know it): keep them apart (quantifier exclusion)."""
    def kinds(objs):
        ks = set()
        for o in objs:
            for x in subobjs(o):
                if x[0] == "inst" and x[1] == IE:
                    ks.add("ie")
                elif x[0] in ("int", "bool", "flt", "cplx"):
                    ks.add("num")
        return ks
    a = kinds(lits)
    b = kinds([s[1] for s in subterms(Vt) if s[0] == "known"])
    return not (("ie" in a and "num" in b) or ("num" in a and "ie" in b) or ("ie" in a and "num" in a))


def gen_leaf(rng, Vt, kinds=None):
    near = classes_near(rng, Vt)
    pick_cls = lambda: rng.choice(near) if rng.random() < 0.75 else rng.choice(ATOM_CLASSES)  # noqa: E731
    k = rng.choice(kinds or ["isinst", "isinst", "isinst", "issub", "is", "isnot", "eq", "ne", "in", "notin", "truthy", "len", "typeis",
                             "typeguard", "mclass", "ainst", "ais"])
    if k in ("isinst", "issub"):
        n = 1 if rng.random() < 0.7 else 2
        return (k, [pick_cls() for _ in range(n)])
    if k in ("is", "isnot", "ais"):
        cands = [l for l in literals_near(rng, Vt) if l[0] in ("none", "bool", "cls") or (l[0] == "inst" and l[1] in ENUMS)]
        c = (k, rng.choice(cands) if cands and rng.random() < 0.7 else rng.choice(SINGLETONS))
        return ("swap", c) if k != "ais" and rng.random() < 0.3 else c
    if k in ("eq", "ne"):
        for _ in range(10):
            l = rng.choice(literals_near(rng, Vt))
            if no_cross_eq([l], Vt):
                return ("swap", (k, l)) if rng.random() < 0.3 else (k, l)
        return (k, ("str", "zz"))
    if k in ("in", "notin"):
        for _ in range(10):
            n = rng.choice([0, 1, 2, 2, 3])
            kind = rng.choice(["tuple", "tuple", "list", "set", "fset"])
            elems = []
            pool = literals_near(rng, Vt)
            for _ in range(n):
                e = rng.choice(pool)
                if kind in ("set", "fset"):
                    try:
                        hash(V.obj_to_py(e))
                    except TypeError:
                        continue
                if not any(V.obj_to_py(e) == V.obj_to_py(x) for x in elems):
                    elems.append(e)
            if no_cross_eq(elems, Vt):
                return (k, V.canon_obj((kind, elems)))
        return (k, ("tuple", []))
    if k == "truthy":
        return ("truthy",)
    if k == "len":
        return ("lenrev" if rng.random() < 0.45 else "len", rng.choice(["eq", "eq", "ne", "lt", "le", "gt", "ge"]),
                rng.choice([0, 1, 1, 2, 2, 3]))
    if k in ("typeis", "typeguard"):
        r = rng.random()
        if r < 0.4:
            t = ("typed", pick_cls())
        elif r < 0.6:
            ms = [s for s in subterms(Vt) if s[0] not in ("many", "any")] or [("typed", pick_cls())]
            t = rng.choice(ms)
        else:
            t = G.norm_term(G.gen_ty(rng, 1))
        if t[0] == "many":
            t = t[1]
        return (k, t)
    if k in ("mclass", "ainst"):
        return (k, pick_cls())
    raise ValueError(k)


Y_POOL = [("union", [("typed", G.INT), ("known", ("none",))]), ("union", [("typed", G.STR), ("typed", G.INT)]),
          ("union", [("known", ("int", 1)), ("known", ("str", "a"))]), ("typed", G.BOOL), ("typed", V.CID[U.Color]),
          ("union", [("typed", V.CID[U.A]), ("known", ("none",))])]
Y_OBJS = [("none",), ("int", 1), ("int", 0), ("str", "a"), ("bool", 1), ("inst", V.CID[U.Color], 0), ("inst", V.CID[U.A], 0)]


# comparison chains (visit_Compare): a narrowing link next to a link without constraint. ("chain", template, i, literal)
#   ch1: `LIT is x is a_i`   ch3: `a_i is x is LIT`   (the link `x is a_i` compares two non-literals: no constraint; a_i is x or a
#   sentinel, an opaque bit)    ch2t: `x == LIT == LIT`   ch2f: `x == LIT != LIT`   (literal-literal link: constant truth)
CONST_BITS = {2: True, 3: False}


def chain_expand(c):
    """the conjunction the chain means, operands listed in *reverse* source order (the model's `and` reverses them)"""
    t, i, lit = c[1], c[2], c[3]
    if t == "ch1":
        return ("and", [("opq", i, "isx"), ("is", lit)])
    if t == "ch3":
        return ("and", [("is", lit), ("opq", i, "isx")])
    if t == "ch2t":
        return ("and", [("opq", 2, "litT"), ("eq", lit)])
    return ("and", [("opq", 3, "litF"), ("eq", lit)])


def chain_text(c):
    t, i, lit = c[1], c[2], c[3]
    l = lit_src(lit)
    if l is None:
        return None
    return {"ch1": "%s is x is a%d" % (l, i), "ch3": "a%d is x is %s" % (i, l), "ch2t": "x == %s == %s" % (l, l),
            "ch2f": "x == %s != %s" % (l, l)}[t]


def opaque_kinds(c, out=None):
    out = {} if out is None else out
    if c[0] == "chain":
        return opaque_kinds(chain_expand(c), out)
    if c[0] == "opq":
        if len(c) > 2:
            out[c[1]] = c[2]
    elif c[0] in ("not", "other", "cap"):
        if c[0] == "not":
            opaque_kinds(c[1], out)
    elif c[0] in ("and", "or"):
        for x in c[1]:
            opaque_kinds(x, out)
    return out


def opaque_ids(c):
    if c[0] == "chain":
        return opaque_ids(chain_expand(c))
    if c[0] == "opq":
        return {c[1]}
    if c[0] in ("not", "other", "cap"):
        return opaque_ids(c[1]) if c[0] == "not" else set()
    if c[0] in ("and", "or"):
        return set().union(*[opaque_ids(x) for x in c[1]])
    return set()


def has_other(c):
    if c[0] == "chain":
        return False
    if c[0] == "other":
        return True
    if c[0] == "not":
        return has_other(c[1])
    if c[0] in ("and", "or"):
        return any(has_other(x) for x in c[1])
    return False


def envs_for(c):
    """every valuation of the opaque bits x a few objects of the other variable (None = the condition has neither)"""
    ids = sorted(opaque_ids(c))
    if not ids and not has_other(c):
        return [None]
    n = (max(ids) + 1) if ids else 0
    ys = [V.obj_to_py(o) for o in Y_OBJS] if has_other(c) else [None]
    out = []
    free = [i for i in ids if i not in CONST_BITS]
    for bits in itertools.product([False, True], repeat=len(free)):
        full = [False] * max(n, 4)
        for i, b in CONST_BITS.items():
            full[i] = b
        for i, b in zip(free, bits):
            full[i] = b
        for y in ys:
            out.append((y, full))
    return out


def gen_bcond(rng, Vt):
    r = rng.random()
    n = 2 if r < 0.8 else 3
    ls = [gen_leaf(rng, Vt, ["isinst", "isinst", "is", "isnot", "eq", "ne", "in", "notin", "truthy", "typeis"]) for _ in range(n)]
    if rng.random() < 0.35:
        # an operand without constraint on the variable: opaque, or an atom on another variable
        extra = ("opq", rng.randrange(2)) if rng.random() < 0.6 else \
            ("other", gen_leaf(rng, rng.choice(Y_POOL), ["isinst", "is", "isnot", "eq", "truthy"]))
        ls.insert(rng.randrange(len(ls) + 1), extra)
    ls = [("not", l) if rng.random() < 0.25 else l for l in ls]
    b = (rng.choice(["and", "or"]), ls)
    if rng.random() < 0.15:
        b = ("not", b)
    if rng.random() < 0.2:
        b = (rng.choice(["and", "or"]), [b, gen_leaf(rng, Vt, ["isinst", "is", "truthy", "eq"])])
    return b


def std_conds():
    """the fixed condition list used against every small value"""
    out = [("isinst", [c]) for c in (G.INT, G.BOOL, G.FLOAT, G.COMPLEX, G.STR, G.NONE, G.TUPLE, G.LIST, 0, G.HASHABLE, G.ITERABLE,
                                      G.SEQUENCE, V.CID[U.A], V.CID[U.B], V.CID[U.Cc], V.CID[U.D], V.CID[U.Color], IE, G.TYPE)]
    out += [("isinst", [G.INT, G.STR]), ("isinst", [V.CID[U.Cc], G.NONE])]
    out += [("issub", [c]) for c in (G.INT, G.FLOAT, V.CID[U.A], V.CID[U.Cc])]
    out += [("is", s) for s in SINGLETONS[:6]] + [("isnot", s) for s in SINGLETONS[:4]]
    out += [("eq", l) for l in (("int", 1), ("str", "a"), ("none",), ("bool", 1), ("inst", V.CID[U.Color], 0), ("tuple", []),
                                ("tuple", [("int", 1), ("str", "a")]))]
    out += [("ne", l) for l in (("int", 1), ("none",), ("bool", 0), ("inst", V.CID[U.Color], 1))]
    out += [("in", ("tuple", [("int", 1), ("str", "a")])), ("in", ("tuple", [("none",)])), ("in", ("set", [("int", 1), ("int", 2)])),
            ("in", ("tuple", [("inst", V.CID[U.Color], 0)])), ("notin", ("tuple", [("inst", V.CID[U.Color], 0)])),
            ("notin", ("tuple", [("int", 1), ("none",)])), ("in", ("list", [])), ("notin", ("fset", [("str", "a")]))]
    out += [("truthy",), ("len", "eq", 1), ("len", "eq", 2), ("len", "ne", 0), ("len", "gt", 1), ("len", "le", 0)]
    # every comparison with the operands exchanged
    out += [("lenrev", op, n) for op in ("eq", "ne", "lt", "le", "gt", "ge") for n in (1, 2)]
    out += [("swap", ("eq", ("int", 1))), ("swap", ("ne", ("none",))), ("swap", ("is", ("none",))), ("swap", ("isnot", ("bool", 1))),
            ("swap", ("eq", ("inst", V.CID[U.Color], 0))), ("swap", ("is", ("inst", V.CID[U.Color], 1)))]
    out += [("typeis", ("typed", G.INT)), ("typeis", ("typed", G.FLOAT)), ("typeis", ("generic", G.LIST, [("typed", G.INT)])),
            ("typeis", ("union", [("typed", G.STR), ("known", ("none",))])), ("typeguard", ("typed", G.STR)),
            ("mclass", G.INT), ("mclass", V.CID[U.Cc]), ("ainst", G.INT), ("ainst", V.CID[U.Cc]), ("ainst", G.FLOAT),
            ("ais", ("none",)), ("ais", ("bool", 1))]
    return out


ENUM_CLASSES = {27, 28, 29, 30}   # Color, IE, Enum, IntEnum (as in harness.props.c04.ENUMS)
META_CLASSES = {13, 31, 32}       # type, EnumType, ABCMeta


def _deliteral_term(t):
    """`_deliteral` on terms: a literal enum member stands for its class, a literal class object for its metaclass
    (is_overlapping / the protocol check see the literal that way)"""
    k = t[0]
    if k == "known":
        o = t[1]
        if o[0] == "inst":
            return ("typed", o[1])
        if o[0] == "cls":
            return ("subclass", o[1])
        return t
    if k in ("generic", "seq"):
        return (k, t[1], [_deliteral_term(x) for x in t[2]])
    if k == "union":
        return ("union", [_deliteral_term(x) for x in t[1]])
    if k in ("many", "annotated"):
        return (k, _deliteral_term(t[1]))
    return t


def _proto_region(e, a, P):
    """generic protocol target in `e` against an Enum class, a class object, type[...] or a metaclass in `a`:
    pyanalyze decides these on the value (member signatures of the metaclass), not on the class-level relation"""
    e_proto_generic = any(s[0] == "generic" and s[1] in P for s in subterms(e))
    e_proto = e_proto_generic or any(s[0] == "typed" and s[1] in P for s in subterms(e))
    a_enum = any((s[0] in ("typed", "generic", "seq") and s[1] in ENUM_CLASSES) or (s[0] == "newtype" and s[2] in ENUM_CLASSES)
                 for s in subterms(a))
    a_cls = any(s[0] == "subclass" or (s[0] in ("typed", "generic") and s[1] in META_CLASSES) for s in subterms(a))
    return (e_proto_generic and (a_enum or a_cls)) or (e_proto and a_cls)


def unmodelled(Vt, c):
    """value-dependent protocol region of the shared assignability model (see C04): searched on the implementation, not
    compared with the model. Since /repo e01ac16 (protocol cache keyed on the protocol's arguments) every such question is
    answered from the value, so the region covers literal enum members / class objects (seen through `_deliteral`) too."""
    from harness.props.c04 import unmodelled as um04, proto_set
    P = proto_set()
    Vd = _deliteral_term(Vt)
    ls = leaves(c)
    if len(ls) > 1:
        # in a conjunction a constraint is applied to the pattern an earlier one returned: tested types meet each other
        tds = [_deliteral_term(tested_ty(l)) for l in ls]
        if any(_proto_region(a, b, P) or um04(a, b) for a in tds for b in tds if a is not b):
            return True
    for l in ls:
        t = tested_ty(l)
        td = _deliteral_term(t)
        if um04(t, Vt) or um04(Vt, t) or _proto_region(td, Vd, P) or _proto_region(Vd, td, P):
            return True
        # literals of protocol-typed members: class objects against protocol targets (C03 protoClassObj region)
        if l[0] in ("eq", "ne", "is", "isnot", "in", "notin", "ais", "typeis", "typeguard"):
            lits = [s[1] for s in subterms(t) if s[0] == "known"]
            if any(x[0] == "cls" for o in lits for x in subobjs(o)) and any(s[0] in ("typed", "generic") and s[1] in P for s in subterms(Vt)):
                return True
    return False


def enum_class_silent(t, o):
    """An Enum *class object* is a sized iterable container through its metaclass; `Obj` has no element structure for it, so
    its membership in a *generic* ABC target (Iterable[T], Collection[T], ...) is not defined by the property (as for
    str/bytes objects, c03.property_silent)."""
    if not any(x[0] == "cls" and x[1] in ENUM_CLASSES for x in subobjs(o)):
        return False
    return any(s[0] == "generic" and s[1] in ABCS_ for s in subterms(t))


def impl_class(Vt, c, pol, py, checker):
    """Classification of a lost object *on the implementation* for the protocol region, where the table-driven model does not
    apply: the same two mechanisms as the Lean classes, evaluated with pyanalyze's own predicates on the union member that
    contains the object. None = no such mechanism (the candidate is then reported as new)."""
    from pyanalyze.value import flatten_values, is_overlapping
    for l in leaves(c):
        if l[0] not in ("isinst", "issub", "typeis", "mclass"):
            continue
        pat = build_constraint(l, checker).value.pattern_value
        tst = tested_ty(l)
        for m in flatten_values(V.ty_to_value(Vt)):
            try:
                mt = V.value_to_ty(m)
            except V.Unencodable:
                continue
            if not G.member(py, mt):
                continue
            if not is_overlapping(pat, m, checker):
                return "noIntersection"
            if pat.is_assignable(m, checker) and l[0] != "mclass":
                return "promote" if G.member(py, tst) else "acceptsNonMember"
    return None


def gen_triples(ctx):
    rng = ctx.rng
    out = []
    small = small_values()
    conds = std_conds()
    # exhaustive: every small value against every standard condition (quick: a seeded half of the union values)
    for Vt in small:
        for c in conds:
            if Vt[0] == "union" and len(Vt[1]) == 2 and not ctx.big() and rng.random() < 0.6:
                continue
            out.append((Vt, c))
    depth = ctx.n(2, 3)
    for _ in range(ctx.n(2500, 70000)):
        Vt = G.norm_term(G.gen_ty(rng, depth, allow_any=rng.random() < 0.1))
        if Vt[0] == "many":
            continue
        if rng.random() < 0.2:
            out.append((Vt, gen_bcond(rng, Vt)))
        else:
            out.append((Vt, gen_leaf(rng, Vt)))
    return [(Vt, c) for Vt, c in out if no_cross_eq(cond_literals(c), Vt)]


def any_swap(c):
    if c[0] == "swap":
        return True
    if c[0] == "chain":
        return any_swap(chain_expand(c))
    if c[0] in ("other", "cap"):
        return any_swap(c[1])
    if c[0] == "opq":
        return False
    if c[0] == "not":
        return any_swap(c[1])
    if c[0] in ("and", "or"):
        return any(any_swap(x) for x in c[1])
    return False


def cond_literals(c):
    out = []
    for l in leaves(c):
        if l[0] in ("eq", "ne", "is", "isnot", "ais"):
            out.append(l[1])
        elif l[0] in ("in", "notin"):
            out += list(l[1][1])
    return out


def corpus_triples():
    path = os.path.join(lean.HERE, "corpus", "C02.jsonl")
    out = []
    if os.path.exists(path):
        for l in open(path):
            if l.strip():
                d = json.loads(l)
                if "cond" in d:
                    out.append((totuple(d["V"]), totuple(d["cond"])))
    return out


# ------------------------------------------------------------------ objects
_SMALL = None


def small_objs():
    global _SMALL
    if _SMALL is None:
        _SMALL = [(o, V.obj_to_py(o)) for o in G.small_objs()]
    return _SMALL


def objects_for(rng, Vt, c, n_extra):
    objs = list(small_objs())
    seen = set()
    extra = []
    for l in leaves(c):
        t = tested_ty(l)
        extra += [s[1] for s in subterms(t) if s[0] == "known"]
    for _ in range(n_extra):
        extra.append(G.gen_obj_for(rng, Vt))
    for o in extra:
        key = V.obj_sexp(V.canon_obj(o))
        if key not in seen:
            seen.add(key)
            try:
                objs.append((o, V.obj_to_py(o)))
            except Exception:  # noqa: BLE001
                pass
    return objs


# ------------------------------------------------------------------ the check
def cross(o, Vt, c):
    """the object, the literals of the type and of the condition mix IntEnum members with numbers (IE.X == 1): excluded"""
    return not no_cross_eq(cond_literals(c) + [o], Vt) or not no_cross_eq(cond_literals(c), ("known", o)) \
        or not no_cross_eq([o], Vt)


def any_lenient(c, Vt, arity):
    """TypeIs[list[int]] against a bare `list` (= list[Any]): the Any leniencies L1/L2 of assignability (see C04) make the
    negative branch drop the member by design; not counted."""
    from harness.props.c04 import lenient
    return any(l[0] in ("typeis", "typeguard") and lenient(l[1], Vt, arity) is not None for l in leaves(c))


def evaluate(ctx, triples, with_model=True, replaying=False):
    checker = pya.make_checker()
    arity = V.class_table(checker)["arity"]
    rng = ctx.rng
    # ---- implementation: both branches
    impl = []
    for Vt, c in triples:
        impl.append((impl_narrow(Vt, c, True, checker), impl_narrow(Vt, c, False, checker)))
    model = None
    if with_model:
        lines = []
        for Vt, c in triples:
            op = "narrow" if is_leaf(c) else "narrowb"
            vs, cs = V.ty_sexp(Vt), cond_sexp(c)
            lines += ["%s %s %s 1" % (op, vs, cs), "%s %s %s 0" % (op, vs, cs), "bool %s" % vs]
        out = lean.run_driver("C02", lines)
        model = list(zip(out[0::3], out[1::3], out[2::3]))
    checks = []      # lost objects, classified through the driver afterwards
    verdicts = {}    # sV -> (case, o, py, boolability name, conforms)
    spec_lines, spec_ref = [], []
    spec_every = ctx.n(12, 12)
    for i, (Vt, c) in enumerate(triples):
        case = {"V": Vt, "cond": c, "type": safe_src(Vt), "condition": cond_text(c), "sV": V.ty_sexp(Vt), "scond": cond_sexp(c)}
        leaf = is_leaf(c)
        ctx.count(1, **{"V_" + Vt[0]: 1, "cond_" + c[0]: 1})
        res = impl[i]
        conforms = True
        bool_conforms = True
        um = unmodelled(Vt, c)
        try:
            bl = get_boolability(V.ty_to_value(Vt))
            b = bl.name
        except Exception as e:  # noqa: BLE001
            bl, b = None, "EXC:%s" % type(e).__name__
        if model is not None:
            stream = "narrow" if leaf else "narrowb"
            for pol, r, m in ((1, res[0], model[i][0]), (0, res[1], model[i][1])):
                ri = r if isinstance(r, str) else canon_result(r)
                mi = m if m == "bad-op" else canon_sexp_result(m)
                if not um:
                    ctx.corr(stream)
                    if ri != mi:
                        conforms = False
                        ctx.disagree(stream, dict(case, polarity=pol), ri, mi)
            if not any(s[0] == "tvar" for s in subterms(Vt)):
                ctx.corr("bool")
                if b != model[i][2]:
                    bool_conforms = False
                    ctx.disagree("bool", case, b, model[i][2])
        if any(isinstance(r, str) for r in res):
            ctx.tag("impl_exception")
            continue
        if canon_result(res[0]) != canon_result(Vt) or canon_result(res[1]) != canon_result(Vt):
            ctx.nontriv(case["sV"] + "|" + case["scond"])
        if i % 997 == 0:
            ctx.sample({"type": case["type"], "condition": case["condition"], "if_branch": V.ty_sexp(res[0]), "else_branch": V.ty_sexp(res[1]),
                        "model": model[i][:2] if model else None})
        if G.has_any(Vt) or any(s[0] == "tvar" for s in subterms(Vt)):
            continue  # Any is not a static type: membership is not defined for it (correspondence only)
        # ---- property search with the CPython oracle
        tst = tested_ty(c)
        lenient_case = any_lenient(c, Vt, arity)
        envs = envs_for(c)
        lost = widened = None
        objs = objects_for(rng, Vt, c, ctx.n(3, 6))
        nsmall = len(small_objs())
        vV, v1, v0, vT = mvec(Vt), mvec(res[0]), mvec(res[1]), mvec(tst)
        sil = silent_vec(Vt) or silent_vec(res[0]) or silent_vec(res[1]) or silent_vec(tst)
        for n, (o, py) in enumerate(objs):
            small = n < nsmall
            if sil and (property_silent(Vt, o) or property_silent(res[0], o) or property_silent(res[1], o) or property_silent(tst, o)
                        or enum_class_silent(Vt, o) or enum_class_silent(res[0], o) or enum_class_silent(res[1], o)
                        or enum_class_silent(tst, o)):
                continue
            inV = vV[n] if small else G.member(py, Vt)
            in1 = v1[n] if small else G.member(py, res[0])
            in0 = v0[n] if small else G.member(py, res[1])
            inT = vT[n] if small else G.member(py, tst)
            want_spec = with_model and leaf and i % spec_every == 0
            if not (inV or want_spec or ((in1 or in0) and not inT)):
                continue
            if cross(o, Vt, c):
                continue
            hs = set()
            for env in envs:
                try:
                    hs.add(py_holds(c, py, env))
                except Undefined:
                    hs.add(None)
            h = next(iter(hs)) if len(hs) == 1 else "both"
            if h == "both":
                # the condition can be true and false for this object depending on the opaque bits / the other variable:
                # the object reaches both branches
                hs.discard(None)
                if inV and lost is None and not lenient_case:
                    for hv in sorted(hs):
                        if not (in1 if hv else in0):
                            lost = (1 if hv else 0, o, py)
                            break
                continue
            if want_spec:
                spec_lines.append("check %s %s 1 %s" % (case["sV"], case["scond"], V.obj_sexp(V.canon_obj(o))))
                spec_ref.append((inV, h, inT, bool(py), _len(py)))
            if inV and h is not None and lost is None and not lenient_case:
                if not (in1 if h else in0):
                    lost = (1 if h else 0, o, py)
            if widened is None and not inV and not inT:
                if in1:
                    widened = (1, o, py)
                elif in0:
                    widened = (0, o, py)
        if lost is not None:
            pol, o, py = lost
            checks.append((i, pol, o, py, conforms, case))
        if widened is not None:
            pol, o, py = widened
            ctx.candidate(dict(case, polarity=pol, object=repr(py), obj=o),
                          "the narrowed type contains an object that is neither in the original nor in the tested type",
                          cls=None, conforms=conforms, stream="widen")
        # ---- verdicts (once per distinct value)
        if bl is not None and case["sV"] not in verdicts:
            verdicts[case["sV"]] = None
            if bl.is_safely_true() or b in ("value_always_false", "value_always_false_mutable"):
                want = bl.is_safely_true()
                for o, py in small_objs():
                    if property_silent(Vt, o):
                        continue
                    if G.member(py, Vt) and bool(py) != want:
                        verdicts[case["sV"]] = (dict(case, cond=None, scond=None, condition=None), o, py, b, bool_conforms)
                        break
    # ---- classify through the driver (the D classes are defined in Lean)
    vs = [v for v in verdicts.values() if v is not None]
    if with_model and (checks or vs):
        lines = []
        for i, pol, o, py, conf, case in checks:
            op = "check" if is_leaf(triples[i][1]) else "checkb"
            lines.append("%s %s %s %d %s" % (op, case["sV"], case["scond"], pol, V.obj_sexp(V.canon_obj(o))))
        for case, o, py, b, conf in vs:
            lines.append("verdict %s %s" % (case["sV"], V.obj_sexp(V.canon_obj(o))))
        out = lean.run_driver("C02", lines)
    else:
        out = [""] * (len(checks) + len(vs))
    for (i, pol, o, py, conf, case), l in zip(checks, out):
        cls = None
        model_lost = None
        if " D=" in l:
            bits, d = l.split(" D=")
            cls = live_cls(d.split(","))
            model_lost = bits[3] == "0"
        if model_lost is False and unmodelled(triples[i][0], triples[i][1]):
            # value-dependent protocol region (see ASSUMPTIONS): the table-driven model does not lose the object, so the
            # failing input is classified on the implementation itself (same mechanisms, pyanalyze's own predicates)
            icls = impl_class(triples[i][0], triples[i][1], pol, py, checker)
            ctx.tag("keeps_protocol_region_%s" % icls)
            ctx.candidate(dict(case, polarity=pol, object=repr(py), obj=o, driver=l, classified="on the implementation"),
                          "the object belongs to the declared type and the condition evaluates to %s for it, but it does not belong "
                          "to the type inferred in that branch (protocol region)" % bool(pol), cls=icls, conforms=True, stream="keeps")
            continue
        ctx.candidate(dict(case, polarity=pol, object=repr(py), obj=o, driver=l),
                      "the object belongs to the declared type and the condition evaluates to %s for it, but it does not belong to the "
                      "type inferred in that branch" % bool(pol), cls=cls, conforms=conf and (model_lost is not False), stream="keeps")
    for (case, o, py, b, conf), l in zip(vs, out[len(checks):]):
        cls = None
        if " D=" in l:
            cls = live_cls(l.split(" D=")[1].split(","))
        ctx.candidate(dict(case, object=repr(py), obj=o, boolability=b, driver=l),
                      "get_boolability says %s but the member object %r is %s" % (b, py, "truthy" if py else "falsy"),
                      cls=cls, conforms=conf, stream="verdict")
    # ---- spec validation
    if with_model and spec_lines:
        out = lean.run_driver("C02", spec_lines)
        for l, m, (inV, h, inT, tr, ln) in zip(spec_lines, out, spec_ref):
            ctx.corr("spec")
            exp_ok = "0" if h is None else "1"
            bad = m == "bad-op" or m[0] != ("1" if inV else "0") or m[1] != exp_ok or (h is not None and m[2] != ("1" if h else "0")) \
                or m[4] != ("1" if inT else "0")
            if bad:
                ctx.disagree("spec", l, "member=%s holds=%s tested=%s" % (inV, h, inT), m)
        # truthiness and len of every small object
        objs = small_objs()
        out = lean.run_driver("C02", ["truthy %s" % V.obj_sexp(V.canon_obj(o)) for o, _ in objs] +
                              ["len %s" % V.obj_sexp(V.canon_obj(o)) for o, _ in objs])
        for (o, py), t, ln in zip(objs, out[:len(objs)], out[len(objs):]):
            ctx.corr("spec", 2)
            if t != ("1" if py else "0"):
                ctx.disagree("spec", "truthy %r" % (py,), bool(py), t)
            if ln != _len(py) and not isinstance(py, type):
                ctx.disagree("spec", "len %r" % (py,), _len(py), ln)
    e2e(ctx, triples, impl, model, checker, with_model)
    if not replaying:
        match_stream(ctx, checker, with_model)
        flow_stream(ctx, checker, with_model)


_MVEC = {}


def mvec(t):
    """membership of every small object in the type (memoised by term text)"""
    key = V.ty_sexp(t)
    v = _MVEC.get(key)
    if v is None:
        v = _MVEC[key] = [G.member(py, t) for _, py in small_objs()]
    return v


def silent_vec(t):
    return any(s[0] == "generic" and s[1] in ABCS_ for s in subterms(t))


def _len(py):
    try:
        return str(len(py))
    except Exception:  # noqa: BLE001
        return "-"


# ------------------------------------------------------------------ end to end
def lit_src(o):
    s = obj_src(o)
    if s is None and o[0] == "fset":
        parts = [obj_src(x) for x in o[1]]
        if all(p is not None for p in parts):
            return "frozenset({%s})" % ", ".join(parts) if parts else "frozenset()"
    return s


def cond_text(c):
    """source spelling of the condition on `x` (None: no spelling, unit level only)"""
    k = c[0]
    if k in ("isinst", "issub"):
        names = [ty_src(("typed", i)) for i in c[1]]
        names = ["NoneType" if n == "None" else n for n in names]
        fn = "isinstance" if k == "isinst" else "issubclass"
        return "%s(x, %s)" % (fn, names[0] if len(names) == 1 else "(%s)" % ", ".join(names))
    if k in ("is", "isnot", "eq", "ne"):
        s = lit_src(c[1])
        if s is None or c[1][0] == "fset":
            return None
        return "x %s %s" % ({"is": "is", "isnot": "is not", "eq": "==", "ne": "!="}[k], s)
    if k in ("in", "notin"):
        if c[1][0] == "fset":
            return None  # a frozenset display is a call, not a literal: the checker sees no KnownValue... (kept unit level)
        s = lit_src(c[1])
        if s is None:
            return None
        return "x %s %s" % ("in" if k == "in" else "not in", s)
    if k == "truthy":
        return "x"
    if k == "len":
        return "len(x) %s %d" % (OPS[c[1]][1], c[2])
    if k == "lenrev":
        return "%d %s len(x)" % (c[2], OPS[c[1]][1])
    if k == "swap":
        s = lit_src(c[1][1])
        if s is None or c[1][1][0] == "fset":
            return None
        return "%s %s x" % (s, {"is": "is", "isnot": "is not", "eq": "==", "ne": "!="}[c[1][0]])
    if k == "chain":
        return chain_text(c)
    if k == "other":
        s = cond_text(c[1])
        return None if s is None else re.sub(r"\bx\b", "y", s)
    if k == "cap":
        s = cond_text(c[1])
        return None if s is None else re.sub(r"\bx\b", "cap", s)
    if k == "opq":
        i = c[1]
        return {"call": "flag%d()" % i, "eqab": "a%d == b%d" % (i, i), "isab": "a%d is b%d" % (i, i), "inab": "a%d in b%d" % (i, i),
                "isvar": "isinstance(x, k%d)" % i, "isx": "x is a%d" % i, "litT": "None is None", "litF": "None is not None"}[c[2]] \
            if len(c) > 2 else None
    if k == "not":
        s = cond_text(c[1])
        return None if s is None else "not (%s)" % s
    if k in ("and", "or"):
        parts = [cond_text(x) for x in c[1]]
        if any(p is None for p in parts):
            return None
        return "(" + (" %s " % k).join(parts) + ")"
    return None  # typeis/typeguard need a helper function: handled separately; mclass/ainst/ais unit level


def safe_src(t):
    try:
        return ty_src(t)
    except Exception:  # noqa: BLE001
        return None


def spellable(Vt):
    """types that have a source annotation which pyanalyze reads back as the same term"""
    for s in subterms(Vt):
        if s[0] == "seq" and s[1] != G.TUPLE:
            return False
        if s[0] == "known" and (lit_src(s[1]) is None or s[1][0] in ("list", "set", "dict", "tuple", "fset", "flt", "cplx", "cls")):
            return False
        if s[0] in ("any", "tvar"):
            return False
        if s[0] == "union" and not s[1] and s is not Vt:
            return False
    if Vt == ("union", []):
        return False
    if sum(1 for s in subterms(Vt) if s[0] == "many") > 1:
        return False
    return True


ARITY = [None]


def e2e(ctx, triples, impl, model, checker, with_model):
    """The same triples through the checker: reveal_type(x) before the test and in both branches."""
    budget = ctx.n(900, 12000)
    chosen = []
    ARITY[0] = V.class_table(checker)["arity"]
    sized = PV.TypedValue(V.CLASSES[G.SIZED])
    for i, (Vt, c) in enumerate(triples):
        if len(chosen) >= budget:
            break
        if not spellable(Vt) or any(isinstance(r, str) for r in impl[i]):
            continue
        if has_other(c) or opaque_ids(c):
            continue   # these go through the `flow` stream (second variable, opaque operands, executed)
        guard = None
        if is_leaf(c) and c[0] in ("typeis", "typeguard"):
            if not spellable(c[1]) or c[1] == ("union", []):
                continue
            guard = ("TypeIs" if c[0] == "typeis" else "TypeGuard", ty_src(c[1]))
            text = "g%d(x)" % len(chosen)
        else:
            text = cond_text(c)
        if text is None:
            continue
        chosen.append((i, text, guard))
    B = 250
    done = []   # (i, text, case, dec)
    for b0 in range(0, len(chosen), B):
        part = chosen[b0:b0 + B]
        src = [PRELUDE.rstrip("\n"), "from typing_extensions import TypeIs, TypeGuard, reveal_type", "from types import NoneType"]
        for j, (i, text, guard) in enumerate(part):
            Vt, c = triples[i]
            if guard is not None:
                src.append("def g%d(y: object) -> %s[%s]: return True" % (b0 + j, guard[0], guard[1]))
            src.append("def f%d(x: %s) -> None:" % (j, ty_src(Vt)))
            src.append("    reveal_type(x)")
            src.append("    if %s:" % text)
            src.append("        reveal_type(x)")
            src.append("    else:")
            src.append("        reveal_type(x)")
        try:
            fails, tree, _ = pya.check_source("\n".join(src) + "\n", annotate=True)
        except Exception as e:  # noqa: BLE001
            ctx.obligation_broken("e2e", "checker crashed on a generated module: %r" % (e,))
            continue
        noisy = {f["lineno"] for f in fails if f["code"] != "reveal_type"}
        revealed = {}
        for node in ast.walk(tree):
            if isinstance(node, ast.FunctionDef) and node.name.startswith("f"):
                vals = []
                for sub in ast.walk(node):
                    if isinstance(sub, ast.Call) and isinstance(sub.func, ast.Name) and sub.func.id == "reveal_type":
                        vals.append((sub.lineno, getattr(sub.args[0], "inferred_value", None)))
                diagnosed = any(node.lineno <= ln <= node.end_lineno for ln in noisy)
                revealed[int(node.name[1:])] = (diagnosed, [v for _, v in sorted(vals, key=lambda p: p[0])])
        for j, (i, text, guard) in enumerate(part):
            Vt, c = triples[i]
            diagnosed, vals = revealed.get(j, (False, None))
            case = {"V": Vt, "cond": c, "type": ty_src(Vt), "condition": text, "scond": cond_sexp(c), "e2e": True}
            ctx.count(1, e2e=1)
            if diagnosed:
                ctx.tag("e2e_call_diagnosed")  # e.g. len() of an unsized type: the call is an error and nothing is narrowed
                continue
            if not vals or len(vals) != 3 or any(v is None for v in vals):
                ctx.tag("e2e_not_revealed")
                continue
            try:
                dec = [V.value_to_ty(strip_constraint_ext(v)) for v in vals]
            except V.Unencodable:
                ctx.tag("e2e_unencodable")
                continue
            case["sV"] = V.ty_sexp(dec[0])
            case["V"] = dec[0]
            done.append((i, text, case, dec))
    model_e = None
    if with_model and done:
        lines = []
        for i, text, case, dec in done:
            op = "narrow" if is_leaf(triples[i][1]) else "narrowb"
            lines += ["%s %s %s 1" % (op, case["sV"], case["scond"]), "%s %s %s 0" % (op, case["sV"], case["scond"])]
        out = lean.run_driver("C02", lines)
        model_e = list(zip(out[0::2], out[1::2]))
    lost_cases = []
    for n, (i, text, case, dec) in enumerate(done):
        c = triples[i][1]
        Vd = dec[0]
        um = unmodelled(Vd, c) or not no_cross_eq(cond_literals(c), Vd)
        if any_swap(c) and (Vd[0] == "known" or (Vd[0] == "annotated" and Vd[1][0] == "known")):
            # `1 == x` with x a single literal: `_visit_single_compare` takes the rhs-is-KnownValue branch first and constrains
            # the *literal* node, i.e. x is not narrowed at all (no narrowing is always sound); not compared with the model
            um = True
            ctx.tag("e2e_swap_on_literal_not_narrowed")
        if any_lenient(c, Vd, ARITY[0]):
            continue
        conforms = True
        if model_e is not None and not um:
            for pol, r, m in ((1, dec[1], model_e[n][0]), (0, dec[2], model_e[n][1])):
                ctx.corr("e2e")
                if m == "bad-op" or canon_result(r) != canon_sexp_result(m):
                    conforms = False
                    ctx.disagree("e2e", dict(case, polarity=pol), canon_result(r), m if m == "bad-op" else canon_sexp_result(m))
        if G.has_any(Vd):
            continue
        # property on the end-to-end values
        for o, py in objects_for(ctx.rng, Vd, c, 2):
            if property_silent(Vd, o) or property_silent(dec[1], o) or property_silent(dec[2], o) or cross(o, Vd, c):
                continue
            if enum_class_silent(Vd, o) or enum_class_silent(dec[1], o) or enum_class_silent(dec[2], o):
                continue
            if not G.member(py, Vd):
                continue
            try:
                h = py_holds(c, py)
            except Undefined:
                continue
            if not G.member(py, dec[1] if h else dec[2]):
                lost_cases.append((case, c, 1 if h else 0, o, py, conforms, text))
                break
    dl = []
    if with_model and lost_cases:
        dl = lean.run_driver("C02", ["%s %s %s %d %s" % ("check" if is_leaf(c) else "checkb", case["sV"], case["scond"], pol,
                                                        V.obj_sexp(V.canon_obj(o))) for case, c, pol, o, py, conf, text in lost_cases])
    for n, (case, c, pol, o, py, conf, text) in enumerate(lost_cases):
        cls = None
        l = dl[n] if n < len(dl) else ""
        if " D=" in l:
            cls = live_cls(l.split(" D=")[1].split(","))
            if l[3] == "1" and unmodelled(case["V"], c):
                icls = impl_class(case["V"], c, pol, py, checker)
                ctx.tag("keeps_protocol_region_%s" % icls)
                ctx.candidate(dict(case, polarity=pol, object=repr(py), obj=o, driver=l, classified="on the implementation"),
                              "end to end: object lost in the branch taken (protocol region)", cls=icls, conforms=True,
                              stream="e2e-keeps")
                continue
        ctx.candidate(dict(case, polarity=pol, object=repr(py), obj=o, driver=l,
                           program="def f(x: %s):\n    if %s: reveal_type(x)\n    else: reveal_type(x)" % (case["type"], text)),
                      "end to end: the object belongs to the declared type and the condition evaluates to %s for it, but it does "
                      "not belong to the type revealed in that branch" % bool(pol), cls=cls, conforms=conf, stream="e2e-keeps")


# ------------------------------------------------------------------ flow: bool-op trees with opaque operands, really executed
FLOW_X = [("union", [("typed", G.INT), ("known", ("none",))]), ("union", [("typed", G.INT), ("typed", G.STR)]),
          ("union", [("known", ("int", 1)), ("known", ("str", "a"))]), ("union", [("typed", G.INT), ("typed", G.STR), ("known", ("none",))]),
          ("typed", V.CID[U.Color]), ("typed", G.BOOL), ("union", [("typed", V.CID[U.A]), ("typed", V.CID[U.Cc])]),
          ("union", [("known", ("str", "a")), ("known", ("str", "")), ("known", ("none",))]), ("typed", 0),
          ("union", [("seq", G.TUPLE, [("typed", G.INT)]), ("known", ("none",))]), ("union", [("typed", G.FLOAT), ("typed", G.STR)])]
X_KINDS = ["isinst", "isinst", "is", "isnot", "eq", "ne", "in", "notin", "truthy"]
OPQ_KINDS = ["call", "call", "eqab", "isab", "inab", "isvar"]
POSITIONS = ["if", "if", "elif", "while", "ternary", "assert", "walrus", "comp", "assertmsg"]


class _Nope:
    pass


def swap_vars(c):
    """the same condition seen from the other variable"""
    k = c[0]
    if k == "chain":
        return swap_vars(chain_expand(c))
    if k == "other":
        return c[1]
    if k in ("opq", "cap"):
        return c
    if k == "not":
        return ("not", swap_vars(c[1]))
    if k in ("and", "or"):
        return (k, [swap_vars(x) for x in c[1]])
    return ("other", c)


def gen_flow_tree(rng, Vx, Vy, depth, opq):
    """bool-op tree: atoms on x, atoms on y, opaque operands (registered in `opq`: index -> kind)"""
    def atom():
        r = rng.random()
        if r < 0.5:
            return gen_leaf(rng, Vx, X_KINDS)
        if r < 0.72:
            return ("other", gen_leaf(rng, Vy, X_KINDS))
        if r < 0.82:
            i = rng.randrange(2)
            opq.setdefault(i, rng.choice(OPQ_KINDS))
            return ("opq", i, opq[i])
        # a comparison chain: a narrowing link next to a link that narrows nothing (visit_Compare)
        t = rng.choice(["ch1", "ch3", "ch2t", "ch2f"])
        if t in ("ch1", "ch3"):
            i = rng.randrange(2)
            if opq.setdefault(i, "isx") != "isx":
                return gen_leaf(rng, Vx, X_KINDS)
            return ("chain", t, i, rng.choice([("none",), ("bool", 1), ("inst", V.CID[U.Color], 0)]))
        return ("chain", t, 0, rng.choice([("int", 1), ("str", "a"), ("none",)]))
    def tree(d):
        if d == 0 or rng.random() < 0.25:
            a = atom()
            return ("not", a) if rng.random() < 0.2 else a
        n = 2 if rng.random() < 0.75 else 3
        t = (rng.choice(["and", "or", "or"]), [tree(d - 1) for _ in range(n)])
        return ("not", t) if rng.random() < 0.15 else t
    t = tree(depth)
    if t[0] not in ("and", "or", "not"):
        t = (rng.choice(["and", "or"]), [t, atom()])
    return t


def std_flow_cases():
    """the shapes of the seeded change C02-2 and their neighbours, in every position"""
    OI = ("union", [("typed", G.INT), ("known", ("none",))])
    SI = ("union", [("typed", G.STR), ("typed", G.INT)])
    L1A = ("union", [("known", ("int", 1)), ("known", ("str", "a"))])
    out = []
    shapes = [
        (OI, ("or", [("is", ("none",)), ("opq", 0, "eqab")])), (SI, ("or", [("isinst", [G.INT]), ("opq", 0, "call")])),
        (L1A, ("or", [("eq", ("int", 1)), ("opq", 0, "isab")])), (SI, ("or", [("in", ("tuple", [("str", "a"), ("str", "ab")])), ("opq", 0, "inab")])),
        (OI, ("or", [("opq", 0, "call"), ("is", ("none",))])), (OI, ("or", [("is", ("none",)), ("opq", 0, "isvar")])),
        (OI, ("or", [("is", ("none",)), ("other", ("is", ("none",)))])), (OI, ("and", [("isnot", ("none",)), ("opq", 0, "call")])),
        (OI, ("not", ("or", [("is", ("none",)), ("opq", 0, "call")]))), (OI, ("not", ("and", [("isnot", ("none",)), ("opq", 0, "call")]))),
        (OI, ("or", [("is", ("none",)), ("and", [("other", ("truthy",)), ("opq", 0, "call")])])),
        (SI, ("or", [("and", [("isinst", [G.INT]), ("opq", 0, "call")]), ("isinst", [G.STR])])),
        (SI, ("or", [("isinst", [G.INT]), ("or", [("opq", 0, "call"), ("opq", 1, "eqab")])])),
        (OI, ("and", [("or", [("is", ("none",)), ("opq", 0, "call")]), ("or", [("truthy",), ("opq", 1, "call")])])),
        # comparison chains with a link that narrows nothing, plain and negated
        (OI, ("chain", "ch1", 0, ("none",))), (OI, ("not", ("chain", "ch1", 0, ("none",)))),
        (OI, ("chain", "ch3", 0, ("none",))), (OI, ("not", ("chain", "ch3", 0, ("none",)))),
        (L1A, ("chain", "ch2t", 0, ("int", 1))), (L1A, ("not", ("chain", "ch2t", 0, ("int", 1)))),
        (L1A, ("not", ("chain", "ch2f", 0, ("int", 1)))), (OI, ("or", [("chain", "ch1", 0, ("none",)), ("opq", 1, "call")])),
    ]
    for Vx, c in shapes:
        for pos in ("if", "elif", "while", "ternary", "assert", "walrus", "comp", "assertmsg"):
            out.append((Vx, OI, c, pos))
    return out


def flow_stream(ctx, checker, with_model, cases=None):
    """Conditions of the full grammar (and/or/not over atoms on x, atoms on y and opaque operands) in if / elif / while /
    ternary / assert / walrus position. The generated module is checked, then *executed* on every object of the declared types
    and both values of every opaque bit; each variable's object must belong to the type revealed in the branch that ran."""
    import contextlib, io
    rng = ctx.rng
    if cases is None:
        cases = std_flow_cases()
        nstd = len(cases)
        for _ in range(ctx.n(170, 2500)):
            Vx, Vy = rng.choice(FLOW_X), rng.choice(Y_POOL)
            opq = {}
            c = gen_flow_tree(rng, Vx, Vy, rng.choice([1, 2, 2, 3]), opq)
            cases.append((Vx, Vy, c, rng.choice(POSITIONS)))
    else:
        nstd = len(cases)
    ok = []
    for n0, (Vx, Vy, c, pos) in enumerate(cases):
        lits = cond_literals(c) + cond_literals(swap_vars(c))
        if cond_text(c) is None or not no_cross_eq(lits, Vx) or not no_cross_eq(lits, Vy):
            continue
        # the revealed types are compared with `narrowB` for the fixed shapes only: inside deeper trees the checker evaluates
        # every operand in the scope the earlier operands left (an operand can be unreachable, values are re-flattened between
        # constraints, the operand scopes are merged), which the constraint model does not describe; all trees are judged by
        # executing them
        ok.append((Vx, Vy, c, pos, n0 < nstd))
    B = 120
    S1, S2 = object(), object()
    for b0 in range(0, len(ok), B):
        part = ok[b0:b0 + B]
        src = [PRELUDE.rstrip("\n"), "from typing_extensions import reveal_type", "from types import NoneType", "BITS = [False, False, True, False]",
               "def flag0() -> bool:\n    return BITS[0]", "def flag1() -> bool:\n    return BITS[1]",
               "def never() -> bool:\n    return False"]
        metas = []
        for j, (Vx, Vy, c, pos, exact) in enumerate(part):
            kinds = opaque_kinds(c)
            params = ["x: %s" % ty_src(Vx), "y: %s" % ty_src(Vy)]
            for i, kd in sorted(kinds.items()):
                params += {"call": [], "eqab": ["a%d: int" % i, "b%d: int" % i], "isab": ["a%d: object" % i, "b%d: object" % i],
                           "inab": ["a%d: int" % i, "b%d: list" % i], "isvar": ["k%d: type" % i], "isx": ["a%d: object" % i],
                           "litT": [], "litF": []}[kd]
            text = cond_text(c)
            rv = "reveal_type(x); reveal_type(y)"
            body = ["def g%d(%s):" % (j, ", ".join(params)), "    " + rv]
            if pos in ("if", "walrus", "elif"):
                head = "if %s:" % text if pos == "if" else ("if (t := %s):" % text if pos == "walrus" else "elif %s:" % text)
                if pos == "elif":
                    body += ["    if never():", "        return 2"]
                body += ["    " + head, "        " + rv, "        return 1", "    else:", "        " + rv, "        return 0"]
            elif pos == "while":
                body += ["    while %s:" % text, "        " + rv, "        return 1", "    " + rv, "    return 0"]
            elif pos == "ternary":
                body += ["    return (reveal_type(x), reveal_type(y), 1) if %s else (reveal_type(x), reveal_type(y), 0)" % text]
            elif pos == "comp":
                body += ["    r = [(reveal_type(x), reveal_type(y)) for _ in (0,) if %s]" % text, "    return 1 if r else 0"]
            elif pos == "assertmsg":
                body += ["    assert %s, (reveal_type(x), reveal_type(y))" % text, "    return 1"]
            else:
                body += ["    assert %s" % text, "    " + rv, "    return 1"]
            src += body
            metas.append(kinds)
        text_all = "\n".join(src) + "\n"
        try:
            fails, tree, _ = pya.check_source(text_all, annotate=True)
        except Exception as e:  # noqa: BLE001
            ctx.obligation_broken("flow", "checker crashed on a generated module: %r" % (e,))
            continue
        ns = {}
        with contextlib.redirect_stderr(io.StringIO()):
            exec(compile(text_all, "<c02 flow batch>", "exec"), ns)
        noisy = {f["lineno"] for f in fails if f["code"] != "reveal_type"}
        revealed = {}
        for node in ast.walk(tree):
            if isinstance(node, ast.FunctionDef) and node.name.startswith("g"):
                vals = []
                for sub in ast.walk(node):
                    if isinstance(sub, ast.Call) and isinstance(sub.func, ast.Name) and sub.func.id == "reveal_type":
                        vals.append(((sub.lineno, sub.col_offset), getattr(sub.args[0], "inferred_value", None)))
                diagnosed = any(node.lineno <= ln <= node.end_lineno for ln in noisy)
                revealed[int(node.name[1:])] = (diagnosed, [v for _, v in sorted(vals, key=lambda q: q[0])])
        todo = []
        for j, (Vx, Vy, c, pos, exact) in enumerate(part):
            diagnosed, vals = revealed.get(j, (True, None))
            ctx.count(1, flow=1, **{"flow_" + pos: 1})
            want = 4 if pos in ("assert", "comp", "assertmsg") else 6
            if diagnosed or not vals or len(vals) != want or any(v is None for v in vals):
                ctx.tag("flow_diagnosed_or_not_revealed")
                continue
            try:
                dec = [V.value_to_ty(strip_constraint_ext(v)) for v in vals]
            except V.Unencodable:
                ctx.tag("flow_unencodable")
                continue
            case = {"flow": True, "Vx": dec[0], "Vy": dec[1], "cond": c, "pos": pos, "type": ty_src(Vx), "type_y": ty_src(Vy),
                    "condition": cond_text(c), "sV": V.ty_sexp(dec[0]), "sVy": V.ty_sexp(dec[1]), "scond": cond_sexp(c),
                    "scond_y": cond_sexp(swap_vars(c))}
            todo.append((j, c, pos, dec, case, metas[j], exact))
        model = None
        if with_model and todo:
            lines = []
            for j, c, pos, dec, case, kinds, exact in todo:
                lines += ["narrowb %s %s 1" % (case["sV"], case["scond"]), "narrowb %s %s 0" % (case["sV"], case["scond"]),
                          "narrowb %s %s 1" % (case["sVy"], case["scond_y"]), "narrowb %s %s 0" % (case["sVy"], case["scond_y"])]
            out = lean.run_driver("C02", lines)
            model = [out[k:k + 4] for k in range(0, len(out), 4)]
        lost, spec_lines, spec_ref = [], [], []
        for n, (j, c, pos, dec, case, kinds, exact) in enumerate(todo):
            um = unmodelled(dec[0], c) or unmodelled(dec[1], swap_vars(c)) or not exact
            conforms = True
            # revealed: [x0, y0, x_body, y_body, (x_else, y_else)]; after a `while` the subject is deliberately not narrowed
            pairs = [(2, 0, "x if-branch"), (3, 2, "y if-branch")]
            if pos == "assertmsg":
                pairs = [(2, 1, "x else-branch"), (3, 3, "y else-branch")]   # the message is evaluated when the test is false
            elif pos not in ("assert", "while", "walrus", "comp"):
                # (after a `while` and in the else branch of `if (t := cond)` the checker deliberately narrows less;
                #  those branches are judged by the execution below only)
                pairs += [(4, 1, "x else-branch"), (5, 3, "y else-branch")]
            if model is not None and not um:
                for di, mi, what in pairs:
                    ctx.corr("flow")
                    m = model[n][mi]
                    got = set(canon_result(dec[di]))
                    exp = set() if m == "bad-op" else set(canon_sexp_result(m))
                    # The body of an `if` sees the variable as the bool-op subscopes left it: `A or B` evaluates B under
                    # not-A, and the scopes of the operands are merged, which can add members the narrowing by not-A created
                    # (Literal[False] beside bool, an isinstance pattern, ...). So the revealed type may be *wider* than
                    # `narrowB`; every member of the model's type must be there (a narrower implementation is a disagreement).
                    if m == "bad-op" or not exp <= got:
                        conforms = False
                        ctx.disagree("flow", dict(case, branch=what), sorted(got), m if m == "bad-op" else sorted(exp))
                    elif got != exp:
                        ctx.tag("flow_wider_by_subscope_merge")
            if canon_result(dec[2]) != canon_result(dec[0]) or (len(dec) > 4 and canon_result(dec[4]) != canon_result(dec[0])):
                ctx.nontriv("flow|" + case["sV"] + "|" + case["scond"] + "|" + pos)
            if n % 61 == 0:
                ctx.sample({"x": case["type"], "y": case["type_y"], "position": pos, "condition": case["condition"],
                            "revealed": [V.ty_sexp(d) for d in dec[2:]]})
            f = ns["g%d" % j]
            xs = [(o, py) for o, py in objects_for(rng, dec[0], c, 0) if G.member(py, dec[0]) and not property_silent(dec[0], o)]
            xlits = {V.obj_sexp(V.canon_obj(l)) for l in cond_literals(c)}
            xs.sort(key=lambda q: (V.obj_sexp(V.canon_obj(q[0])) not in xlits, q[0][0] in ("tuple", "list", "set", "fset", "dict")))
            ys = [(o, V.obj_to_py(o)) for o in Y_OBJS if G.member(V.obj_to_py(o), dec[1])] or [(("none",), None)]
            ids = sorted(i for i in kinds if i not in CONST_BITS)
            found = False
            for (ox, px), (oy, pyy) in itertools.product(xs[:ctx.n(10, 16)], ys[:3]):
                if found:
                    break
                if not all(_eq_safe(px, V.obj_to_py(l)) for l in cond_literals(c)):
                    continue
                if not all(_eq_safe(pyy, V.obj_to_py(l)) for l in cond_literals(swap_vars(c))):
                    continue
                for bits in itertools.product([False, True], repeat=len(ids)):
                    full = [False, False, True, False]
                    kw = {}
                    for i, bv in zip(ids, bits):
                        full[i] = bv
                        kd = kinds[i]
                        if kd == "eqab":
                            kw["a%d" % i], kw["b%d" % i] = 1, (1 if bv else 2)
                        elif kd == "isab":
                            kw["a%d" % i], kw["b%d" % i] = S1, (S1 if bv else S2)
                        elif kd == "inab":
                            kw["a%d" % i], kw["b%d" % i] = 1, ([1] if bv else [])
                        elif kd == "isvar":
                            kw["k%d" % i] = object if bv else _Nope
                        elif kd == "isx":
                            kw["a%d" % i] = px if bv else S1
                    ns["BITS"][:] = full
                    try:
                        with contextlib.redirect_stderr(io.StringIO()):
                            r = f(px, pyy, **kw)
                    except AssertionError:
                        r = 0
                        if pos not in ("assert", "assertmsg"):
                            raise
                    except Exception:  # noqa: BLE001   (the test raises on this object: outside the quantifier)
                        continue
                    if isinstance(r, tuple):
                        r = r[-1]
                    # the spec's truth of the condition in this state vs what CPython did
                    if with_model and len(spec_lines) < ctx.n(1500, 20000):
                        spec_lines.append("checkbe %s %s 1 %s %s (%s)" % (case["sV"], case["scond"], V.obj_sexp(V.canon_obj(ox)),
                                                                         V.obj_sexp(V.canon_obj(oy)), " ".join("1" if b else "0" for b in full)))
                        spec_ref.append(r == 1)
                    if pos in ("assert", "comp") and r == 0:
                        continue
                    if pos == "assertmsg" and r == 1:
                        continue
                    if pos == "while" and r == 0:
                        xi, yi = None, None
                    elif pos == "assertmsg":
                        xi, yi = 2, 3
                    else:
                        xi, yi = (2, 3) if r == 1 else (4, 5)
                    bad = None
                    if xi is not None and not G.member(px, dec[xi]):
                        bad = ("x", ox, px, case["sV"], case["scond"], oy)
                    elif yi is not None and not G.member(pyy, dec[yi]) and not property_silent(dec[1], oy):
                        bad = ("y", oy, pyy, case["sVy"], case["scond_y"], ox)
                    if bad:
                        lost.append((case, bad, r, full, conforms))
                        found = True
                        break
        if with_model and spec_lines:
            out = lean.run_driver("C02", spec_lines)
            for l, m, ref in zip(spec_lines, out, spec_ref):
                if m == "bad-op" or m[1] != "1":
                    continue   # outside condOk (cross-type equality etc.)
                ctx.corr("spec")
                if m[2] != ("1" if ref else "0"):
                    ctx.disagree("spec", l, "the if-branch ran: %s" % ref, m)
        dl = []
        if with_model and lost:
            dl = lean.run_driver("C02", ["checkbe %s %s %d %s %s (%s)" % (sv, sc, 1 if r == 1 else 0, V.obj_sexp(V.canon_obj(o)),
                                                                        V.obj_sexp(V.canon_obj(oo)), " ".join("1" if b else "0" for b in full))
                                         for case, (var, o, py, sv, sc, oo), r, full, conf in lost])
        for n, (case, (var, o, py, sv, sc, oo), r, full, conf) in enumerate(lost):
            l = dl[n] if n < len(dl) else ""
            cls = live_cls(l.split(" D=")[1].split(",")) if " D=" in l else None
            model_lost = (" D=" in l) and l[3] == "0"
            ctx.candidate(dict(case, variable=var, object=repr(py), obj=o, other_obj=oo, bits=full, ran="if-branch" if r == 1 else "else-branch",
                               driver=l, program="def g(x: %s, y: %s, ...):  # %s position\n    %s" % (
                                   case["type"], case["type_y"], case["pos"], case["condition"])),
                          "really executed: with %s = %r and the opaque operands = %s the %s runs, but the object does not belong to the "
                          "type pyanalyze infers for %s there" % (var, py, full, "if-branch" if r == 1 else "else-branch", var),
                          cls=cls, conforms=conf and model_lost, stream="flow-keeps")


# ------------------------------------------------------------------ match statements (patma), really executed
# patterns: ("msingle", obj)  case None/True/False (identity)   ("mvalue", obj)  case 1 / 'a' / Color.RED (==)
#           ("mclass", cid)   case int():                       ("mwild",)       case _:        ("mor", [pats])
M_SINGLES = [("none",), ("bool", 1), ("bool", 0)]
M_VALUES = [("int", 0), ("int", 1), ("int", 2), ("int", -1), ("str", "a"), ("str", ""), ("inst", V.CID[U.Color], 0),
            ("inst", V.CID[U.Color], 1), ("inst", IE, 0)]
M_CLASSES = [G.INT, G.BOOL, G.STR, G.FLOAT, V.CID[U.Color], V.CID[U.A], V.CID[U.B], G.TUPLE]
# subjects: declared types containing ==-equal literals of different types (1 / True, 0 / False), Optional / enum / bool mixes
M_ATOMS = [("known", ("int", 1)), ("known", ("int", 0)), ("known", ("int", 2)), ("known", ("bool", 1)), ("known", ("bool", 0)),
           ("known", ("none",)), ("known", ("str", "a")), ("known", ("str", "")), ("typed", G.INT), ("typed", G.BOOL),
           ("typed", G.FLOAT), ("typed", G.STR), ("typed", 0), ("typed", V.CID[U.Color]), ("typed", IE),
           ("known", ("inst", V.CID[U.Color], 0)), ("known", ("inst", IE, 0)), ("typed", V.CID[U.A]), ("typed", V.CID[U.B]),
           ("seq", G.TUPLE, [("typed", G.INT)]), ("generic", G.LIST, [("typed", G.BOOL)]), ("typed", G.COMPLEX)]


def case_pat(p):
    return p[1] if p[0] == "guard" else p


def case_guard(p):
    return p[2] if p[0] == "guard" else None


def case_sexp(p):
    g = case_guard(p)
    return "(case %s %s)" % (pat_sexp(case_pat(p)), "-" if g is None else cond_sexp(g))


def pat_sexp(p):
    k = p[0]
    if k == "mcap":
        return "mwild"   # a capture pattern matches like the wildcard (AlwaysMatching) and binds the name `cap`
    if k in ("msingle", "mvalue"):
        return "(%s %s)" % (k, V.obj_sexp(V.canon_obj(p[1])))
    if k == "mclass":
        return "(mclass %d)" % p[1]
    if k == "mwild":
        return "mwild"
    return "(mor %s)" % " ".join(pat_sexp(x) for x in p[1])


def pat_src(p):
    k = p[0]
    if k == "guard":
        a, b = pat_src(p[1]), cond_text(p[2])
        return None if a is None or b is None else "%s if %s" % (a, b)
    if k == "mcap":
        return "cap"
    if k in ("msingle", "mvalue"):
        return lit_src(p[1])
    if k == "mclass":
        return "%s()" % ty_src(("typed", p[1]))
    if k == "mwild":
        return "_"
    return " | ".join(pat_src(x) for x in p[1])


def pat_value_literals(p):
    if p[0] == "guard":
        return pat_value_literals(p[1])
    if p[0] == "mvalue":
        return [p[1]]
    if p[0] == "mor":
        return [l for x in p[1] for l in pat_value_literals(x)]
    return []


def guard_subject_literals(p):
    """==/in literals a guard compares the subject (or its capture) with"""
    g = case_guard(p)
    if g is None:
        return []
    def caps(t):
        if t[0] == "cap":
            return cond_literals(t[1])
        if t[0] == "not":
            return caps(t[1])
        if t[0] in ("and", "or"):
            return [l for x in t[1] for l in caps(x)]
        return []
    return cond_literals(g) + caps(g)


def pat_all_literals(p):
    if p[0] == "guard":
        return pat_all_literals(p[1]) + guard_subject_literals(p)
    if p[0] in ("mvalue", "msingle"):
        return [p[1]]
    if p[0] == "mor":
        return [l for x in p[1] for l in pat_all_literals(x)]
    return []


def gen_pat(rng, top=True):
    r = rng.random()
    if r < 0.42:
        return ("msingle", rng.choice(M_SINGLES))
    if r < 0.72:
        return ("mvalue", rng.choice(M_VALUES))
    if r < 0.86 or not top:
        return ("mclass", rng.choice(M_CLASSES))
    return ("mor", [gen_pat(rng, False), gen_pat(rng, False)])


GUARD_X = ["isinst", "is", "isnot", "eq", "ne", "in", "truthy"]


def gen_guard(rng, Vt, Vz, is_capture):
    """a guard of the flow grammar: atoms on the subject, on the capture, on another variable z (spelled y), opaque calls"""
    def atom():
        r = rng.random()
        if r < 0.42:
            return ("opq", rng.randrange(2), "call")
        if r < 0.65:
            return gen_leaf(rng, Vt, GUARD_X)
        if r < 0.8 and is_capture:
            return ("cap", gen_leaf(rng, Vt, GUARD_X))
        return ("other", gen_leaf(rng, Vz, GUARD_X))
    def tree(d):
        if d == 0 or rng.random() < 0.45:
            a = atom()
            return ("not", a) if rng.random() < 0.25 else a
        t = (rng.choice(["and", "or"]), [tree(d - 1), tree(d - 1)])
        return ("not", t) if rng.random() < 0.15 else t
    return tree(rng.choice([0, 0, 1, 2]))


def gen_match_case(rng):
    n = rng.choice([1, 2, 2, 3])
    members = []
    for _ in range(n + 1):
        a = rng.choice(M_ATOMS)
        if a not in members:
            members.append(a)
    Vt = G.norm_term(("union", members))
    pats = [gen_pat(rng) for _ in range(rng.choice([1, 2, 2, 3]))]
    if rng.random() < 0.35:
        pats.append(("mwild",) if rng.random() < 0.6 else ("mcap",))
    Vz = rng.choice(Y_POOL)
    # guards: a case may carry a condition of the flow grammar (the last case too)
    pats = [("guard", p, gen_guard(rng, Vt, Vz, p[0] == "mcap")) if rng.random() < 0.45 else p for p in pats]
    return Vt, pats, rng.random() < 0.4, Vz   # third: every body returns (after the statement = fall-through path only)


def std_match_cases():
    """fixed cases: every singleton pattern against every pair of ==-equal literals of different type"""
    out = []
    mixes = [[("known", ("int", 1)), ("known", ("str", "a"))], [("known", ("int", 1)), ("known", ("bool", 1))],
             [("known", ("int", 0)), ("known", ("bool", 0))], [("known", ("int", 0)), ("known", ("none",))],
             [("typed", G.INT), ("known", ("none",))], [("typed", G.BOOL), ("known", ("int", 1))],
             [("typed", G.FLOAT), ("known", ("bool", 1))], [("typed", G.INT), ("typed", G.STR)],
             [("known", ("int", 1)), ("known", ("int", 0)), ("known", ("bool", 1)), ("known", ("bool", 0)), ("known", ("none",))],
             [("typed", V.CID[U.Color]), ("known", ("bool", 1)), ("known", ("int", 1))], [("typed", IE), ("known", ("none",))]]
    for ms in mixes:
        Vt = G.norm_term(("union", ms))
        for sg in M_SINGLES:
            for leave in (False, True):
                out.append((Vt, [("msingle", sg)], leave))
                out.append((Vt, [("msingle", sg), ("mwild",)], leave))
        out.append((Vt, [("msingle", ("bool", 1)), ("msingle", ("bool", 0)), ("msingle", ("none",))], False))
        out.append((Vt, [("msingle", ("bool", 1)), ("mvalue", ("int", 1)), ("mor", [("msingle", ("none",)), ("mvalue", ("str", "a"))]),
                         ("mwild",)], False))
        out.append((Vt, [("mvalue", ("int", 1)), ("msingle", ("bool", 1))], True))
        out.append((Vt, [("mclass", G.BOOL), ("msingle", ("none",)), ("mvalue", ("int", 0))], False))
    # guards without a constraint (the shapes of the seeded change C02-3) and their neighbours
    OI = G.norm_term(("union", [("typed", G.INT), ("known", ("none",))]))
    L1A = G.norm_term(("union", [("known", ("int", 1)), ("known", ("str", "a"))]))
    CB = G.norm_term(("union", [("typed", V.CID[U.Color]), ("typed", G.BOOL)]))
    opq, nopq = ("opq", 0, "call"), ("not", ("opq", 0, "call"))
    for leave in (False, True):
        for g in (opq, nopq, ("and", [opq, ("opq", 1, "call")]), ("or", [opq, ("other", ("is", ("none",)))]),
                  ("other", ("is", ("none",))), ("isnot", ("none",)), ("and", [opq, ("truthy",)])):
            out.append((OI, [("guard", ("msingle", ("none",)), g), ("mwild",)], leave))
            out.append((OI, [("guard", ("msingle", ("none",)), g), ("guard", ("mwild",), opq)], leave))
            out.append((L1A, [("guard", ("mvalue", ("int", 1)), g), ("mvalue", ("str", "a")), ("mwild",)], leave))
            out.append((CB, [("guard", ("mvalue", ("inst", V.CID[U.Color], 0)), g), ("guard", ("msingle", ("bool", 1)), g), ("mcap",)], leave))
            out.append((OI, [("guard", ("mcap",), ("and", [("cap", ("is", ("none",))), g])), ("mwild",)], leave))
            out.append((OI, [("guard", ("mor", [("msingle", ("none",)), ("mvalue", ("int", 1))]), g)], leave))
    return out


def corpus_match_cases():
    path = os.path.join(lean.HERE, "corpus", "C02.jsonl")
    out = []
    if os.path.exists(path):
        for l in open(path):
            if l.strip():
                d = json.loads(l)
                if "match" in d:
                    out.append((totuple(d["V"]), [totuple(p) for p in d["match"]], bool(d.get("leave"))) +
                               ((totuple(d["Vz"]),) if "Vz" in d else ()))
    return out


def match_stream(ctx, checker, with_model, cases=None):
    """`match` statements (patterns, guards of the flow grammar, captures) through the checker, *really executed* on every
    object of the declared type and both values of every opaque bit: the object must belong to the type revealed in the body
    of the case that runs and to the type revealed after the statement."""
    import contextlib, io
    OI = ("union", [("typed", G.INT), ("known", ("none",))])
    if cases is None:
        cases = corpus_match_cases() + std_match_cases() + [gen_match_case(ctx.rng) for _ in range(ctx.n(170, 2500))]
    cases = [(c[0], c[1], c[2], c[3] if len(c) > 3 else OI) for c in cases]
    cases = [(Vt, pats, leave, Vz) for Vt, pats, leave, Vz in cases
             if spellable(Vt) and all(pat_src(p) is not None for p in pats)]
    B = 150
    for b0 in range(0, len(cases), B):
        part = cases[b0:b0 + B]
        src = [PRELUDE.rstrip("\n"), "from typing_extensions import reveal_type", "from types import NoneType",
               "BITS = [False, False, True, False]", "def flag0() -> bool:\n    return BITS[0]", "def flag1() -> bool:\n    return BITS[1]"]
        for j, (Vt, pats, leave, Vz) in enumerate(part):
            src.append("def m%d(x: %s, y: %s):" % (j, ty_src(Vt), ty_src(Vz)))
            src.append("    reveal_type(x)")
            src.append("    r = -1")
            src.append("    match x:")
            for i, p in enumerate(pats):
                src.append("        case %s:" % pat_src(p))
                src.append("            reveal_type(x)")
                src.append("            return %d" % i if leave else "            r = %d" % i)
            src.append("    reveal_type(x)")
            src.append("    return r")
        text = "\n".join(src) + "\n"
        try:
            fails, tree, _ = pya.check_source(text, annotate=True)
        except Exception as e:  # noqa: BLE001
            ctx.obligation_broken("match", "checker crashed on a generated module: %r" % (e,))
            continue
        ns = {}
        with contextlib.redirect_stderr(io.StringIO()):
            exec(compile(text, "<c02 match batch>", "exec"), ns)   # the same module, run by CPython
        revealed = {}
        for node in ast.walk(tree):
            if isinstance(node, ast.FunctionDef) and node.name.startswith("m"):
                vals = []
                for sub in ast.walk(node):
                    if isinstance(sub, ast.Call) and isinstance(sub.func, ast.Name) and sub.func.id == "reveal_type":
                        vals.append((sub.lineno, getattr(sub.args[0], "inferred_value", None)))
                revealed[int(node.name[1:])] = [v for _, v in sorted(vals, key=lambda q: q[0])]
        todo = []
        for j, (Vt, pats, leave, Vz) in enumerate(part):
            vals = revealed.get(j)
            guarded = any(p[0] == "guard" for p in pats)
            ctx.count(1, match=1, match_guarded=int(guarded), **{"match_%s" % case_pat(p)[0]: 1 for p in pats})
            case = {"type": ty_src(Vt), "type_y": ty_src(Vz), "match": pats, "leave": leave, "Vz": Vz,
                    "patterns": [pat_src(p) for p in pats], "spats": "(%s)" % " ".join(case_sexp(p) for p in pats)}
            if not vals or len(vals) != len(pats) + 2 or vals[0] is None:
                ctx.tag("match_not_revealed")
                continue
            dec = []
            for v in vals:
                try:
                    dec.append(None if v is None else V.value_to_ty(strip_constraint_ext(v)))
                except V.Unencodable:
                    dec.append(None)   # e.g. the unreachable code after an exhaustive statement whose bodies all return
            if dec[0] is None:
                ctx.tag("match_unencodable")
                continue
            Vd = dec[0]
            case["V"] = Vd
            case["sV"] = V.ty_sexp(Vd)
            todo.append((j, Vd, pats, leave, dec, case, Vz))
        model = None
        if with_model and todo:
            lines = []
            for j, Vd, pats, leave, dec, case, Vz in todo:
                for i in range(len(pats)):
                    lines.append("gmatch %s %s %d" % (case["sV"], case["spats"], i))
                lines.append(("gmatch %s %s %d" % (case["sV"], case["spats"], len(pats))) if leave
                             else "gmatchafter %s %s" % (case["sV"], case["spats"]))
            out = lean.run_driver("C02", lines)
            model, pos = [], 0
            for j, Vd, pats, leave, dec, case, Vz in todo:
                model.append(out[pos:pos + len(pats) + 1])
                pos += len(pats) + 1
        lost = []
        for n, (j, Vd, pats, leave, dec, case, Vz) in enumerate(todo):
            lits = [l for p in pats for l in pat_all_literals(p)]
            guards = [case_guard(p) for p in pats if case_guard(p) is not None]
            # a guard atom on the subject itself is evaluated in the scope the pattern left (the subject may already be a single
            # literal, an operand may be unreachable: see the flow stream), which the constraint model does not describe: the
            # revealed types are compared with the model for guards over opaque operands, captures and other variables; every
            # statement is judged by executing it
            simple = all(not leaves(g) for g in guards)
            comparable = simple and no_cross_eq(lits, Vd) and not any(unmodelled(Vd, g) for g in guards) and \
                not any(s[0] in ("typed", "generic") and s[1] in _protos() for s in subterms(Vd))
            conforms = True
            if model is not None and comparable:
                for i in range(len(pats) + 1):
                    r = dec[1 + i]
                    if r is None:
                        continue
                    m = model[n][i]
                    if leave and i == len(pats) and m == "(union)":
                        # every object leaves through a case body: the code after the statement is unreachable, what is
                        # revealed there is not a narrowing result (no object reaches it; the search below confirms that)
                        ctx.tag("match_after_unreachable")
                        continue
                    ctx.corr("match")
                    if m == "bad-op" or canon_result(r) != canon_sexp_result(m):
                        conforms = False
                        ctx.disagree("match", dict(case, body=i if i < len(pats) else "after"), canon_result(r),
                                     m if m == "bad-op" else canon_sexp_result(m))
            if canon_result(Vd) != canon_result(dec[1] or Vd):
                ctx.nontriv("match|" + case["sV"] + "|" + case["spats"])
            if n % 97 == 0:
                ctx.sample({"type": case["type"], "patterns": case["patterns"],
                            "revealed": [None if d is None else V.ty_sexp(d) for d in dec[1:]]})
            if G.has_any(Vd):
                continue
            # the ==/!= exemption of the quantifier applies to *value* patterns and to ==/in atoms of guards only; singleton
            # patterns are identity tests
            vlits = [V.obj_to_py(l) for p in pats for l in pat_value_literals(p) + guard_subject_literals(p)]
            zlits = [V.obj_to_py(l) for g in guards for l in cond_literals(swap_vars(g))]
            ids = sorted({i for g in guards for i in opaque_ids(g)})
            ys = [(o, V.obj_to_py(o)) for o in Y_OBJS if G.member(V.obj_to_py(o), Vz)][:2] or [(("none",), None)]
            if not any(has_other(g) for g in guards):
                ys = ys[:1]
            f = ns["m%d" % j]
            found = False
            for o, py in objects_for(ctx.rng, Vd, ("truthy",), 2):
                if found:
                    break
                if not G.member(py, Vd) or property_silent(Vd, o):
                    continue
                if not all(_eq_safe(py, l) for l in vlits) or not no_cross_eq([o], Vd):
                    continue
                for (oy, pyy), bits in itertools.product(ys, itertools.product([False, True], repeat=len(ids))):
                    if not all(_eq_safe(pyy, l) for l in zlits):
                        continue
                    full = [False, False, True, False]
                    for i, bv in zip(ids, bits):
                        full[i] = bv
                    ns["BITS"][:] = full
                    try:
                        with contextlib.redirect_stderr(io.StringIO()):
                            ran = f(py, pyy)
                    except Exception:  # noqa: BLE001   (a guard raises on this object: outside the quantifier)
                        continue
                    body = dec[1 + ran] if ran >= 0 else None
                    after = dec[1 + len(pats)]
                    bad = None
                    if body is not None and not G.member(py, body):
                        bad = "the body of case %d (`case %s`) runs" % (ran, pat_src(pats[ran]))
                    elif after is not None and (ran < 0 or not leave) and not G.member(py, after):
                        bad = "execution continues after the match statement (%s)" % ("no case matched" if ran < 0 else "case %d ran" % ran)
                    if bad:
                        lost.append((case, pats, o, py, ran, bad, conforms, oy, full))
                        found = True
                        break
        dl = []
        if with_model and lost:
            dl = lean.run_driver("C02", ["gmatchcheck %s %s %s %s (%s)" % (c["sV"], c["spats"], V.obj_sexp(V.canon_obj(o)),
                                                                          V.obj_sexp(V.canon_obj(oy)), " ".join("1" if b else "0" for b in full))
                                         for c, pats, o, py, ran, bad, conf, oy, full in lost])
        for n, (case, pats, o, py, ran, bad, conf, oy, full) in enumerate(lost):
            l = dl[n] if n < len(dl) else ""
            cls = live_cls(l.split(" D=")[1].split(",")) if " D=" in l else None
            model_lost = (" D=" in l) and (l[2] == "0" or l[3] == "0")
            prog = "def f(x: %s, y: %s):\n    match x:\n%s" % (case["type"], case["type_y"],
                                                               "".join("        case %s: ...\n" % q for q in case["patterns"]))
            ctx.candidate(dict(case, object=repr(py), obj=o, other_obj=oy, bits=full, ran=ran, driver=l, program=prog),
                          "match statement really executed with x = %r, opaque operands = %s: %s, but the object does not belong to "
                          "the type pyanalyze infers for the subject there" % (py, full, bad), cls=cls,
                          conforms=conf and model_lost, stream="match-keeps")


_PROTOS = []


def _protos():
    if not _PROTOS:
        from harness.props.c04 import proto_set
        _PROTOS.append(proto_set())
    return _PROTOS[0]


def strip_constraint_ext(v):
    """reveal_type's argument carries bookkeeping extensions (ConstraintExtension of the truthiness of the name); drop them"""
    from pyanalyze.stacked_scopes import ConstraintExtension
    from pyanalyze.value import unannotate_value
    v, _ = unannotate_value(v, ConstraintExtension)
    return v


def e2e_norm(t):
    """how the annotation is read: `None` is Literal[None]; typing de-duplicates union members"""
    from harness.props.c03 import normalise
    return normalise(t)


def run(ctx):
    evaluate(ctx, corpus_triples() + gen_triples(ctx))


def run_impl_only(ctx):
    evaluate(ctx, corpus_triples() + gen_triples(ctx), with_model=False)


def replay(ctx, data):
    c = data["case"]
    if c.get("flow"):
        flow_stream(ctx, pya.make_checker(), True, cases=[(totuple(c["Vx"]), totuple(c["Vy"]), totuple(c["cond"]), c["pos"])])
        print(json.dumps({"candidates": ctx.candidates[:3], "broken": ctx.broken[:3]}, indent=1, default=str))
        return 1 if (ctx.candidates or ctx.broken) else 0
    if "match" in c:
        match_stream(ctx, pya.make_checker(), True, cases=[(totuple(c["V"]), [totuple(p) for p in c["match"]], bool(c.get("leave"))) +
                                                           ((totuple(c["Vz"]),) if "Vz" in c else ())])
        print(json.dumps({"candidates": ctx.candidates[:3], "broken": ctx.broken[:3]}, indent=1, default=str))
        return 1 if (ctx.candidates or ctx.broken) else 0
    evaluate(ctx, [(totuple(c["V"]), totuple(c["cond"]))], replaying=True)
    print(json.dumps({"candidates": ctx.candidates[:3], "broken": ctx.broken[:3]}, indent=1, default=str))
    return 1 if (ctx.candidates or ctx.broken) else 0
