"""C03 — assignability of a concrete value equals runtime membership.

Streams
  ca     : Value-level  T.can_assign(KnownValue(o))            vs Lean `ca liveTable false T (known o)`
  runtime: pyanalyze.runtime.is_assignable(o, <typing object>) (goes through type_from_runtime) -> property
  route  : type_from_runtime(<typing object>) decoded structurally vs the term it was built from
  diag   : `x: T = <literal>` through the checker: incompatible_assignment reported?             -> property
  spec   : Lean `mem liveTable o T` vs the Python reference `member` (CPython isinstance based)
Property: is_assignable(o, T) == member(o, T); diagnosed <=> not member.
"""
import json, typing, collections.abc as cabc

from harness.common import lean, pya, values as V, gen_values as G
from harness import universe as U

PROP = "C03"
LEAN_PROP = "PyaModel.Props.C03"
LEAN_TARGETS = ["PyaModel.Core.Sexp", "PyaModel.Spec.Mem", "PyaModel.Generated.ClassTable", "PyaModel.Spec.WF"]
ANCHORS = [
    ("pyanalyze/runtime.py", "is_assignable"),
    ("pyanalyze/value.py", "Value.can_assign"),
    ("pyanalyze/value.py", "KnownValue.can_assign"),
    ("pyanalyze/value.py", "TypedValue.can_assign"),
    ("pyanalyze/value.py", "NewTypeValue.can_assign"),
    ("pyanalyze/value.py", "GenericValue.can_assign"),
    ("pyanalyze/value.py", "SequenceValue.can_assign"),
    ("pyanalyze/value.py", "SubclassValue.can_assign"),
    ("pyanalyze/value.py", "MultiValuedValue.can_assign"),
    ("pyanalyze/value.py", "AnnotatedValue.can_assign"),
    ("pyanalyze/value.py", "replace_known_sequence_value"),
    ("pyanalyze/type_object.py", "TypeObject.can_assign"),
    ("pyanalyze/type_object.py", "TypeObject.__post_init__"),
]
RULE = (
    "objects: all scalars/class objects/containers of <=2 scalars (exhaustive list) plus seeded random nested containers; "
    "types: seeded random static type terms of depth <=2 (quick) / <=3 (thorough) over classes, Literal, unions, "
    "list/set/frozenset/dict/tuple generics, fixed and variadic tuples, Sequence/Mapping/Iterable/..., NewType, type[...], "
    "Annotated; non-trivial = the type is not a bare class and the pair is not rejected on the top-level class alone; "
    "distinct by (type, object) text. Excluded from the oracle (property silent): str/bytes objects against generic ABC targets"
)
ASSUMPTIONS = [
    "class-level facts (TypeObject nominal relation incl. protocol checks, generic bases from typeshed) enter the model as a table regenerated from the live tree (Generated/ClassTable.lean); obligations over the table are re-checked by the kernel each run",
    "TypedDict, Callable, TypeVar-bearing and mock types are outside the Lean model (TypedDict membership is searched on the implementation only)",
    "NewType membership = exact supertype class; promotion applies under type[...] (DESIGN §6/C03 oracle decisions)",
    "objects with an IntEnum member nested in a container are not generated: Python has (IE.X,) == (1,), the Lean object equality keeps enum members apart from ints (harness/common/gen_values.py _no_nested_intenum)",
]
TRUSTED = ["Spec/Mem.lean (mem) is validated against a CPython-isinstance based reference on every run (stream spec)"]


# ------------------------------------------------------------------ typing objects / source text
def ty_to_typing(t):
    k = t[0]
    if k == "any":
        return typing.Any
    if k == "known":
        return typing.Literal[V.obj_to_py(t[1])]
    if k == "typed":
        c = V.CLASSES[t[1]]
        return None if c is type(None) and False else c
    if k == "newtype":
        return V.NEWTYPES[t[1]]
    if k == "annotated":
        inner = ty_to_typing(t[1])
        return None if inner is None else typing.Annotated[inner, "meta"]
    if k == "union":
        if not t[1]:
            return typing.NoReturn
        parts = [ty_to_typing(x) for x in t[1]]
        if any(p is None for p in parts):
            return None
        try:
            return typing.Union[tuple(parts)]
        except TypeError:  # typing cannot build a union holding a Literal of an unhashable object
            return None
    if k == "subclass":
        return type[V.CLASSES[t[1]]]
    if k == "generic":
        c = V.CLASSES[t[1]]
        args = [ty_to_typing(x) for x in t[2]]
        if any(a is None for a in args):
            return None
        if c is tuple:
            return tuple[args[0], ...]
        try:
            return c[tuple(args)] if len(args) > 1 else c[args[0]]
        except TypeError:
            return None
    if k == "seq":
        if V.CLASSES[t[1]] is not tuple:
            return None
        parts = []
        for m in t[2]:
            if m[0] == "many":
                inner = ty_to_typing(m[1])
                if inner is None:
                    return None
                parts.append(typing.Unpack[tuple[inner, ...]])
            else:
                p = ty_to_typing(m)
                if p is None:
                    return None
                parts.append(p)
        if sum(1 for m in t[2] if m[0] == "many") > 1:
            return None
        return tuple[tuple(parts)] if parts else tuple[()]
    return None


def normalise(t):
    """What `typing` itself does to the expression (dedup/flatten of Union and Literal), so `route` compares like with like."""
    k = t[0]
    if k == "typed" and t[1] == G.NONE:
        return ("known", ("none",))  # the annotation `None` is Literal[None] in pyanalyze
    if k == "union":
        out = []
        for x in t[1]:
            x = normalise(x)
            if x[0] == "annotated" and x[1][0] == "union":
                # MultiValuedValue distributes the metadata of an annotated union member over its members
                x = ("union", [("annotated", y) for y in x[1][1]])
            for y in (x[1] if x[0] == "union" else [x]):
                if y not in out:
                    out.append(y)
        return out[0] if len(out) == 1 else ("union", out)
    if k in ("generic", "seq"):
        return (k, t[1], [normalise(x) for x in t[2]])
    if k in ("many", "annotated"):
        return (k, normalise(t[1]))
    return t


def canon_union(t):
    """C03 is not about the order of union members (C10 is): compare unions as sorted lists."""
    k = t[0]
    if k == "union":
        return ("union", sorted((canon_union(x) for x in t[1]), key=repr))
    if k in ("generic", "seq"):
        return (k, t[1], [canon_union(x) for x in t[2]])
    if k in ("many", "annotated"):
        return (k, canon_union(t[1]))
    return t


NAMES = {c: V.cname(c) for c in V.CLASSES}


def ty_src(t):
    k = t[0]
    if k == "any":
        return "Any"
    if k == "known":
        return "Literal[%s]" % obj_src(t[1])
    if k == "typed":
        c = V.CLASSES[t[1]]
        if c is type(None):
            return "None"
        return {"EnumType": "EnumType", "Set": "AbstractSet"}.get(NAMES[c], NAMES[c])
    if k == "newtype":
        return "NT%d" % t[1]
    if k == "annotated":
        return "Annotated[%s, 'meta']" % ty_src(t[1])
    if k == "union":
        return "NoReturn" if not t[1] else "Union[%s]" % ", ".join(ty_src(x) for x in t[1])
    if k == "subclass":
        return "type[%s]" % ty_src(("typed", t[1]))
    if k == "generic":
        c = V.CLASSES[t[1]]
        if c is tuple:
            return "tuple[%s, ...]" % ty_src(t[2][0])
        return "%s[%s]" % (ty_src(("typed", t[1])), ", ".join(ty_src(x) for x in t[2]))
    if k == "seq":
        if not t[2]:
            return "tuple[()]"
        return "tuple[%s]" % ", ".join(("Unpack[tuple[%s, ...]]" % ty_src(m[1])) if m[0] == "many" else ty_src(m) for m in t[2])
    raise ValueError(t)


def obj_src(o):
    k = o[0]
    if k in ("int", "str"):
        return repr(o[1])
    if k == "bool":
        return repr(bool(o[1]))
    if k == "bytes":
        return repr(o[1].encode())
    if k == "none":
        return "None"
    if k == "flt":
        return repr(V.FLOATS[o[1]])
    if k == "cplx":
        return repr(V.COMPLEXES[o[1]])
    if k == "inst":
        c = V.CLASSES[o[1]]
        if c in (U.Color, U.IE):
            return "%s.%s" % (c.__name__, list(c)[o[2]].name)
        return None
    if k == "cls":
        c = V.CLASSES[o[1]]
        if c.__module__ == "collections.abc":
            return "cabc." + c.__name__  # the class object itself (typing.Sequence is an alias object, not a class)
        return ty_src(("typed", o[1]))
    if k in ("tuple", "list", "set", "fset"):
        parts = [obj_src(x) for x in o[1]]
        if any(p is None for p in parts):
            return None
        body = ", ".join(parts)
        if k == "tuple":
            return "(%s%s)" % (body, "," if len(parts) == 1 else "")
        if k == "list":
            return "[%s]" % body
        if k == "set":
            return "{%s}" % body if parts else None
        return None  # frozenset(...) is a call, not a literal
    if k == "dict":
        ks, vs = [obj_src(x) for x in o[1]], [obj_src(x) for x in o[2]]
        if any(p is None for p in ks + vs):
            return None
        return "{%s}" % ", ".join("%s: %s" % kv for kv in zip(ks, vs))
    return None


PRELUDE = (
    "from typing import Any, Literal, Union, Annotated, NoReturn, Sequence, Iterable, Collection, Container, Mapping, "
    "Hashable, Sized, MutableSequence, AbstractSet\n"
    "from typing_extensions import Unpack\nimport collections.abc as cabc\n"
    "from enum import Enum, IntEnum, EnumType\nfrom abc import ABCMeta\n"
    "from harness.universe import A, B, Cc, D, Color, IE, Fl, NT0, NT1, NT2\n"
)


# ------------------------------------------------------------------ regions
def subterms(t):
    yield t
    k = t[0]
    if k in ("generic", "seq"):
        for x in t[2]:
            yield from subterms(x)
    elif k == "union":
        for x in t[1]:
            yield from subterms(x)
    elif k in ("many", "annotated"):
        yield from subterms(t[1])


def subobjs(o):
    yield o
    if o[0] in ("tuple", "list", "set", "fset"):
        for x in o[1]:
            yield from subobjs(x)
    elif o[0] == "dict":
        for x in o[1] + o[2]:
            yield from subobjs(x)


ABCS = {G.SEQUENCE, G.ITERABLE, G.COLLECTION, G.CONTAINER, G.MUTSEQ, G.ABSSET}


def property_silent(t, o):
    """str/bytes objects against generic ABC targets: the property does not define element-wise membership there."""
    has_str = any(x[0] in ("str", "bytes") for x in subobjs(o))
    return has_str and any(s[0] == "generic" and s[1] in ABCS for s in subterms(t))


def translate(ctx):
    tb, changed = V.regenerate_class_table()
    ctx.extra["class_table_regenerated"] = {"changed_on_disk": changed, "classes": len(tb["names"])}


# ------------------------------------------------------------------ the check
def gen_cases(ctx):
    rng = ctx.rng
    depth = ctx.n(2, 3)
    small = G.small_objs()
    cases = []
    n = ctx.n(5000, 60000)
    for _ in range(n):
        t = G.gen_ty(rng, depth, allow_any=False, big_unhashable=True)
        r = rng.random()
        if r < 0.3:
            o = rng.choice(small)
        elif r < 0.4:
            o = G.gen_obj(rng, 2)
        else:
            o = G.gen_obj_for(rng, t)
            if rng.random() < 0.3:
                o = G.mutate_obj(rng, o)
        cases.append((t, o))
    return cases


def corpus_cases():
    import os
    path = os.path.join(lean.HERE, "corpus", "C03.jsonl")
    out = []
    if os.path.exists(path):
        for l in open(path):
            if l.strip():
                d = json.loads(l)
                out.append((totuple(d["ty"]), totuple(d["obj"])))
    return out


def totuple(x):
    if isinstance(x, list):
        if x and isinstance(x[0], str):
            return tuple(totuple(y) if i else y for i, y in enumerate(x))
        return [totuple(y) for y in x]
    return x


def evaluate(ctx, cases, with_model=True):
    from pyanalyze.runtime import is_assignable
    from pyanalyze.annotations import type_from_runtime
    from pyanalyze.value import CanAssignError, KnownValue

    checker = pya.make_checker()
    model = spec = dcls = None
    if with_model:
        lines = []
        for t, o in cases:
            ts, os_ = V.ty_sexp(t), V.obj_sexp(V.canon_obj(o))
            lines += ["ca 0 %s (known %s)" % (ts, os_), "mem %s %s" % (os_, ts), "d03 %s %s" % (ts, os_)]
        out = lean.run_driver("Val", lines)
        model, spec, dcls = out[0::3], out[1::3], out[2::3]
    diag_batch = []
    for i, (t, o) in enumerate(cases):
        case = {"type": ty_src(t), "object": repr(V.obj_to_py(o)), "ty": t, "obj": o}
        pyobj = V.obj_to_py(o)
        ref = G.member(pyobj, t)
        ctx.count(1, **{"T_" + t[0]: 1, "o_" + o[0]: 1, "member_%d" % ref: 1})
        if t[0] not in ("typed", "any"):
            ctx.nontriv(case["type"] + "|" + case["object"])
        # spec validation
        if spec is not None:
            ctx.corr("spec")
            if spec[i] != ("1" if ref else "0"):
                ctx.disagree("spec", case, "member=%s" % ref, "mem=%s" % spec[i])
        # value-level correspondence
        try:
            r = V.ty_to_value(t).can_assign(KnownValue(pyobj), checker)
            impl = "0" if isinstance(r, CanAssignError) else "1"
        except Exception as e:
            impl = "EXC:%s" % type(e).__name__
        conforms = True
        if model is not None:
            ctx.corr("ca")
            if impl != model[i]:
                conforms = False
                ctx.disagree("ca", case, impl, model[i])
        cls = None
        if dcls is not None and dcls[i] not in ("-", "bad-op"):
            names = dcls[i].split(",")
            # a class only explains failures in its own direction
            wants = ["variadicTuple"] if ref else ["frozensetLiteral", "protoClassObj"]
            cls = next((w for w in wants if w in names), None)
        silent = property_silent(t, o)
        if i % 499 == 0:
            ctx.sample({"type": case["type"], "object": case["object"], "can_assign": impl, "model": model[i] if model else None,
                        "member": ref, "D": dcls[i] if dcls else None})
        # runtime route + property
        tobj = ty_to_typing(t)
        if tobj is not None:
            try:
                val = type_from_runtime(tobj)
                dec = V.value_to_ty(val)
            except Exception as e:
                dec = "EXC:%s" % type(e).__name__
            ctx.corr("route")
            route_ok = canon_union(dec) == canon_union(normalise(t)) if not isinstance(dec, str) else False
            if not route_ok and not any(s[0] == "many" for s in subterms(t)):
                ctx.disagree("route", case, dec, normalise(t))
            try:
                ia = bool(is_assignable(pyobj, tobj))
            except Exception as e:
                ia = "EXC:%s" % type(e).__name__
            if not silent and ia != ref:
                ctx.candidate(case, "is_assignable(%s, %s) = %s but member = %s" % (case["object"], case["type"], ia, ref),
                              cls=cls, conforms=conforms and (route_ok or any(s[0] == "many" for s in subterms(t))),
                              stream="runtime")
        elif not silent and impl in ("0", "1") and (impl == "1") != ref:
            # inferred-value terms without a typing spelling (list/set SequenceValues): value-level verdict
            ctx.candidate(case, "can_assign = %s but member = %s" % (impl, ref), cls=cls, conforms=conforms, stream="ca")
        osrc = obj_src(o)
        if osrc is not None and tobj is not None and not silent and len(diag_batch) < ctx.n(1200, 8000):
            diag_batch.append((i, case, osrc, ref, cls, conforms))
    run_diag(ctx, cases, diag_batch)


def run_diag(ctx, cases, batch):
    B = 600
    for b0 in range(0, len(batch), B):
        part = batch[b0:b0 + B]
        src = [PRELUDE.rstrip("\n")]
        base = len(PRELUDE.rstrip("\n").split("\n"))
        src.append("def run() -> None:")
        for j, (i, case, osrc, ref, cls, conforms) in enumerate(part):
            src.append("    x%d: %s = %s" % (j, case["type"], osrc))
        fails, _, _ = pya.check_source("\n".join(src) + "\n")
        bad = {}
        for f in fails:
            if f["lineno"] and f["lineno"] > base + 1:
                bad.setdefault(f["lineno"] - base - 2, []).append(f["code"])
        for j, (i, case, osrc, ref, cls, conforms) in enumerate(part):
            codes = bad.get(j, [])
            diagnosed = "incompatible_assignment" in codes
            other = [c for c in codes if c != "incompatible_assignment"]
            ctx.count(1, diag=1)
            if other:
                ctx.tag("diag_other_" + other[0])
                continue
            if diagnosed == ref:
                ctx.candidate(dict(case, statement="x: %s = %s" % (case["type"], osrc)),
                              "`x: T = literal` %s but member = %s" % ("diagnosed" if diagnosed else "not diagnosed", ref),
                              cls=cls, conforms=conforms, stream="diag")


# ------------------------------------------------------------------ TypedDict (outside the Lean term language)
TD_FIELD_TYPES = [("typed", G.INT), ("typed", G.STR), ("typed", G.FLOAT), ("union", [("typed", G.INT), ("known", ("none",))]),
                  ("generic", G.LIST, [("typed", G.INT)]), ("known", ("str", "a")), ("typed", G.BOOL)]


def td_member(py, spec, extra_ok=True):
    """Reference membership in a TypedDict given as {key: (type term, required)} (decision (iv): open TypedDicts
    admit extra string keys)."""
    if type(py) is not dict:
        return False
    for k, (t, req) in spec.items():
        if k not in py:
            if req:
                return False
        elif not G.member(py[k], t):
            return False
    return all(isinstance(k, str) for k in py)


def td_stream(ctx):
    """is_assignable(o, TD) == member(o, TD) for generated TypedDicts, bare and nested; implementation-only search."""
    import typing
    from typing_extensions import NotRequired, Required, TypedDict
    from pyanalyze.runtime import is_assignable
    rng = ctx.rng
    n_td = ctx.n(40, 300)
    for ti in range(n_td):
        keys = rng.sample(["a", "b", "c", "d"], rng.choice([1, 2, 2, 3]))
        total = rng.random() < 0.6
        spec, fields = {}, {}
        for k in keys:
            t = rng.choice(TD_FIELD_TYPES)
            flip = rng.random() < 0.3
            req = total != flip
            spec[k] = (t, req)
            ann = ty_to_typing(t)
            fields[k] = (NotRequired[ann] if total else Required[ann]) if flip else ann
        TD = TypedDict("TD%d" % ti, fields, total=total)
        for _ in range(ctx.n(12, 30)):
            # objects: mostly near-members
            o = {}
            for k, (t, req) in spec.items():
                r = rng.random()
                if r < (0.9 if req else 0.6):
                    r2 = rng.random()
                    if r2 < 0.7:
                        o[k] = V.obj_to_py(G.gen_obj_for(rng, t))
                    elif r2 < 0.85:
                        o[k] = None
                    else:
                        o[k] = V.obj_to_py(rng.choice(G.SCALARS))
            r = rng.random()
            if r < 0.12:
                o["zz"] = 1
            elif r < 0.17:
                o[1] = 2
            wrap = rng.choice(["bare", "bare", "list", "optional", "tuple"])
            if wrap == "bare":
                T, obj, mem = TD, o, td_member(o, spec)
            elif wrap == "list":
                other = dict(o)
                T, obj, mem = typing.List[TD], [o, other], td_member(o, spec)
            elif wrap == "optional":
                if rng.random() < 0.2:
                    T, obj, mem = typing.Optional[TD], None, True
                else:
                    T, obj, mem = typing.Optional[TD], o, td_member(o, spec)
            else:
                T, obj, mem = typing.Tuple[int, TD], (1, o), td_member(o, spec)
            ctx.count(1, typeddict=1, **{"td_member_%d" % mem: 1})
            desc = {"type": "%s of TypedDict%s total=%s" % (wrap, {k: (ty_src(t), r_) for k, (t, r_) in spec.items()}, total),
                    "object": repr(obj)}
            ctx.nontriv("td|" + desc["type"] + "|" + desc["object"])
            try:
                ia = bool(is_assignable(obj, T))
            except Exception as e:
                ia = "EXC:%s" % type(e).__name__
            if ia != mem:
                cls = None
                if mem is False and ia is True and any(not isinstance(k, str) for k in o) and \
                        all((k in o and G.member(o[k], t)) or (k not in o and not req) for k, (t, req) in spec.items()):
                    cls = "typedDictNonStrKey"
                ctx.candidate(desc, "is_assignable = %s but member = %s (TypedDict)" % (ia, mem), cls=cls, conforms=True, stream="typeddict")


def run(ctx):
    evaluate(ctx, corpus_cases() + gen_cases(ctx))
    td_stream(ctx)


def run_impl_only(ctx):
    evaluate(ctx, corpus_cases() + gen_cases(ctx), with_model=False)
    td_stream(ctx)


def replay(ctx, data):
    c = data["case"]
    evaluate(ctx, [(totuple(c["ty"]), totuple(c["obj"]))])
    print(json.dumps({"candidates": ctx.candidates, "broken": ctx.broken}, indent=1, default=str))
    return 1 if (ctx.candidates or ctx.broken) else 0
