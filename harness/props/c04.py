"""C04 — type-to-type assignability: reflexive, sound for membership, lattice laws.

Streams
  ca   : Value-level A.can_assign(B) (plain and under set_exclude_any) vs Lean `ca liveTable x A B`
  spec : Lean `mem` vs the Python reference `member` on the witness objects
Property search on the implementation:
  soundness  : A accepts B, o in B  =>  o in A      (outside the documented leniencies L1-L4)
  laws       : A accepts A; Never accepted everywhere; object accepts everything; union on the right iff every member;
               a union accepts what a member accepts; Any both ways; exclude-any never turns a rejection into an acceptance
"""
import json

from harness.common import lean, pya, values as V, gen_values as G
from harness.props.c03 import subterms, subobjs, property_silent, translate, totuple, ABCS  # noqa: F401

PROP = "C04"
LEAN_PROP = "PyaModel.Props.C04"
LEAN_TARGETS = ["PyaModel.Core.Sexp", "PyaModel.Spec.Mem", "PyaModel.Generated.ClassTable", "PyaModel.Spec.D04", "PyaModel.Spec.D04Sound",
                "PyaModel.Spec.D14", "PyaModel.Core.Union"]
ANCHORS = [
    ("pyanalyze/value.py", "Value.can_assign"),
    ("pyanalyze/value.py", "KnownValue.can_assign"),
    ("pyanalyze/value.py", "TypedValue.can_assign"),
    ("pyanalyze/value.py", "NewTypeValue.can_assign"),
    ("pyanalyze/value.py", "GenericValue.can_assign"),
    ("pyanalyze/value.py", "SequenceValue.can_assign"),
    ("pyanalyze/value.py", "SubclassValue.can_assign"),
    ("pyanalyze/value.py", "MultiValuedValue.can_assign"),
    ("pyanalyze/value.py", "AnnotatedValue.can_assign"),
    ("pyanalyze/value.py", "AnyValue.can_assign"),
    ("pyanalyze/value.py", "replace_known_sequence_value"),
    ("pyanalyze/type_object.py", "TypeObject.can_assign"),
    ("pyanalyze/type_object.py", "TypeObject.__post_init__"),
]
RULE = (
    "pairs (A, B) of seeded random value terms of depth <=2 (quick) / <=3 (thorough) over classes, literals, unions, generics, "
    "fixed/variadic tuples, NewType, type[...], Annotated (Any only for the Any laws); B is drawn near A (same term, a member, a "
    "mutation, a literal of A) half of the time so that acceptances are frequent; witness objects are drawn from B; "
    "non-trivial = accepted pair with A != B, or any law instance on a non-atomic term; distinct by term text"
)
ASSUMPTIONS = [
    "documented leniencies excluded from soundness: L1 bare generic standing for G[Any] (incl. a frozenset literal, which the code treats as bare frozenset), L2 fixed-length tuple accepting a variadic tuple, L3 mock classes (not in the universe), L4 Any",
    "protocol checks depend on the value, not only on its class; pairs in the value-dependent region (generic protocol target vs Enum class, protocol target vs type[...]) are searched on the implementation but not compared with the table-driven model",
    "class-level facts enter the model through Generated/ClassTable.lean (regenerated every run)",
    "objects with an IntEnum member nested in a container are not generated: Python has (IE.X,) == (1,), the Lean object equality keeps enum members apart from ints (harness/common/gen_values.py _no_nested_intenum)",
]
TRUSTED = ["Spec/Mem.lean validated against the CPython-isinstance reference (stream spec)"]

ENUMS = {V.CID[c] for c in V.CLASSES if G._sub(c, 29) and c is not object} if False else {27, 28, 29, 30}
PROTO = None


def proto_set(tb=None):
    global PROTO
    if PROTO is None:
        ck = pya.make_checker()
        PROTO = {i for i, c in enumerate(V.CLASSES) if ck.make_type_object(c).is_protocol}
    return PROTO


def unmodelled(e, a):
    """Value-dependent protocol region (see ASSUMPTIONS)."""
    P = proto_set()
    e_proto_generic = any(s[0] == "generic" and s[1] in P for s in subterms(e))
    e_proto = e_proto_generic or any(s[0] == "typed" and s[1] in P for s in subterms(e))
    a_enum = any((s[0] in ("typed", "generic", "seq") and s[1] in ENUMS) or (s[0] == "newtype" and s[2] in ENUMS) for s in subterms(a))
    a_sub = any(s[0] == "subclass" for s in subterms(a))
    return (e_proto_generic and a_enum) or (e_proto and a_sub)


def bare_generic(t, arity):
    for s in subterms(t):
        if s[0] in ("typed", "newtype") and arity[s[1] if s[0] == "typed" else s[2]] > 0:
            return True
        if s == ("typed", G.TYPE):
            return True  # `type` is type[Any] (SubclassValue docstring)
        if s[0] == "known" and any(x[0] == "fset" for x in subobjs(s[1])):
            return True
    return False


def lenient(A, B, arity):
    """L1 / L2 / L4 of DESIGN §6/C04."""
    if G.has_any(A) or G.has_any(B):
        return "L4"
    if bare_generic(B, arity):
        return "L1"
    if any(s[0] == "seq" for s in subterms(A)) and any(s[0] == "generic" for s in subterms(B)):
        return "L2"  # a fixed-length sequence form accepting a homogeneous generic (same code path for tuple and list forms)
    return None


def mutate_ty(rng, t):
    k = t[0]
    r = rng.random()
    if k == "union" and t[1]:
        if r < 0.5:
            return rng.choice(t[1])
        return ("union", t[1] + [G.gen_ty(rng, 1)])
    if k in ("generic", "seq") and t[2]:
        xs = list(t[2])
        i = rng.randrange(len(xs))
        if xs[i][0] == "many":
            xs[i] = ("many", mutate_ty(rng, xs[i][1]))
        else:
            xs[i] = mutate_ty(rng, xs[i])
        return (k, t[1], xs)
    if k == "typed":
        subs = [i for i, c in enumerate(V.CLASSES) if G._sub(c, t[1]) and i in G.TYPED]
        return ("typed", rng.choice(subs)) if subs and r < 0.7 else G.gen_ty(rng, 1)
    if k == "annotated":
        return t[1] if r < 0.5 else ("annotated", mutate_ty(rng, t[1]))
    return G.gen_ty(rng, 1)


def gen_pairs(ctx):
    rng = ctx.rng
    depth = ctx.n(2, 3)
    pairs = []
    for _ in range(ctx.n(3500, 40000)):
        any_ok = rng.random() < 0.12
        A = G.gen_ty(rng, depth, allow_any=any_ok, big_unhashable=True)
        r = rng.random()
        if r < 0.12:
            B = A
        elif r < 0.45:
            B = mutate_ty(rng, A)
        elif r < 0.65:
            o = G.gen_obj_for(rng, A)
            B = ("known", o)
        else:
            B = G.gen_ty(rng, depth, allow_any=any_ok, big_unhashable=True)
        A, B = G.norm_term(A), G.norm_term(B)
        if B[0] == "many" or A[0] == "many":
            continue
        pairs.append((A, B))
    return pairs


def corpus_pairs():
    import os
    path = os.path.join(lean.HERE, "corpus", "C04.jsonl")
    out = []
    if os.path.exists(path):
        for l in open(path):
            if l.strip():
                d = json.loads(l)
                out.append((totuple(d["A"]), totuple(d["B"])))
                if "o" in d:
                    WITNESS[(V.ty_sexp(out[-1][0]), V.ty_sexp(out[-1][1]))] = totuple(d["o"])
    return out


WITNESS = {}


def accepts(checker, A, B, exclude=False):
    from pyanalyze.value import CanAssignError
    try:
        a, b = V.ty_to_value(A), V.ty_to_value(B)
        if exclude:
            with checker.set_exclude_any():
                r = a.can_assign(b, checker)
        else:
            r = a.can_assign(b, checker)
        return "0" if isinstance(r, CanAssignError) else "1"
    except Exception as e:
        return "EXC:%s" % type(e).__name__


def evaluate(ctx, pairs, with_model=True, ncorpus=0):
    checker = pya.make_checker()
    tb = V.class_table(checker)
    arity = tb["arity"]
    rng = ctx.rng
    model0 = model1 = dcl = None
    if with_model:
        lines = []
        for A, B in pairs:
            a, b = V.ty_sexp(A), V.ty_sexp(B)
            lines += ["ca 0 %s %s" % (a, b), "ca 1 %s %s" % (a, b), "d04 %s %s" % (a, b)]
        out = lean.run_driver("Val", lines)
        model0, model1, dcl = out[0::3], out[1::3], out[2::3]
    spec_lines, spec_ref = [], []
    OBJ = ("typed", 0)
    NEVER = ("union", [])
    for i, (A, B) in enumerate(pairs):
        case = {"A": V.ty_sexp(A), "B": V.ty_sexp(B), "tA": A, "tB": B}
        i0 = accepts(checker, A, B)
        i1 = accepts(checker, A, B, exclude=True)
        ctx.count(1, **{"A_" + A[0]: 1, "B_" + B[0]: 1, "accept_" + i0: 1})
        if i % 397 == 0:
            ctx.sample({"A": case["A"], "B": case["B"], "accepts": i0, "accepts_exclude_any": i1,
                        "model": (model0[i], model1[i]) if model0 else None})
        conforms = True
        if model0 is not None and not unmodelled(A, B):
            ctx.corr("ca")
            if i0 != model0[i]:
                conforms = False
                ctx.disagree("ca", case, i0, model0[i])
            P = proto_set()
            if not any(s[0] in ("typed", "generic") and s[1] in P for s in subterms(A)):
                ctx.corr("ca_exclude_any")
                if i1 != model1[i]:
                    ctx.disagree("ca_exclude_any", case, i1, model1[i])
        classes = [] if dcl is None or dcl[i] in ("-", "bad-op") else dcl[i].split(",")
        # ---- laws on the implementation
        if i1 == "1" and i0 == "0":
            ctx.candidate(case, "rejected normally but accepted in 'Any only matches Any' mode", cls=None, conforms=conforms, stream="law-exclude")
        if i % 7 == 0 or i < ncorpus:
            laws(ctx, checker, A, B, case, classes, conforms)
        # ---- soundness
        if i0 == "1":
            if A != B:
                ctx.nontriv(case["A"] + "<-" + case["B"])
            why = lenient(A, B, arity)
            ctx.tag("lenient_%s" % why)
            if why is not None:
                continue
            objs = [G.gen_obj_for(rng, B) for _ in range(ctx.n(6, 10))]
            if B[0] == "known":
                objs.append(B[1])
            if (case["A"], case["B"]) in WITNESS:
                objs.insert(0, WITNESS[(case["A"], case["B"])])
            seen = set()
            for o in objs:
                key = V.obj_sexp(V.canon_obj(o))
                if key in seen:
                    continue
                seen.add(key)
                if property_silent(A, o) or property_silent(B, o):
                    continue
                py = V.obj_to_py(o)
                inB, inA = G.member(py, B), G.member(py, A)
                spec_lines += ["mem %s %s" % (key, case["B"]), "mem %s %s" % (key, case["A"])]
                spec_ref += [inB, inA]
                if inB and not inA:
                    cls = next(iter(classes), None)
                    ctx.candidate(dict(case, object=repr(py), obj=o),
                                  "A accepts B, the object belongs to B but not to A", cls=cls, conforms=conforms, stream="soundness")
                    break
    if with_model and spec_lines:
        out = lean.run_driver("Val", spec_lines)
        for l, m, r in zip(spec_lines, out, spec_ref):
            ctx.corr("spec")
            if m != ("1" if r else "0"):
                ctx.disagree("spec", l, "member=%s" % r, "mem=%s" % m)


def laws(ctx, checker, A, B, case, classes, conforms):
    NEVER, OBJ = ("union", []), ("typed", 0)
    ctx.tag("law_instances")
    if not G.has_any(A) and accepts(checker, A, A) != "1":
        ctx.candidate(dict(case, law="reflexive"), "a type does not accept itself", cls="reflexive" if "reflexive" in classes else None,
                      conforms=conforms, stream="law-refl")
    if accepts(checker, A, NEVER) != "1":
        ctx.candidate(dict(case, law="never"), "Never is rejected", cls=None, conforms=conforms, stream="law-never")
    if not G.has_any(B) and accepts(checker, OBJ, B) != "1":
        ctx.candidate(dict(case, law="object"), "object rejects a value", cls=None, conforms=conforms, stream="law-object")
    if B[0] == "union" and B[1]:
        whole = accepts(checker, A, B)
        each = all(accepts(checker, A, b) == "1" for b in B[1])
        if (whole == "1") != each:
            ctx.candidate(dict(case, law="union-right"), "union on the right accepted=%s but every member accepted=%s" % (whole, each),
                          cls=None, conforms=conforms, stream="law-union-right")
    if A[0] == "union" and A[1]:
        for a in A[1]:
            if accepts(checker, a, B) == "1" and accepts(checker, A, B) != "1":
                ctx.candidate(dict(case, law="union-left", member=V.ty_sexp(a)), "a member of the union accepts B but the union does not",
                              cls=None, conforms=conforms, stream="law-union-left")
                break
    ANY = ("any",)
    if accepts(checker, ANY, B) != "1" or accepts(checker, A, ANY) != "1":
        ctx.candidate(dict(case, law="any"), "Any is not accepted both ways", cls=None, conforms=conforms, stream="law-any")


def run(ctx):
    cp = corpus_pairs()
    evaluate(ctx, cp + gen_pairs(ctx), ncorpus=len(cp))


def run_impl_only(ctx):
    cp = corpus_pairs()
    evaluate(ctx, cp + gen_pairs(ctx), with_model=False, ncorpus=len(cp))


def replay(ctx, data):
    c = data["case"]
    evaluate(ctx, [(totuple(c["tA"]), totuple(c["tB"]))] * 8, ncorpus=8)
    print(json.dumps({"candidates": ctx.candidates[:3], "broken": ctx.broken[:3]}, indent=1, default=str))
    return 1 if (ctx.candidates or ctx.broken) else 0
