"""C05 — argument-to-parameter binding agrees with CPython.

Streams
  e2e   : generated module (defs + calls) checked by pyanalyze  -> incompatible_call per call line
  unit  : preprocess_args + Signature.bind_arguments in-process  -> bound positions
  model : lake env lean --run Driver/C05.lean                   -> pyaCall verdict + positions, cpyBind, D-class
  oracle: the calls really executed under CPython               -> TypeError at bind time or not
Correspondence: e2e == model (verdict), unit == model (verdict + positions), cpyBind == oracle (spec validation).
Property search: e2e verdict vs oracle (literal: iff; star: accepted => some expansion binds,
rejected => no expansion with every star-argument non-empty binds).
"""
import itertools, json

from harness.common import lean, pya

PROP = "C05"
LEAN_PROP = "PyaModel.Props.C05"
LEAN_TARGETS = ["PyaModel.Spec.CpyBind"]
ANCHORS = [
    ("pyanalyze/signature.py", "Signature.bind_arguments"),
    ("pyanalyze/signature.py", "preprocess_args"),
    ("pyanalyze/signature.py", "_preprocess_kwargs_no_mvv"),
    ("pyanalyze/signature.py", "_preprocess_kwargs_kv_pairs"),
]
RULE = (
    "def headers enumerated exhaustively up to a size bound (all kind sequences po* pk* [vp] ko* [vk], all legal "
    "default patterns) x call shapes (0..3 positionals, keyword subsets of the parameter names plus a foreign name, "
    "optional *literal / *unknown / **literal / **unknown), then seeded random larger ones; a case is non-trivial "
    "when it has at least one parameter and one argument; distinct = distinct (header, call) text"
)
ASSUMPTIONS = [
    "pyanalyze derives the same Signature for a def whether it reads the AST (e2e stream) or the function object (unit stream); differences show as a disagreement between the two streams",
    "ELLIPSIS / PARAM_SPEC parameter kinds and Callable[..., T] actuals are outside the model (not producible by a def)",
    "star-argument expansions are enumerated up to length max(4, #params+1); dict expansions over every subset of the parameter names plus one foreign name (bind_star_accept proves a binding expansion within these bounds exists whenever the model accepts)",
]
TRUSTED = ["Spec/CpyBind.lean (cpyBind) is validated against real calls on every run (stream spec)"]

KINDS = ["po", "pk", "vp", "ko", "vk"]
NAMES = "abcdefgh"


# ---------------------------------------------------------------- generators
def all_sigs(maxn):
    """Every well-formed def header with up to maxn parameters (names a, b, c, ... in order)."""
    out = []
    for n in range(maxn + 1):
        for kinds in itertools.product(range(5), repeat=n):
            if any(kinds[i] > kinds[i + 1] for i in range(n - 1)):
                continue
            if kinds.count(2) > 1 or kinds.count(4) > 1:
                continue
            npos = sum(1 for k in kinds if k < 2)
            nko = kinds.count(3)
            # positional defaults form a suffix; keyword-only defaults are free
            for first_default in range(npos + 1):
                for kod in itertools.product([0, 1], repeat=nko):
                    ps, pi, ki = [], 0, 0
                    for i, k in enumerate(kinds):
                        if k < 2:
                            d = 1 if pi >= first_default else 0
                            pi += 1
                        elif k == 3:
                            d = kod[ki]
                            ki += 1
                        else:
                            d = 0
                        ps.append((NAMES[i], KINDS[k], d))
                    out.append(tuple(ps))
    return out


def random_sig(rng, maxn=6):
    n = rng.randint(0, maxn)
    kinds = sorted(rng.choice([0, 1, 1, 2, 3, 3, 4]) for _ in range(n))
    while kinds.count(2) > 1:
        kinds.remove(2)
    while kinds.count(4) > 1:
        kinds.remove(4)
    ps, dstart = [], False
    for i, k in enumerate(kinds):
        if k < 2:
            dstart = dstart or rng.random() < 0.3
            d = int(dstart)
        elif k == 3:
            d = int(rng.random() < 0.5)
        else:
            d = 0
        ps.append((NAMES[i], KINDS[k], d))
    return tuple(ps)


def sig_src(ps):
    parts, seen_slash, seen_star = [], False, False
    npo = sum(1 for p in ps if p[1] == "po")
    for i, (n, k, d) in enumerate(ps):
        if k == "ko" and not seen_star:
            parts.append("*")
            seen_star = True
        if k == "vp":
            parts.append("*" + n)
            seen_star = True
        elif k == "vk":
            parts.append("**" + n)
        else:
            parts.append(n + ("=0" if d else ""))
        if k == "po" and i == npo - 1:
            parts.append("/")
    return ", ".join(parts)


def call_src(args):
    parts = []
    for a in args:
        if a == "p":
            parts.append("1")
        elif a == "S":
            parts.append("*xs")
        elif a == "D":
            parts.append("**d")
        elif a[0] == "s":
            parts.append("*(" + "".join("1, " for _ in range(int(a[1:]))) + ")")
        elif a[0] == "k":
            parts.append(a[2:] + "=1")
        elif a[0] == "d":
            names = [x for x in a[2:].split(",") if x]
            parts.append("**{" + ", ".join("%r: 1" % x for x in names) + "}")
    return ", ".join(parts)


def literal_calls(names, maxpos=3, maxkw=3):
    pool = list(names) + ["z"]
    out = []
    for npos in range(maxpos + 1):
        for r in range(min(maxkw, len(pool)) + 1):
            for ks in itertools.combinations(pool, r):
                out.append(tuple(["p"] * npos + ["k:" + k for k in ks]))
    return out


def random_call(rng, names, star_bias=0.5):
    pool = list(names) + ["z"]
    args = ["p"] * rng.randint(0, 4)
    r = rng.random()
    if r < 0.15:
        args.append("s%d" % rng.randint(0, 2))
    elif r < 0.15 + star_bias * 0.6:
        args.append("S")
        if rng.random() < 0.15:
            args.append("p")
    kws = rng.sample(pool, rng.randint(0, min(4, len(pool))))
    r = rng.random()
    if r < 0.15 and kws:
        cut = rng.randint(0, len(kws))
        args += ["k:" + k for k in kws[:cut]] + ["d:" + ",".join(kws[cut:])]
    elif r < 0.2:
        args += ["k:" + k for k in kws] + ["d:" + ",".join(rng.sample(pool, rng.randint(0, min(2, len(pool)))))]  # may duplicate
    else:
        args += ["k:" + k for k in kws]
    if rng.random() < star_bias * 0.6:
        args.append("D")
    if rng.random() < 0.35:
        # Python allows explicit keywords, ** literals and **d in any relative order (f(**{"a": 1}, a=2) is valid
        # syntax and raises TypeError at run time): the order must not matter to the verdict
        head = [a for a in args if a == "p" or a == "S" or (a[0] == "s" and a != "S")]
        tail = [a for a in args if a not in head]
        rng.shuffle(tail)
        args = head + tail
    return tuple(args)


def line_of(ps, args):
    return " ".join("%s:%s:%d" % p for p in ps) + " | " + " ".join(args)


# ---------------------------------------------------------------- oracle (CPython)
def expansions(ps, args):
    """Concrete calls obtained by expanding *xs / **d; yields (all_star_nonempty, argtuple, kwdict-or-None)."""
    names = [p[0] for p in ps] + ["z"]
    maxlen = max(4, len(ps) + 1)
    nS = sum(1 for a in args if a == "S")
    nD = sum(1 for a in args if a == "D")
    lens = list(itertools.product(range(maxlen + 1), repeat=nS))
    keysets = [()]
    if nD:
        # every subset of the parameter names (+ one foreign name): a binding expansion may need all of them
        keysets = [ks for r in range(len(names) + 1) for ks in itertools.combinations(names, r)]
    for ls in lens:
        for ks in keysets:
            yield (all(l > 0 for l in ls) and (not nD or len(ks) > 0)), ls, ks


def concrete_call(fn, args, ls, ks):
    """Perform the call with the chosen expansion; True = binds, False = TypeError."""
    pos, kw, li, dup = [], {}, 0, False
    pairs = []
    for a in args:
        if a == "p":
            pos.append(1)
        elif a == "S":
            pos += [1] * ls[li]
            li += 1
        elif a == "D":
            pairs += [(k, 1) for k in ks]
        elif a[0] == "s":
            pos += [1] * int(a[1:])
        elif a[0] == "k":
            pairs.append((a[2:], 1))
        elif a[0] == "d":
            pairs += [(x, 1) for x in a[2:].split(",") if x]
    for k, v in pairs:
        if k in kw:
            dup = True  # f(a=1, **{'a': 1}) raises TypeError (multiple values for keyword argument)
        kw[k] = v
    if dup:
        return False
    try:
        fn(*pos, **kw)
        return True
    except TypeError:
        return False


def make_fn(ps):
    ns = {}
    exec("def f(%s): pass" % sig_src(ps), ns)
    return ns["f"]


# ---------------------------------------------------------------- implementation streams
def e2e_verdicts(cases):
    """One module per batch: defs, then calls one per line. Returns list of 'ERR'/'OK' and other codes seen."""
    out, other = [], {}
    B = 1200
    for b0 in range(0, len(cases), B):
        batch = cases[b0:b0 + B]
        sigs = {}
        for ps, _ in batch:
            sigs.setdefault(ps, len(sigs))
        src = ["from typing import Any"]
        for ps, i in sigs.items():
            src.append("def f%d(%s): pass" % (i, sig_src(ps)))
        src.append("def run(xs: list[int], d: dict[str, int]) -> None:")
        base = len(src)
        for ps, args in batch:
            src.append("    f%d(%s)" % (sigs[ps], call_src(args)))
        fails, _, _ = pya.check_source("\n".join(src) + "\n")
        bad = set()
        for f in fails:
            if f["lineno"] is not None and f["lineno"] > base:
                if f["code"] == "incompatible_call":
                    bad.add(f["lineno"] - base - 1)
                else:
                    other[f["code"]] = other.get(f["code"], 0) + 1
                    bad.add(f["lineno"] - base - 1) if f["code"] in ("not_callable",) else None
        out += ["ERR" if i in bad else "OK" for i in range(len(batch))]
    return out, other


_POSNAMES = None


def unit_results(cases, checker):
    """preprocess_args + bind_arguments called directly on Value-level arguments."""
    from pyanalyze import signature as S
    from pyanalyze.stacked_scopes import Composite
    from pyanalyze.value import GenericValue, KnownValue, TypedValue

    res = []
    fns = {}
    xs = GenericValue(list, [TypedValue(int)])
    dd = GenericValue(dict, [TypedValue(str), TypedValue(int)])
    for ps, args in cases:
        fn = fns.get(ps)
        if fn is None:
            fn = fns[ps] = make_fn(ps)
        sig = checker.arg_spec_cache.get_argspec(fn)
        ctx = S._CanAssignBasedContext(checker)
        alist = []
        for a in args:
            if a == "p":
                alist.append((Composite(KnownValue(1)), None))
            elif a == "S":
                alist.append((Composite(xs), S.ARGS))
            elif a == "D":
                alist.append((Composite(dd), S.KWARGS))
            elif a[0] == "s":
                alist.append((Composite(KnownValue((1,) * int(a[1:]))), S.ARGS))
            elif a[0] == "k":
                alist.append((Composite(KnownValue(1)), a[2:]))
            elif a[0] == "d":
                alist.append((Composite(KnownValue({x: 1 for x in a[2:].split(",") if x})), S.KWARGS))
        try:
            actual = S.preprocess_args(alist, ctx)
            bound = None if actual is None else sig.bind_arguments(actual, ctx)
        except Exception as e:  # totality is part of the correspondence (C12)
            res.append("EXC:%s" % type(e).__name__)
            continue
        if bound is None or ctx.errors:
            res.append("ERR")
        else:
            parts = []
            for name, (pos, _) in bound.items():
                if pos is S.ARGS:
                    t = "ARGS"
                elif pos is S.KWARGS:
                    t = "KWARGS"
                elif pos is S.DEFAULT:
                    t = "DEFAULT"
                elif pos is S.UNKNOWN:
                    t = "UNKNOWN"
                elif isinstance(pos, int):
                    t = str(pos)
                else:
                    t = "'%s'" % pos
                parts.append("%s=%s" % (name, t))
            res.append(";".join(parts))
    return res


# ---------------------------------------------------------------- the check
def gen_cases(ctx):
    cases = []
    maxn = ctx.n(3, 4)
    sigs = all_sigs(maxn)
    ctx.extra["exhaustive_part"] = "all %d def headers with <= %d parameters x all literal calls (<=3 positionals, <=3 keywords)" % (len(sigs), maxn)
    for ps in sigs:
        names = [p[0] for p in ps]
        for c in literal_calls(names):
            cases.append((ps, c))
    # thin the exhaustive part in the quick tier deterministically from the seed (keeps it < ~15 s)
    cap = ctx.n(9000, 60000)
    if len(cases) > cap:
        ctx.rng.shuffle(cases)
        cases = cases[:cap]
        ctx.extra["exhaustive_part"] += "; sampled down to %d by the seed" % cap
    # duplicate-keyword family: the same name supplied twice through {explicit keyword, ** literal} in both orders,
    # on a few fixed headers (CPython: TypeError "multiple values for keyword argument" whatever the callee)
    dup_sigs = [(("a", "pk", 0),), (("a", "pk", 0), ("b", "pk", 1)), (("k", "vk", 0),), (("a", "po", 0), ("k", "vk", 0)),
                (("a", "pk", 0), ("c", "ko", 1))]
    for ps in dup_sigs:
        for n in [p[0] for p in ps if p[1] not in ("vp", "vk")] + ["z"]:
            for pre in ((), ("p",)):
                for tail in (("d:" + n, "k:" + n), ("k:" + n, "d:" + n), ("d:" + n, "d:" + n), ("d:" + n + ",y", "k:y"),
                             ("d:" + n, "k:" + n, "D"), ("D", "d:" + n, "k:" + n)):
                    cases.append((ps, pre + tail))
    nrand = ctx.n(3000, 40000)
    for _ in range(nrand):
        ps = ctx.rng.choice(sigs) if ctx.rng.random() < 0.5 else random_sig(ctx.rng)
        cases.append((ps, random_call(ctx.rng, [p[0] for p in ps])))
    return cases


def corpus_cases():
    import os
    path = os.path.join(lean.HERE, "corpus", "C05.jsonl")
    out = []
    if os.path.exists(path):
        for l in open(path):
            l = l.strip()
            if l:
                d = json.loads(l)
                out.append((tuple(tuple(p) for p in d["sig"]), tuple(d["call"])))
    return out


def evaluate(ctx, cases, with_model=True):
    checker = pya.make_checker()
    e2e, other = e2e_verdicts(cases)
    unit = unit_results(cases, checker)
    if other:
        ctx.extra["other_codes_on_call_lines"] = other
    model = None
    if with_model:
        model = lean.run_driver("C05", [line_of(ps, a) for ps, a in cases])
    fns = {}
    for i, (ps, args) in enumerate(cases):
        case = {"def": "def f(%s)" % sig_src(ps), "call": "f(%s)" % call_src(args), "sig": ps, "args": args}
        star = ("S" in args) or ("D" in args)
        ctx.count(1, **{"star" if star else "literal": 1, "params_%d" % len(ps): 1})
        if ps and args:
            ctx.nontriv(case["def"] + "|" + case["call"])
        if i % 997 == 0:
            ctx.sample({k: case[k] for k in ("def", "call")} | {"pyanalyze": e2e[i], "unit": unit[i],
                                                                  "model": model[i] if model else None})
        fn = fns.get(ps)
        if fn is None:
            fn = fns[ps] = make_fn(ps)
        mv = mpos = cpy = dcls = None
        if model is not None:
            parts = dict(x.split("=", 1) for x in model[i].split(" ") if "=" in x)
            mpos = parts.get("pya")
            mv = "ERR" if mpos == "ERR" else "OK"
            cpy = parts.get("cpy")
            dcls = parts.get("D")
            ctx.tag("model_" + mv)
            # correspondence
            ctx.corr("e2e")
            if e2e[i] != mv:
                ctx.disagree("e2e", case, e2e[i], mv)
            ctx.corr("unit")
            if unit[i] != mpos:
                ctx.disagree("unit", case, unit[i], mpos)
        conforms = (mv is None) or (e2e[i] == mv)
        # oracle + property
        if not star:
            binds = concrete_call(fn, args, (), ())
            if cpy is not None and cpy != "NA":
                ctx.corr("spec")
                if (cpy == "1") != binds:
                    ctx.disagree("spec", case, "cpython binds=%s" % binds, "cpyBind=%s" % cpy)
            if (e2e[i] == "ERR") == binds:
                ctx.candidate(case, "pyanalyze %s the call but CPython %s" % (
                    "rejects" if e2e[i] == "ERR" else "accepts", "binds it" if binds else "raises TypeError"),
                    cls=None, conforms=conforms, stream="e2e")
        else:
            any_binds = False
            nonempty_binds = None
            for nonempty, ls, ks in expansions(ps, args):
                if concrete_call(fn, args, ls, ks):
                    any_binds = True
                    if nonempty:
                        nonempty_binds = (ls, ks)
                        break
            if e2e[i] == "OK" and not any_binds:
                ctx.candidate(case, "accepted but no expansion of the star arguments binds", cls=None,
                              conforms=conforms, stream="e2e")
            if e2e[i] == "ERR" and nonempty_binds is not None:
                cls = dcls if dcls not in (None, "-") else None
                ctx.candidate(dict(case, expansion={"star_lengths": nonempty_binds[0], "dict_keys": nonempty_binds[1]}),
                              "rejected although an expansion with every star-argument non-empty binds",
                              cls=cls, conforms=conforms, stream="e2e")


def run(ctx):
    cases = corpus_cases() + gen_cases(ctx)
    evaluate(ctx, cases)


def run_impl_only(ctx):
    evaluate(ctx, corpus_cases() + gen_cases(ctx), with_model=False)


def replay(ctx, data):
    case = data["case"]
    ps = tuple(tuple(p) for p in case["sig"])
    args = tuple(case["args"])
    evaluate(ctx, [(ps, args)])
    print(json.dumps({"case": {k: case[k] for k in ("def", "call")}, "candidates": ctx.candidates, "broken": ctx.broken},
                     indent=1, default=str))
    return 1 if (ctx.candidates or ctx.broken) else 0
