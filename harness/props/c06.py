"""C06 — call checking: arguments against parameter types, result type, type-variable solutions.

Cases: a generated annotated callable (plain def, method, classmethod, staticmethod, class with __init__, @dataclass) with a
template body, and a literal argument tuple. One generated module per batch holds the definitions and one call per line.

Streams (correspondence; model = `lake env lean --run Driver/C06.lean`, Core/Call.lean + Spec/CallSpec.lean)
  e2e-verdict : diagnostics pyanalyze reports on the call line (incompatible_call / incompatible_argument + parameter names)
                                                                      vs model `checkCall` / `boundCall` / `ctorSig` verdict
  e2e-type    : the Value pyanalyze infers for the call expression, decoded structurally      vs model `Outcome.ret`
  e2e-sol     : the type-variable solution (value of a twin call whose return type is tuple[T0, T1, ...])  vs model `Outcome.sol`
  spec-bind   : does the call really bind under CPython (the call is executed)                vs Lean `cpyBind`
  spec-land   : the callee's locals() on entry under CPython (which argument lands where)     vs Lean `cpyLand`
  spec-diag   : reference `member` of every landed argument in the declared type              vs Lean `specDiag` (built on `mem`)
  spec-res    : what the template body really returns; `member(result, model type)`           vs Lean `runTmpl`, `mem`
  spelling    : metamorphic: the same call against the same declared types with the annotations written in every spelling
                (unquoted; fully quoted; every class name inside a construct quoted: Optional["A"], list["A"], dict[str, "A"],
                Union["A", int], tuple["A", ...], type["A"]; names defined after the function; module-level aliases of
                partially quoted types; TypeVars with string bound / constraints; `from __future__ import annotations`) x every
                callee form (module-level def, method, classmethod, staticmethod, nested def = signature from the def node,
                function imported from a generated library module = signature from the runtime object with its own globals):
                every verdict and inferred type must equal the plain module-level one     vs each other and the model verdict
  star-merge  : calls whose positional section interleaves plain positionals, `*xs` of unknown length (element types int,
                str, int|str, B, A), known-length `*(a, b)` and `*[]`: the merged ActualArguments.star_args of
                preprocess_args                                                    vs Lean `starMerge`; P1 on such calls judged
                on every expansion (each *xs at every length 0..3, really bound by CPython): some expansion binds an argument
                outside its declared type => a diagnostic is reported
  translator  : Generated/AnnotCtx.lean = every type_from_runtime / AnnotationsContext site of arg_spec.py with the context /
                globals it gets (AST scan of the live source); obligation `annotation_contexts_registered`
Property search on the implementation (oracle independent of pyanalyze: real execution + reference `member`):
  P1 (no type variables, call binds)     : incompatible_argument reported  <=>  some landed argument is not a member of the
                                           declared type of its parameter
  P2 (call binds, nothing reported)      : member(value returned by really executing the call, type pyanalyze inferred)
  P4 (type variables, nothing reported)  : every landed argument is a member of the declared type with each type variable
                                           at its declared bound / the union of its constraints (solver-independent)
  P1 and P4 are also evaluated on every (spelling, callee form) variant of the spelling stream.
  P3 (type variables, nothing reported)  : every landed argument is a member of the declared type with pyanalyze's own
                                           solution substituted (otherwise an error had to be reported)
"""
import json, os, re

from harness.common import lean, pya, values as V, gen_values as G
from harness import universe as U

PROP = "C06"
LEAN_PROP = "PyaModel.Props.C06"
NAMESPACE = "Pya.C06"
LEAN_TARGETS = ["PyaModel.Core.Sexp", "PyaModel.Spec.CallSpec", "PyaModel.Generated.ClassTable"]
ANCHORS = [
    ("pyanalyze/signature.py", "Signature._check_param_type_compatibility"),
    ("pyanalyze/signature.py", "Signature.check_call_with_bound_args"),
    ("pyanalyze/signature.py", "Signature.check_call_preprocessed"),
    ("pyanalyze/signature.py", "Signature.check_call"),
    ("pyanalyze/signature.py", "Signature.get_default_return"),
    ("pyanalyze/signature.py", "Signature.bind_arguments"),
    ("pyanalyze/signature.py", "Signature.bind_self"),
    ("pyanalyze/signature.py", "BoundMethodSignature.check_call"),
    ("pyanalyze/signature.py", "Signature.__post_init__"),
    ("pyanalyze/typevar.py", "resolve_bounds_map"),
    ("pyanalyze/typevar.py", "solve"),
    ("pyanalyze/value.py", "TypeVarValue.can_assign"),
    ("pyanalyze/value.py", "TypeVarValue.make_bounds_map"),
    ("pyanalyze/value.py", "GenericValue.can_assign"),
    ("pyanalyze/value.py", "unify_bounds_maps"),
    ("pyanalyze/value.py", "unite_values"),
    ("pyanalyze/arg_spec.py", "ArgSpecCache._uncached_get_argspec"),
    ("pyanalyze/arg_spec.py", "ArgSpecCache.from_signature"),
    ("pyanalyze/functions.py", "translate_vararg_type"),
]
RULE = (
    "callables: every header shape po* pk* [*args] ko* [**kw] (defaults on a suffix) with <= 1 parameter exhaustively over a "
    "9-type annotation vocabulary (incl. T, list[T], bounded and constrained type variables) x every call with <= 2 arguments "
    "(positional or keyword) over a 6-object vocabulary, sampled down by the seed; then seeded random callables with <= 5 "
    "parameters: plain defs, methods / classmethods / staticmethods, classes with __init__, @dataclass classes; annotations = "
    "seeded random static type terms (classes, Literal, unions, list/set/dict/tuple generics, Sequence/Mapping/..., NewType, "
    "type[...], Annotated) or type-variable forms (T, list[T], set[T], Sequence[T], dict[K, V], dict[str, T], tuple[T, K], "
    "list[list[T]], T bounded by int, T constrained to (int, str)); bodies: return a parameter / element 0 of a list, tuple "
    "or *args parameter / a constant of the declared type; spelling stream: 8 hand-picked callables (Optional / list / dict / "
    "bounded and constrained TypeVar / *args / **kw / type[...] / tuple / NewType over names that can be forward references) "
    "plus 20 (quick) / 220 (thorough) of the generated plain callables, each call in 7 spellings x 6 callee forms; "
    "5 calls per callable: arguments generated to fit the declared "
    "types, near misses and random literals; ~10% calls that do not bind (correspondence only). non-trivial = at least one "
    "argument lands on an annotated parameter; distinct by (definition, call) text. Excluded from the oracle (property "
    "silent): str/bytes objects against generic ABC targets; non-literal argument expressions"
)
ASSUMPTIONS = [
    "class-level facts enter the model through the regenerated Generated/ClassTable.lean (shared with C03/C04)",
    "generated classes subclass harness.universe.A and are identified with A in the model (receiver type / instance type)",
    "protocol checks depend on the value, not only on its class: calls passing a class object (incl. an Enum class) while a "
    "declared type mentions a protocol class (Iterable, Collection, Container, Hashable, Sized, ...) are searched on the "
    "implementation (P1-P3, spec streams) but not compared with the table-driven model (e2e streams), as in C04",
    "star arguments, overloads, impl/evaluator signatures, ParamSpec, type variables inside a union or type[...] on the "
    "declared side, __new__-based constructors are outside the model",
    "the type-variable solver is the shared model Pya.C15.resolveCa (Core/TypeVar.lean, property C15)",
    "result membership is decided for the three template bodies only (arbitrary bodies are C01)",
]
TRUSTED = [
    "Spec/CallSpec.lean (cpyLand, runTmpl) and Spec/Mem.lean (mem) are validated against real calls / a CPython-isinstance "
    "based reference on every run (streams spec-bind, spec-land, spec-diag, spec-res)",
]

A_ID = V.CID[U.A]
TVNAMES = ["T0", "T1", "TB", "TC"]
TVDECL = {0: (None, []), 1: (None, []), 2: (("typed", G.INT), []), 3: (None, [("typed", G.INT), ("typed", G.STR)])}
KINDS = ["po", "pk", "vp", "ko", "vk"]
NAMES = "abcdefgh"

PRELUDE = (
    "from typing import Any, Literal, Union, Annotated, NoReturn, Sequence, Iterable, Collection, Container, Mapping, "
    "Hashable, Sized, MutableSequence, AbstractSet, TypeVar\n"
    "from typing_extensions import Unpack\nimport collections.abc as cabc\nfrom dataclasses import dataclass\n"
    "from enum import Enum, IntEnum, EnumType\nfrom abc import ABCMeta\n"
    "from harness.universe import A, B, Cc, D, Color, IE, Fl, NT0, NT1, NT2\n"
    "T0 = TypeVar('T0')\nT1 = TypeVar('T1')\nTB = TypeVar('TB', bound=int)\nTC = TypeVar('TC', int, str)\n"
)
CNAMES = {c: V.cname(c) for c in V.CLASSES}


# ------------------------------------------------------------------ terms -> source
def ty_src(t):
    k = t[0]
    if k == "any":
        return "Any"
    if k == "tvar":
        return TVNAMES[t[1]]
    if k == "known":
        return "Literal[%s]" % obj_src(t[1])
    if k == "typed":
        c = V.CLASSES[t[1]]
        if c is type(None):
            return "None"
        return {"EnumType": "EnumType", "Set": "AbstractSet"}.get(CNAMES[c], CNAMES[c])
    if k == "newtype":
        return "NT%d" % t[1]
    if k == "annotated":
        return "Annotated[%s, 'meta']" % ty_src(t[1])
    if k == "union":
        return "NoReturn" if not t[1] else "Union[%s]" % ", ".join(ty_src(x) for x in t[1])
    if k == "subclass":
        return "type[%s]" % ty_src(("typed", t[1]))
    if k == "generic":
        if V.CLASSES[t[1]] is tuple:
            return "tuple[%s, ...]" % ty_src(t[2][0])
        return "%s[%s]" % (ty_src(("typed", t[1])), ", ".join(ty_src(x) for x in t[2]))
    if k == "seq":
        if not t[2]:
            return "tuple[()]"
        return "tuple[%s]" % ", ".join(("Unpack[tuple[%s, ...]]" % ty_src(m[1])) if m[0] == "many" else ty_src(m) for m in t[2])
    raise ValueError(t)


def obj_src(o):
    """Source text of a literal expression denoting the object (None: not expressible as a literal)."""
    k = o[0]
    if k in ("int", "str"):
        return repr(o[1]) if not (k == "int" and o[1] < 0) else "(%d)" % o[1]
    if k == "bool":
        return repr(bool(o[1]))
    if k == "bytes":
        return repr(o[1].encode())
    if k == "none":
        return "None"
    if k == "flt":
        return repr(V.FLOATS[o[1]]) if V.FLOATS[o[1]] >= 0 else "(%r)" % V.FLOATS[o[1]]
    if k == "cplx":
        return None
    if k == "inst":
        c = V.CLASSES[o[1]]
        if c in (U.Color, U.IE):
            return "%s.%s" % (c.__name__, list(c)[o[2]].name)
        return None
    if k == "cls":
        c = V.CLASSES[o[1]]
        if c.__module__ == "collections.abc":
            return "cabc." + c.__name__
        return ty_src(("typed", o[1]))
    if k in ("tuple", "list", "set"):
        parts = [obj_src(x) for x in o[1]]
        if any(p is None for p in parts):
            return None
        body = ", ".join(parts)
        if k == "tuple":
            return "(%s%s)" % (body, "," if len(parts) == 1 else "")
        if k == "list":
            return "[%s]" % body
        return "{%s}" % body if parts else None
    if k == "dict":
        ks, vs = [obj_src(x) for x in o[1]], [obj_src(x) for x in o[2]]
        if any(p is None for p in ks + vs):
            return None
        return "{%s}" % ", ".join("%s: %s" % kv for kv in zip(ks, vs))
    return None


def tvars_of(t):
    k = t[0]
    if k == "tvar":
        return {t[1]}
    if k in ("generic", "seq"):
        return set().union(*[tvars_of(x) for x in t[2]]) if t[2] else set()
    if k == "union":
        return set().union(*[tvars_of(x) for x in t[1]]) if t[1] else set()
    if k in ("many", "annotated"):
        return tvars_of(t[1])
    return set()


def subst_term(t, sol):
    k = t[0]
    if k == "tvar":
        return sol.get(t[1], t)
    if k in ("generic", "seq"):
        return (k, t[1], [subst_term(x, sol) for x in t[2]])
    if k == "union":
        return ("union", [subst_term(x, sol) for x in t[1]])
    if k in ("many", "annotated"):
        return (k, subst_term(t[1], sol))
    return t


def subterms(t):
    yield t
    k = t[0]
    if k in ("generic", "seq"):
        for x in t[2]:
            yield from subterms(x)
    elif k == "union":
        for x in t[1]:
            yield from subterms(x)
    elif k in ("many", "annotated"):
        yield from subterms(t[1])


def subobjs(o):
    yield o
    if o[0] in ("tuple", "list", "set", "fset"):
        for x in o[1]:
            yield from subobjs(x)
    elif o[0] == "dict":
        for x in o[1] + o[2]:
            yield from subobjs(x)


ABCS = {G.SEQUENCE, G.ITERABLE, G.COLLECTION, G.CONTAINER, G.MUTSEQ, G.ABSSET}


def property_silent(t, o):
    """str/bytes objects against generic ABC targets: the property does not define element-wise membership there."""
    has_str = any(x[0] in ("str", "bytes") for x in subobjs(o))
    return has_str and any(s[0] == "generic" and s[1] in ABCS for s in subterms(t))


_PROTO = None


def proto_classes():
    """Class ids pyanalyze treats as protocols (Iterable, Collection, Container, Hashable, Sized, ...), from the live tree."""
    global _PROTO
    if _PROTO is None:
        ck = pya.make_checker()
        _PROTO = {i for i, c in enumerate(V.CLASSES) if ck.make_type_object(c).is_protocol}
    return _PROTO


def unmodelled_call(c, call):
    """Value-dependent protocol region (same exclusion as harness/props/c04.py `unmodelled`, C03 class protoClassObj): a
    class object (incl. an Enum class) among the arguments or defaults while some declared type mentions a protocol class
    anywhere. pyanalyze looks the protocol members up on the class object / its metaclass, which the table-driven `ca`
    does not represent; such calls are searched on the implementation but not compared with the model."""
    P = proto_classes()
    objs = call[0] + [v for _, v in call[1]] + [p[2] for p in c["params"] if p[2] is not None]
    if not any(x[0] == "cls" for o in objs for x in subobjs(o)):
        return False
    tys = [p[3] for p in c["params"]] + [c["ret"]]
    return any(s[0] in ("typed", "generic") and s[1] in P for t in tys for s in subterms(t))


def same_not_identical(o):
    """A container literal holding two elements that are equal as KnownValues (type(a) is type(b) and a == b) without being
    the same term, e.g. [(True,), (1,)]: unite_values keeps one of them (shared value kernel, reported under C03)."""
    for x in subobjs(o):
        if x[0] in ("tuple", "list", "set", "fset", "dict"):
            elems = x[1] if x[0] != "dict" else x[1] + x[2]
            pys = [(e, V.obj_to_py(e)) for e in elems]
            for i in range(len(pys)):
                for j in range(i + 1, len(pys)):
                    a, b = pys[i], pys[j]
                    try:
                        if a[0] != b[0] and type(a[1]) is type(b[1]) and a[1] == b[1]:
                            return True
                    except Exception:
                        pass
    return False


# ------------------------------------------------------------------ callables
def decl_ty(p):
    """The declared type the body sees for a parameter (name, kind, dflt, ann)."""
    if p[1] == "vp":
        return ("generic", G.TUPLE, [p[3]])
    if p[1] == "vk":
        return ("generic", G.DICT, [("typed", G.STR), p[3]])
    return p[3]


def header_src(params, annotated=True, sentinel=False):
    parts, seen_star = [], False
    npo = sum(1 for p in params if p[1] == "po")
    for i, (n, k, d, a) in enumerate(params):
        ann = (": " + ty_src(a)) if annotated else ""
        if k == "ko" and not seen_star:
            parts.append("*")
            seen_star = True
        if k == "vp":
            parts.append("*" + n + ann)
            seen_star = True
        elif k == "vk":
            parts.append("**" + n + ann)
        else:
            dflt = ""
            if d is not None:
                dflt = (" = " if annotated else "=") + ("_D" if sentinel else obj_src(d))
            parts.append(n + ann + dflt)
        if k == "po" and i == npo - 1:
            parts.append("/")
    return ", ".join(parts)


def body_src(tmpl):
    if tmpl is None:
        return "raise NotImplementedError"
    if tmpl[0] == "param":
        return "return %s" % tmpl[1]
    if tmpl[0] == "elem":
        return "return %s[0]" % tmpl[1]
    return "return %s" % obj_src(tmpl[1])


def elem_ty(t):
    if t[0] == "generic" and t[1] in (G.LIST, G.TUPLE) and len(t[2]) == 1:
        return t[2][0]
    return None


def call_src(call):
    pos, kws = call
    return ", ".join([obj_src(o) for o in pos] + ["%s=%s" % (k, obj_src(o)) for k, o in kws])


GEN_FORMS = ["T", "T", "list", "set", "seqabc", "dict", "dictstr", "pair", "nested", "tuplevar"]


def gen_tv_ann(rng, tv, other):
    f = rng.choice(GEN_FORMS)
    T = ("tvar", tv)
    if f == "T":
        return T
    if f == "list":
        return ("generic", G.LIST, [T])
    if f == "set":
        return ("generic", G.SET, [T])
    if f == "seqabc":
        return ("generic", rng.choice([G.SEQUENCE, G.ITERABLE]), [T])
    if f == "dict":
        return ("generic", G.DICT, [T, ("tvar", other)])
    if f == "dictstr":
        return ("generic", G.DICT, [("typed", G.STR), T])
    if f == "pair":
        return ("seq", G.TUPLE, [T, ("tvar", other)])
    if f == "nested":
        return ("generic", G.LIST, [("generic", G.LIST, [T])])
    return ("generic", G.TUPLE, [T])


def nested_intenum(o):
    """An IntEnum member inside a container: [IE.X] == [1] in Python, which the shared object model (Obj.pyEq) does not
    represent (an IntEnum member is only distinguished from its int value at top level, by its type)."""
    return any(x[0] == "inst" and x[1] == V.CID[U.IE] for x in subobjs(o) if x is not o)


def literal_ok(o):
    return obj_src(o) is not None and not same_not_identical(o) and not nested_intenum(o)


def gen_literal(rng, t, tvfill):
    """A literal-expressible object that is likely a member of t (type variables filled from tvfill)."""
    t = subst_term(t, tvfill)
    for _ in range(8):
        r = rng.random()
        if r < 0.72:
            o = G.gen_obj_for(rng, t)
        elif r < 0.87:
            o = G.mutate_obj(rng, G.gen_obj_for(rng, t))
        else:
            o = rng.choice(G.SCALARS) if rng.random() < 0.8 else G.gen_obj(rng, 2)
        if literal_ok(o):
            return o
    return ("int", 1)


FILL = [("typed", G.INT), ("typed", G.STR), ("typed", G.BOOL), ("typed", G.FLOAT), ("typed", G.NONE),
        ("union", [("typed", G.INT), ("typed", G.STR)]), ("generic", G.LIST, [("typed", G.INT)])]


def norm_none(t):
    """The annotation `None` is Literal[None] in pyanalyze."""
    k = t[0]
    if k == "typed" and t[1] == G.NONE:
        return ("known", ("none",))
    if k in ("generic", "seq"):
        return (k, t[1], [norm_none(x) for x in t[2]])
    if k == "union":
        out = []
        for x in t[1]:
            x = norm_none(x)
            if x not in out:  # typing.Union itself removes duplicates
                out.append(x)
        return out[0] if len(out) == 1 else ("union", out)
    if k in ("many", "annotated"):
        return (k, norm_none(t[1]))
    return t


def spellable(t):
    """Has a typing spelling: sequence forms only for tuple, at most one unpacked member."""
    for s in subterms(t):
        if s[0] == "seq" and (s[1] != G.TUPLE or sum(1 for m in s[2] if m[0] == "many") > 1):
            return False
    return True


def closed_ann(rng, depth):
    for _ in range(20):
        t = norm_none(G.norm_term(G.gen_ty(rng, depth, allow_any=(rng.random() < 0.05))))
        if t != ("union", []) and spellable(t):
            return t
    return ("typed", G.INT)


def random_header(rng, maxn):
    n = rng.choice([1, 1, 2, 2, 2, 3, 3, 4, 5][: max(1, min(9, maxn * 2))])
    n = min(n, maxn)
    kinds = sorted(rng.choice([0, 1, 1, 1, 2, 3, 3, 4]) for _ in range(n))
    while kinds.count(2) > 1:
        kinds.remove(2)
    while kinds.count(4) > 1:
        kinds.remove(4)
    return kinds


def random_callable(rng, depth):
    """-> dict(kind, params=[(name, kind, dflt, ann)], ret, tmpl)"""
    ckind = rng.choice(["plain"] * 6 + ["method", "classmethod", "staticmethod", "ctor", "dataclass"])
    generic = rng.random() < 0.4 and ckind not in ("dataclass",)
    kinds = random_header(rng, 5)
    if ckind == "dataclass":
        kinds = [1] * len(kinds)
    tv_a, tv_b = rng.sample([0, 1, 2, 3], 2)
    params, dstart = [], False
    for i, k in enumerate(kinds):
        if generic and rng.random() < 0.6:
            ann = gen_tv_ann(rng, tv_a if rng.random() < 0.7 else tv_b, tv_b)
        else:
            ann = closed_ann(rng, depth if rng.random() < 0.5 else 1)
        d = None
        if k < 2:
            dstart = dstart or rng.random() < 0.3
            has_d = dstart
        elif k == 3:
            has_d = rng.random() < 0.5
        else:
            has_d = False
        if has_d:
            fill = {tv: rng.choice(FILL[:5]) for tv in (0, 1)}
            fill[2] = rng.choice([("typed", G.INT), ("typed", G.BOOL)])
            fill[3] = rng.choice([("typed", G.INT), ("typed", G.STR)])
            for _ in range(12):
                cand = G.gen_obj_for(rng, subst_term(ann, fill))
                if literal_ok(cand) and G.member(V.obj_to_py(cand), subst_term(ann, fill)) and \
                        not (ckind == "dataclass" and cand[0] in ("list", "dict", "set")):  # dataclasses refuse mutable defaults
                    d = cand
                    break
            if d is None:
                if k < 2 and any(p[2] is not None for p in params if p[1] in ("po", "pk")):
                    ann, d = ("typed", G.INT), ("int", 0)  # keep the header legal: a default must follow a default
                    dstart = True
                elif k < 2:
                    dstart = False
        params.append((NAMES[i], KINDS[k], d, ann))
    # return type + body
    ret, tmpl = None, None
    if ckind in ("ctor", "dataclass"):
        ret = ("known", ("none",))
    else:
        r = rng.random()
        cands = [p for p in params]
        if r < 0.45 and cands:
            p = rng.choice(cands)
            ret, tmpl = decl_ty(p), ("param", p[0])
        elif r < 0.65 and any(elem_ty(decl_ty(p)) for p in params):
            p = rng.choice([p for p in params if elem_ty(decl_ty(p))])
            ret, tmpl = elem_ty(decl_ty(p)), ("elem", p[0])
        elif r < 0.85:
            for _ in range(10):
                t = closed_ann(rng, 1)
                o = G.gen_obj_for(rng, t)
                if literal_ok(o) and G.member(V.obj_to_py(o), t):
                    ret, tmpl = t, ("const", o)
                    break
        if ret is None:
            tvs = sorted(set().union(*[tvars_of(p[3]) for p in params])) if params else []
            if tvs and rng.random() < 0.8:
                T = ("tvar", rng.choice(tvs))
                ret = rng.choice([T, ("generic", G.LIST, [T]), ("seq", G.TUPLE, [T, ("typed", G.INT)]),
                                  ("generic", G.DICT, [("typed", G.STR), T])])
            else:
                ret = closed_ann(rng, 1)
    return {"kind": ckind, "params": params, "ret": ret, "tmpl": tmpl}


def random_call(rng, c):
    params = c["params"]
    fill = {tv: rng.choice(FILL) for tv in (0, 1)}
    fill[2] = rng.choice([("typed", G.INT), ("typed", G.BOOL), ("typed", G.INT), ("typed", G.STR)])
    fill[3] = rng.choice([("typed", G.INT), ("typed", G.STR), ("typed", G.BOOL), ("typed", G.FLOAT)])
    bad_bind = rng.random() < 0.1
    pos, kws = [], []
    posparams = [p for p in params if p[1] in ("po", "pk")]
    npos = 0
    for p in posparams:
        if p[1] == "po" or rng.random() < 0.6:
            if p[2] is not None and rng.random() < 0.35:
                break
            npos += 1
        else:
            break
    if bad_bind and rng.random() < 0.5:
        npos = rng.randint(0, len(posparams) + 1)
    for p in posparams[:npos]:
        pos.append(gen_literal(rng, p[3], fill))
    vp = next((p for p in params if p[1] == "vp"), None)
    if vp is not None and npos == len(posparams):
        for _ in range(rng.choice([0, 0, 1, 2, 2, 3])):
            pos.append(gen_literal(rng, vp[3], fill))
    elif bad_bind and rng.random() < 0.3:
        pos.append(("int", 1))
    for p in posparams[npos:]:
        if p[1] == "pk" and (p[2] is None or rng.random() < 0.5) and not (bad_bind and rng.random() < 0.3):
            kws.append((p[0], gen_literal(rng, p[3], fill)))
    for p in params:
        if p[1] == "ko" and (p[2] is None or rng.random() < 0.5) and not (bad_bind and rng.random() < 0.3):
            kws.append((p[0], gen_literal(rng, p[3], fill)))
    vk = next((p for p in params if p[1] == "vk"), None)
    if vk is not None:
        for nm in rng.sample(["x", "y", "z"], rng.choice([0, 0, 1, 2, 2])):
            kws.append((nm, gen_literal(rng, vk[3], fill)))
        if posparams and posparams[0][1] == "po" and rng.random() < 0.15:
            kws.append((posparams[0][0], gen_literal(rng, vk[3], fill)))  # positional-only name by keyword -> **kw
    elif bad_bind and rng.random() < 0.4:
        kws.append(("z", ("int", 1)))
    if bad_bind and posparams and rng.random() < 0.3 and npos > 0 and posparams[0][1] == "pk" and \
            not any(k == posparams[0][0] for k, _ in kws):
        kws.append((posparams[0][0], ("int", 1)))
    rng.shuffle(kws)
    return (pos, kws)


SMALL_ANNS = [("typed", G.INT), ("typed", G.STR), ("union", [("typed", G.INT), ("known", ("none",))]),
              ("generic", G.LIST, [("typed", G.INT)]), ("known", ("str", "a")), ("tvar", 0), ("generic", G.LIST, [("tvar", 0)]),
              ("tvar", 2), ("tvar", 3)]
SMALL_OBJS = [("int", 1), ("bool", 1), ("str", "a"), ("none",), ("list", [("int", 1), ("str", "a")]), ("list", [("bool", 0)])]


def small_cases():
    """Every 1-parameter header x annotation vocabulary x every call with <= 2 arguments over SMALL_OBJS."""
    out = []
    for k in KINDS:
        for ann in SMALL_ANNS:
            for dflt in ([None, ("int", 1)] if k in ("po", "pk", "ko") else [None]):
                params = [("a", k, dflt, ann)]
                ret, tmpl = decl_ty(params[0]), ("param", "a")
                c = {"kind": "plain", "params": params, "ret": ret, "tmpl": tmpl}
                calls = [([], [])]
                for o in SMALL_OBJS:
                    calls += [([o], []), ([], [("a", o)]), ([], [("z", o)])]
                    for o2 in SMALL_OBJS:
                        calls += [([o, o2], []), ([o], [("z", o2)]), ([], [("y", o), ("z", o2)])]
                out.append((c, calls))
    return out


# ------------------------------------------------------------------ Lean line
def param_sexp(p):
    n, k, d, a = p
    return "(p %s %s %s %s)" % (n, k, "-" if d is None else "(d %s)" % V.obj_sexp(V.canon_obj(d)), V.ty_sexp(a))


def tv_sexp(i):
    b, cs = TVDECL[i]
    return "(tv %d %s (cs%s))" % (i, "-" if b is None else "(b %s)" % V.ty_sexp(b), "".join(" " + V.ty_sexp(c) for c in cs))


def tmpl_sexp(t):
    if t is None:
        return "-"
    if t[0] == "const":
        return "(const %s)" % V.obj_sexp(V.canon_obj(t[1]))
    return "(%s %s)" % (t[0], t[1])


def lean_line(c, call):
    kind = c["kind"]
    params = list(c["params"])
    self_v, cls, lk = "-", 0, "plain"
    if kind == "method":
        params = [("self", "pk", None, ("typed", A_ID))] + params
        self_v, lk = "(typed %d)" % A_ID, "bound"
    elif kind == "classmethod":
        params = [("cls", "pk", None, ("any",))] + params
        self_v, lk = "(known (cls %d))" % A_ID, "bound"
    elif kind in ("ctor", "dataclass"):
        params = [("self", "pk", None, ("typed", A_ID))] + params
        cls, lk = A_ID, "ctor"
    tvs = sorted(set().union(tvars_of(c["ret"]), *[tvars_of(p[3]) for p in c["params"]]))
    pos, kws = call
    return "(%s (params %s) (ret %s) (tvs %s) (self %s) (cls %d) (pos %s) (kws %s) (tmpl %s))" % (
        lk, " ".join(param_sexp(p) for p in params), V.ty_sexp(c["ret"]), " ".join(tv_sexp(i) for i in tvs), self_v, cls,
        " ".join(V.obj_sexp(V.canon_obj(o)) for o in pos),
        " ".join("(%s %s)" % (k, V.obj_sexp(V.canon_obj(o))) for k, o in kws), tmpl_sexp(c["tmpl"]))


def split_top(s):
    """Top-level parenthesised groups of a string of s-expressions."""
    out, depth, start = [], 0, None
    for i, ch in enumerate(s):
        if ch == "(":
            if depth == 0:
                start = i
            depth += 1
        elif ch == ")":
            depth -= 1
            if depth == 0:
                out.append(s[start:i + 1])
    return out


def _parse(tokens, i):
    if tokens[i] == "(":
        out, i = [], i + 1
        while tokens[i] != ")":
            x, i = _parse(tokens, i)
            out.append(x)
        return out, i + 1
    return tokens[i], i + 1


def _ser(x):
    return x if isinstance(x, str) else "(" + " ".join(_ser(y) for y in x) + ")"


def _canon(x):
    if isinstance(x, str):
        return x
    x = [_canon(y) for y in x]
    if x and x[0] == "union":
        x = ["union"] + sorted(x[1:], key=_ser)
    return x


def canon_unions(text):
    """Sort the members of every union in a string of s-expressions (used only where the order came from iterating a
    Python set: C06 is not about that order, C10 is)."""
    toks = text.replace("(", " ( ").replace(")", " ) ").split()
    out, i = [], 0
    while i < len(toks):
        x, i = _parse(toks, i)
        out.append(_ser(_canon(x)))
    return " ".join(out)


def emitted(bad, params):
    """The diagnostics that survive pyanalyze's duplicate filter (node_visitor.py:613, C11's business): an error on a *args /
    **kw parameter is attached to the call node itself, and only the first error per (node, code) is shown."""
    kinds = {p[0]: p[1] for p in params}
    out, seen_call_node = [], False
    for n in bad:
        if kinds.get(n) in ("vp", "vk"):
            if seen_call_node:
                continue
            seen_call_node = True
        out.append(n)
    return out


def parse_model(line):
    return dict(x.split("=", 1) for x in line.split(" | "))


# ------------------------------------------------------------------ implementation: one generated module per batch
def def_src(i, c):
    """Source lines defining callable number i; returns (lines, call prefix, twin call prefix or None)."""
    kind = c["kind"]
    hdr = header_src(c["params"])
    ret = ty_src(c["ret"])
    body = body_src(c["tmpl"])
    tvs = sorted(set().union(*[tvars_of(p[3]) for p in c["params"]])) if c["params"] else []
    twin_ret = "tuple[%s]" % ", ".join(TVNAMES[t] for t in tvs) if tvs else None
    lines, twin = [], None

    def fn(name, prefix, indent, first=None):
        h = hdr if first is None else (first + (", " + hdr if hdr else ""))
        out = []
        if prefix:
            out.append(indent + prefix)
        out.append("%sdef %s(%s) -> %s:" % (indent, name, h, ret))
        out.append("%s    %s" % (indent, body))
        if twin_ret:
            if prefix:
                out.append(indent + prefix)
            out.append("%sdef %ss(%s) -> %s:" % (indent, name, h, twin_ret))
            out.append("%s    raise NotImplementedError" % indent)
        return out

    if kind == "plain":
        lines += fn("f%d" % i, None, "")
        callee = "f%d" % i
    elif kind == "method":
        lines += ["class K%d(A):" % i] + fn("m", None, "    ", "self")
        callee = "K%d().m" % i
    elif kind == "classmethod":
        lines += ["class K%d(A):" % i] + fn("m", "@classmethod", "    ", "cls")
        callee = "K%d.m" % i
    elif kind == "staticmethod":
        lines += ["class K%d(A):" % i] + fn("m", "@staticmethod", "    ")
        callee = "K%d.m" % i
    elif kind == "ctor":
        lines += ["class K%d(A):" % i, "    def __init__(self%s) -> None:" % (", " + hdr if hdr else ""), "        pass"]
        callee = "K%d" % i
        if twin_ret:  # the solution of a generic __init__: a plain twin with the same parameters
            lines += ["def k%ds(%s) -> %s:" % (i, hdr, twin_ret), "    raise NotImplementedError"]
            return lines, callee, "k%ds" % i, tvs
    elif kind == "dataclass":
        lines += ["@dataclass", "class K%d(A):" % i]
        for (n, k, d, a) in c["params"]:
            lines.append("    %s: %s%s" % (n, ty_src(a), "" if d is None else " = %s" % obj_src(d)))
        if not c["params"]:
            lines.append("    pass")
        callee = "K%d" % i
    if twin_ret:
        twin = callee + "s"
    return lines, callee, twin, tvs


_MSG = re.compile(r"Incompatible argument type for (\w+):")


def decode(v, genclasses):
    from pyanalyze import value as PV
    if type(v) is PV.TypedValue and v.typ in genclasses:
        return ("typed", A_ID)
    return V.value_to_ty(v)


def line_result(fs, val, genclasses=frozenset()):
    """Verdict / inferred type of one call line from its failures and the annotated Value of the call node."""
    codes = [f["code"] for f in fs]
    bad = []
    for f in fs:
        if f["code"] == "incompatible_argument":
            m = _MSG.search(f["message"])
            bad.append(m.group(1) if m else "?")
    other = sorted(set(c for c in codes if c not in ("incompatible_argument", "incompatible_call")))
    verdict = "CALL" if "incompatible_call" in codes else "OK:" + ",".join(bad)
    try:
        tterm = decode(val, genclasses) if val is not None else None
        ty = V.ty_sexp(tterm) if val is not None else "NOVALUE"
    except V.Unencodable:
        ty, tterm = "UNENC", None
    except Exception as e:
        ty, tterm = "EXC:%s" % type(e).__name__, None
    return {"verdict": verdict, "type": ty, "term": tterm, "other": other, "sol": None,
            "msgs": [f["message"][:160] for f in fs][:3]}


def run_batch(items):
    """items: list of (callable dict, [calls]). Returns per (i, j): dict(verdict, type, sol) from real pyanalyze, and the module."""
    import ast
    src = [PRELUDE.rstrip("\n")]
    callee, twins, tvss = {}, {}, {}
    for i, (c, _) in enumerate(items):
        lines, cal, twin, tvs = def_src(i, c)
        src += lines
        callee[i], twins[i], tvss[i] = cal, twin, tvs
    src.append("def run() -> None:")
    base = sum(s.count("\n") + 1 for s in src)
    index = []
    for i, (c, calls) in enumerate(items):
        for j, call in enumerate(calls):
            args = call_src(call)
            src.append("    %s(%s)" % (callee[i], args))
            index.append((i, j, False))
            if twins[i]:
                src.append("    %s(%s)" % (twins[i], args))
                index.append((i, j, True))
    text = "\n".join(src) + "\n"
    fails, tree, mod = pya.check_source(text, annotate=True)
    byline = {}
    for f in fails:
        if f["lineno"] is not None and f["lineno"] > base:
            byline.setdefault(f["lineno"] - base - 1, []).append(f)
    runfn = next(n for n in tree.body if isinstance(n, ast.FunctionDef) and n.name == "run")
    genclasses = {getattr(mod, "K%d" % i) for i in range(len(items)) if hasattr(mod, "K%d" % i)}
    res = {}
    for li, (i, j, is_twin) in enumerate(index):
        stmt = runfn.body[li]
        val = getattr(stmt.value, "inferred_value", None)
        fs = byline.get(li, [])
        if is_twin:
            sol = None
            try:
                t = decode(val, genclasses)
                if t[0] == "seq" and len(t[2]) == len(tvss[i]):
                    sol = dict(zip(tvss[i], t[2]))
                elif t[0] == "generic" and t[1] == G.TUPLE:  # get_default_return: tuple[Any, ...]-like / unexpected
                    sol = None
            except V.Unencodable:
                sol = "UNENC"
            res[(i, j)]["sol"] = sol
            continue
        res[(i, j)] = line_result(fs, val, genclasses)
    return res, mod


# ------------------------------------------------------------------ CPython oracle
_D = object()


def landing_fn(params):
    ns = {"_D": _D}
    exec("def f(%s): return dict(locals())" % header_src(params, annotated=False, sentinel=True), ns)
    return ns["f"]


def py_landing(params, lf, call):
    """(binds, {param: ('one', obj) | ('star', [objs]) | ('dstar', [(k, obj)]) | ('dflt',)}) by really calling."""
    pos, kws = call
    if len({k for k, _ in kws}) != len(kws):
        return False, None
    try:
        loc = lf(*[V.obj_to_py(o) for o in pos], **{k: V.obj_to_py(o) for k, o in kws})
    except TypeError:
        return False, None
    out = {}
    for (n, k, d, a) in params:
        v = loc[n]
        if k == "vp":
            out[n] = ("star", list(v))
        elif k == "vk":
            out[n] = ("dstar", list(v.items()))
        elif v is _D:
            out[n] = ("dflt",)
        else:
            out[n] = ("one", v)
    return True, out


def landed_objs(l):
    if l[0] == "one":
        return [l[1]]
    if l[0] == "star":
        return l[1]
    if l[0] == "dstar":
        return [v for _, v in l[1]]
    return []


def show_landing(params, land):
    parts = []
    for (n, k, d, a) in params:
        l = land[n]
        if l[0] == "one":
            parts.append("(%s (one %s))" % (n, V.obj_sexp(V.canon_obj(V.py_to_obj(l[1])))))
        elif l[0] == "star":
            parts.append("(%s (star%s))" % (n, "".join(" " + V.obj_sexp(V.canon_obj(V.py_to_obj(x))) for x in l[1])))
        elif l[0] == "dstar":
            parts.append("(%s (dstar%s))" % (n, "".join(" (%s %s)" % (kk, V.obj_sexp(V.canon_obj(V.py_to_obj(x)))) for kk, x in l[1])))
        else:
            parts.append("(%s dflt)" % n)
    return " ".join(parts)


def really_call(mod, i, c, call):
    """Execute the generated callable on the arguments; ('ok', result) | ('exc', name)."""
    pos, kws = call
    a = [V.obj_to_py(o) for o in pos]
    kw = {k: V.obj_to_py(o) for k, o in kws}
    try:
        if c["kind"] == "plain":
            return "ok", getattr(mod, "f%d" % i)(*a, **kw)
        K = getattr(mod, "K%d" % i)
        if c["kind"] == "method":
            return "ok", K().m(*a, **kw)
        if c["kind"] in ("classmethod", "staticmethod"):
            return "ok", K.m(*a, **kw)
        return "ok", K(*a, **kw)
    except Exception as e:
        return "exc", type(e).__name__



# ------------------------------------------------------------------ annotation spelling layer
# C06 quantifies over annotated functions: HOW the declared type is written must not matter. Every declared type can be
# rendered in several spellings, and every callable in several callee forms (so that both signature routes of pyanalyze
# are exercised: the def node / functions.py for nested defs, the runtime object / arg_spec.py for everything else).
SPELLINGS = ["plain", "quoted", "partial", "late", "alias", "strtv"]   # + "future": plain text in a
FORMS = ["def", "method", "classmethod", "staticmethod", "nested", "lib"]  # `from __future__ import annotations` module
STRTV = {"TB": "TBs", "TC": "TCs"}
STRTV_DEFS = "TBs = TypeVar('TBs', bound=\"int\")\nTCs = TypeVar('TCs', \"int\", \"str\")\n"


def _leaf_names(t, acc):
    """Class / NewType names occurring as leaves of a type term (what a forward reference can stand for)."""
    k = t[0]
    if k == "typed" and V.CLASSES[t[1]] is not type(None):
        acc.add(ty_src(t))
    elif k == "newtype":
        acc.add(ty_src(t))
    elif k == "subclass":
        acc.add(ty_src(("typed", t[1])))
    elif k in ("generic", "seq"):
        for x in t[2]:
            _leaf_names(x, acc)
    elif k == "union":
        for x in t[1]:
            _leaf_names(x, acc)
    elif k in ("many", "annotated"):
        _leaf_names(t[1], acc)
    return acc


def ty_src_q(t, q, tv=lambda n: n, top=True):
    """ty_src with every leaf class name INSIDE a typing construct rendered by q(name) (e.g. individually quoted)."""
    k = t[0]
    if k == "tvar":
        return tv(TVNAMES[t[1]])
    if k == "typed":
        n = ty_src(t)
        return n if (top or n == "None") else q(n)
    if k == "newtype":
        return ty_src(t) if top else q(ty_src(t))
    if k == "annotated":
        return "Annotated[%s, 'meta']" % ty_src_q(t[1], q, tv, False)
    if k == "union":
        return "NoReturn" if not t[1] else "Union[%s]" % ", ".join(ty_src_q(x, q, tv, False) for x in t[1])
    if k == "subclass":
        return "type[%s]" % q(ty_src(("typed", t[1])))
    if k == "generic":
        if V.CLASSES[t[1]] is tuple:
            return "tuple[%s, ...]" % ty_src_q(t[2][0], q, tv, False)
        return "%s[%s]" % (ty_src(("typed", t[1])), ", ".join(ty_src_q(x, q, tv, False) for x in t[2]))
    if k == "seq":
        if not t[2]:
            return "tuple[()]"
        return "tuple[%s]" % ", ".join(("Unpack[tuple[%s, ...]]" % ty_src_q(m[1], q, tv, False)) if m[0] == "many"
                                       else ty_src_q(m, q, tv, False) for m in t[2])
    return ty_src(t)  # any, known


def spell(t, mode, aliases=None):
    """Source text of the annotation for the declared type t in the given spelling. `alias` registers a module-level
    alias definition in `aliases` (name -> text) and returns the alias name."""
    if mode in ("plain", "future"):
        return ty_src(t)
    if mode == "quoted":
        return '"%s"' % ty_src(t)
    if mode == "strtv":
        return ty_src_q(t, lambda n: n, lambda n: STRTV.get(n, n))
    if mode == "partial":
        if t[0] in ("typed", "newtype") and ty_src(t) != "None":
            return '"%s"' % ty_src(t)
        return ty_src_q(t, lambda n: '"%s"' % n)
    if mode == "late":
        if t[0] in ("typed", "newtype") and ty_src(t) != "None":
            return '"Late_%s"' % ty_src(t)
        return ty_src_q(t, lambda n: '"Late_%s"' % n)
    if mode == "alias":
        text = ty_src_q(t, lambda n: '"%s"' % n)
        name = "AL%d" % len(aliases)
        for k_, v_ in aliases.items():
            if v_ == text:
                return k_
        aliases[name] = text
        return name
    raise ValueError(mode)


def header_spelled(params, mode, aliases):
    parts, seen_star = [], False
    npo = sum(1 for p in params if p[1] == "po")
    for i, (n, k, d, a) in enumerate(params):
        ann = ": " + spell(a, mode, aliases)
        if k == "ko" and not seen_star:
            parts.append("*")
            seen_star = True
        if k == "vp":
            parts.append("*" + n + ann)
            seen_star = True
        elif k == "vk":
            parts.append("**" + n + ann)
        else:
            parts.append(n + ann + ("" if d is None else " = " + obj_src(d)))
        if k == "po" and i == npo - 1:
            parts.append("/")
    return ", ".join(parts)


def _T(c):
    return ("typed", V.CID[c] if not isinstance(c, int) else c)


def _opt(t):
    return ("union", [t, ("known", ("none",))])


def spell_base():
    """Hand-picked callables that always go through the spelling stream: optional / container / mapping / bounded and
    constrained type-variable / variadic parameters over names that can be forward references, with calls on both
    sides of the declared type."""
    A_, B_ = ("typed", V.CID[U.A]), ("typed", V.CID[U.B])
    I, S = ("typed", G.INT), ("typed", G.STR)
    col = ("inst", V.CID[U.Color], 0)
    ie = ("inst", V.CID[U.IE], 0)
    out = []

    def add(params, ret, tmpl, calls):
        out.append(({"kind": "plain", "params": params, "ret": ret, "tmpl": tmpl}, calls))

    add([("a", "pk", None, _opt(I))], _opt(I), ("param", "a"),
        [([("int", 1)], []), ([("none",)], []), ([("str", "a")], []), ([], [("a", ("flt", 0))])])
    add([("a", "pk", None, ("generic", G.LIST, [("typed", V.CID[U.Color])]))], I, ("const", ("int", 0)),
        [([("list", [col])], []), ([("list", [("int", 1)])], []), ([("list", [])], []), ([("tuple", [col])], [])])
    add([("a", "pk", None, ("generic", G.DICT, [S, ("typed", V.CID[U.IE])]))], I, ("const", ("int", 0)),
        [([("dict", [("str", "k")], [ie])], []), ([("dict", [("str", "k")], [("int", 1)])], []),
         ([("dict", [("int", 1)], [ie])], [])])
    add([("a", "pk", None, ("tvar", 2))], ("tvar", 2), ("param", "a"),
        [([("int", 1)], []), ([("bool", 1)], []), ([("str", "a")], []), ([("none",)], [])])
    add([("a", "pk", None, ("tvar", 3)), ("b", "pk", None, ("tvar", 3))], ("tvar", 3), ("param", "a"),
        [([("int", 1), ("int", 2)], []), ([("str", "a"), ("str", "b")], []), ([("int", 1), ("str", "a")], []),
         ([("flt", 0), ("flt", 1)], [])])
    add([("a", "pk", ("none",), _opt(I)), ("b", "vp", None, _opt(("typed", V.CID[U.Color])))], I, ("const", ("int", 0)),
        [([("int", 2)], []), ([("str", "a")], []), ([("none",), ("none",), col], []), ([("none",), ("none",), ("int", 3)], []),
         ([], [])])
    add([("a", "ko", None, ("subclass", V.CID[U.A])), ("b", "vk", None, ("union", [I, ("typed", V.CID[U.Color])]))],
        ("subclass", V.CID[U.A]), ("param", "a"),
        [([], [("a", ("cls", V.CID[U.B]))]), ([], [("a", ("cls", G.INT))]), ([], [("a", ("cls", V.CID[U.A])), ("x", col)]),
         ([], [("a", ("cls", V.CID[U.A])), ("x", ("str", "a"))])])
    add([("a", "po", None, ("seq", G.TUPLE, [I, ("typed", V.CID[U.IE])])), ("b", "pk", None, ("newtype", 0, G.INT))],
        ("newtype", 0, G.INT), ("param", "b"),
        [([("tuple", [("int", 1), ie]), ("int", 2)], []), ([("tuple", [("int", 1), ("int", 1)]), ("int", 2)], []),
         ([("tuple", [("int", 1), ie]), ("bool", 1)], [])])
    return out


UPPER = {0: ("any",), 1: ("any",), 2: ("typed", G.INT), 3: ("union", [("typed", G.INT), ("typed", G.STR)])}


def upper_violation(c, land):
    """A necessary condition independent of any solver: with every type variable replaced by its declared bound (the union
    of its constraints; Any when unrestricted) each landed argument must still be a member, or an error has to be
    reported. Returns (param, object, type) of a violating argument or None."""
    for p in c["params"]:
        if not tvars_of(p[3]):
            continue
        t = subst_term(p[3], UPPER)
        for o in landed_objs(land[p[0]]):
            try:
                oo = V.py_to_obj(o)
            except V.Unencodable:
                continue
            if property_silent(t, oo):
                continue
            if not G.member(o, t):
                return p[0], o, t
    return None


_LIBN = [0]


def spelling_stream(ctx, items, with_model=True):
    """Metamorphic comparison: the same call against the same declared types written in every spelling x every callee form.
    All verdicts (and inferred types) must agree with each other, with the model, and with the membership oracle."""
    import ast, sys
    if not items:
        return
    model = None
    if with_model:
        out = lean.run_driver("C06", [lean_line(c, call) for c, calls in items for call in calls])
        model, k = {}, 0
        for i, (c, calls) in enumerate(items):
            for j in range(len(calls)):
                model[(i, j)] = out[k]
                k += 1
    B = 12
    for b0 in range(0, len(items), B):
        batch = items[b0:b0 + B]
        # ---- sources: library modules (plain / future), checked modules (plain / future)
        _LIBN[0] += 1
        tag = "%d_%d" % (os.getpid(), _LIBN[0])
        names = set()
        for c, _ in batch:
            for p in c["params"]:
                _leaf_names(p[3], names)
            _leaf_names(c["ret"], names)
        late = "".join("Late_%s = %s\n" % (n, n) for n in sorted(names))
        aliases = {}
        defs = {}   # (i, spelling) -> (header, ret)
        for i, (c, _) in enumerate(batch):
            for sp in SPELLINGS:
                defs[(i, sp)] = (header_spelled(c["params"], sp, aliases), spell(c["ret"], sp, aliases))
        # identical text as the plain spelling adds nothing: skip it
        active = {(i, sp) for (i, sp) in defs if sp == "plain" or defs[(i, sp)] != defs[(i, "plain")]}
        alias_src = "".join("%s = %s\n" % kv for kv in aliases.items())

        def top_defs(sps, future):
            lines = []
            for i, (c, _) in enumerate(batch):
                body = body_src(c["tmpl"])
                for sp in sps:
                    if not future and (i, sp) not in active:
                        continue
                    h, r = defs[(i, "plain" if future else sp)]
                    lines += ["def f%d_%s(%s) -> %s:" % (i, sp, h, r), "    " + body]
            return lines

        def class_defs(sps, future):
            lines = []
            for i, (c, _) in enumerate(batch):
                body = body_src(c["tmpl"])
                for sp in sps:
                    if not future and (i, sp) not in active:
                        continue
                    h, r = defs[(i, "plain" if future else sp)]
                    hh = ", " + h if h else ""
                    lines += ["class K%d_%s(A):" % (i, sp),
                              "    def m(self%s) -> %s:" % (hh, r), "        " + body,
                              "    @classmethod", "    def cm(cls%s) -> %s:" % (hh, r), "        " + body,
                              "    @staticmethod", "    def sm(%s) -> %s:" % (h, r), "        " + body]
            return lines

        pre = PRELUDE + STRTV_DEFS
        libs = {}
        for future in (False, True):
            sps = ["future"] if future else SPELLINGS
            libname = "c06lib%s_%s" % ("f" if future else "", tag)
            text = ("from __future__ import annotations\n" if future else "") + pre + alias_src + \
                "\n".join(top_defs(sps, future)) + "\n" + late
            with open(os.path.join(ctx.scratch, libname + ".py"), "w") as f:
                f.write(text)
            libs[future] = libname
        if ctx.scratch not in sys.path:
            sys.path.insert(0, ctx.scratch)
        results = {}   # (i, j, spelling, form) -> line result
        srcs = {}
        for future in (False, True):
            sps = ["future"] if future else SPELLINGS
            src = (["from __future__ import annotations"] if future else []) + [pre.rstrip("\n"), alias_src.rstrip("\n"),
                                                                              "import %s as L" % libs[future]]
            src += top_defs(sps, future) + class_defs(sps, future)
            src += late.rstrip("\n").split("\n") if late else []
            src.append("def run() -> None:")
            nested = []
            for i, (c, _) in enumerate(batch):
                body = body_src(c["tmpl"])
                for sp in sps:
                    if not future and (i, sp) not in active:
                        continue
                    h, r = defs[(i, "plain" if future else sp)]
                    nested += ["    def n%d_%s(%s) -> %s:" % (i, sp, h, r), "        " + body]
            src += nested
            src = [x for x in src if x != ""]
            base = sum(x.count("\n") + 1 for x in src)
            index = []
            for i, (c, calls) in enumerate(batch):
                for j, call in enumerate(calls):
                    args = call_src(call)
                    for sp in sps:
                        if not future and (i, sp) not in active:
                            continue
                        for form, callee in (("def", "f%d_%s" % (i, sp)), ("method", "K%d_%s().m" % (i, sp)),
                                             ("classmethod", "K%d_%s.cm" % (i, sp)), ("staticmethod", "K%d_%s.sm" % (i, sp)),
                                             ("nested", "n%d_%s" % (i, sp)), ("lib", "L.f%d_%s" % (i, sp))):
                            src.append("    %s(%s)" % (callee, args))
                            index.append((i, j, sp, form))
            text = "\n".join(src) + "\n"
            srcs[future] = text
            fails, tree, mod = pya.check_source(text, annotate=True)
            byline = {}
            for f in fails:
                if f["lineno"] is not None and f["lineno"] > base:
                    byline.setdefault(f["lineno"] - base - 1, []).append(f)
            runfn = next(n for n in tree.body if isinstance(n, ast.FunctionDef) and n.name == "run")
            calls_ast = [st for st in runfn.body if isinstance(st, ast.Expr)]
            for li, key in enumerate(index):
                val = getattr(calls_ast[li].value, "inferred_value", None)
                results[key] = line_result(byline.get(li, []), val)
        # ---- compare
        for i, (c, calls) in enumerate(batch):
            lf = landing_fn(c["params"])
            generic = bool(set().union(tvars_of(c["ret"]), *[tvars_of(p[3]) for p in c["params"]]))
            for j, call in enumerate(calls):
                case = {"def": callable_text(c), "call": "(%s)" % call_src(call),
                        "callable": {"kind": c["kind"], "params": c["params"], "ret": c["ret"], "tmpl": c["tmpl"]},
                        "calls": [call], "stream": "spelling"}
                binds, land = py_landing(c["params"], lf, call)
                ref_diag, silent = None, False
                if binds and not generic:
                    bads = []
                    for p in c["params"]:
                        for o in landed_objs(land[p[0]]):
                            try:
                                oo = V.py_to_obj(o)
                            except V.Unencodable:
                                oo = None
                            if oo is not None and property_silent(p[3], oo):
                                silent = True
                            if not G.member(o, p[3]):
                                bads.append(p[0])
                    ref_diag = bool(bads)
                upper = upper_violation(c, land) if (binds and generic) else None
                m = mv_e2e = None
                dcls = []
                modelled = not unmodelled_call(c, call)
                from_set = any(x[0] in ("set", "fset") for o in call[0] + [v for _, v in call[1]] +
                               [p[2] for p in c["params"] if p[2] is not None] for x in subobjs(o))
                cu = canon_unions if from_set else (lambda z: z)
                if model is not None and model[(b0 + i, j)] != "bad-op":
                    m = parse_model(model[(b0 + i, j)])
                    dcls = [] if m["D"] == "-" else m["D"].split(",")
                    mv = m["v"]
                    mv_e2e = {"BIND": "CALL", "RESOLVE": "CALL"}.get(mv, mv)
                    if mv.startswith("TVARG:"):
                        mv_e2e = "OK:" + mv[6:]
                    elif mv.startswith("OK:") and mv != "OK:":
                        mv_e2e = "OK:" + ",".join(emitted(mv[3:].split(","), c["params"]))
                variants = [(k_[2], k_[3], r) for k_, r in results.items() if k_[0] == i and k_[1] == j]
                ref = next((r for sp, fm, r in variants if sp == "plain" and fm == "def"), None)
                for sp, fm, r in variants:
                    ctx.count(1, **{"spelling_" + sp: 1, "form_" + fm: 1})
                    ctx.corr("spelling")
                    vcase = dict(case, variant={"spelling": sp, "form": fm,
                                                "header": defs[(i, "plain" if sp == "future" else sp)][0]})
                    short = {"def": case["def"], "call": case["call"], "spelling": sp, "form": fm,
                             "header": vcase["variant"]["header"]}
                    conforms = True
                    if ref is not None and (r["verdict"], cu(r["type"]), r["other"]) != (ref["verdict"], cu(ref["type"]), ref["other"]):
                        ctx.disagree("spelling", short, {"verdict": r["verdict"], "type": r["type"], "other": r["other"],
                                                         "msgs": r["msgs"]},
                                     {"plain def": {"verdict": ref["verdict"], "type": ref["type"]}})
                    if m is not None and modelled and (r["verdict"] != mv_e2e or r["other"] or cu(r["type"]) != cu(m["ret"])):
                        conforms = False
                        ctx.disagree("spelling", short, {"verdict": r["verdict"], "type": r["type"], "other": r["other"],
                                                         "msgs": r["msgs"]}, {"model": m["v"], "ret": m["ret"]})
                    diagnosed = r["verdict"].startswith("OK:") and r["verdict"] != "OK:"
                    reported = r["verdict"] != "OK:" or bool(r["other"])
                    if ref_diag is not None and not silent and r["verdict"] != "CALL" and not r["other"]:
                        ctx.tag("P1_spelled")
                        if diagnosed != ref_diag:
                            wants = ["frozensetLiteral", "protoClassObj", "equalLiteralArgs"] if ref_diag else ["variadicTuple"]
                            cls = next((w for w in wants if w in dcls), None)
                            ctx.candidate(vcase, "call %s although %s (annotations spelled %s, callee form %s: %s)" % (
                                "diagnosed (%s)" % r["verdict"] if diagnosed else "not diagnosed",
                                "an argument is not a member of the declared type of its parameter" if ref_diag
                                else "every argument is a member of the declared type of its parameter",
                                sp, fm, vcase["variant"]["header"]), cls=cls, conforms=conforms, stream="P1")
                    if upper is not None and not reported:
                        ctx.candidate(vcase, "no error although argument %r of %s is not a member of %s, the declared type with every "
                                      "type variable at its declared bound (annotations spelled %s, callee form %s: %s)"
                                      % (upper[1], upper[0], ty_src(upper[2]), sp, fm, vcase["variant"]["header"]),
                                      cls=None, conforms=conforms, stream="P4")


# ------------------------------------------------------------------ several *iterables in one call
# The positional section drawn from the full call grammar: any interleaving of plain positionals, `*xs` of unknown length,
# known-length `*(a, b)` tuples and `*[]`, against callees with a variadic parameter. Keyword section: shuffled keywords.
STAR_VARS = {"xi": ("typed", G.INT), "xs": ("typed", G.STR), "xu": ("union", [("typed", G.INT), ("typed", G.STR)]),
             "xb": ("typed", V.CID[U.B]), "xa": ("typed", V.CID[U.A])}
STAR_ELEMS = {"xi": [1], "xs": ["a"], "xu": [1, "a"], "xb": None, "xa": None}   # None: instances of the class
STAR_RUN = "def run(xi: list[int], xs: list[str], xu: list[Union[int, str]], xb: list[B], xa: list[A]) -> None:"


def star_callees():
    I, S, Bt, At = ("typed", G.INT), ("typed", G.STR), ("typed", V.CID[U.B]), ("typed", V.CID[U.A])
    IS = ("union", [I, S])
    out = []
    for T in (I, S, IS, Bt, At):
        out.append([("r", "vp", None, T)])
    for T, Uu in ((I, I), (I, S), (S, I), (At, Bt), (Bt, At), (IS, I)):
        out.append([("a", "pk", None, T), ("r", "vp", None, Uu)])
        out.append([("a", "po", None, T), ("r", "vp", None, Uu)])
    out.append([("a", "pk", None, I), ("b", "pk", ("int", 0), I), ("r", "vp", None, I)])
    out.append([("a", "po", None, S), ("b", "pk", ("str", "a"), S), ("r", "vp", None, IS), ("k", "ko", ("int", 0), I)])
    return out


def random_pos_section(rng):
    """<= 5 items: ('p', obj) | ('s', var) | ('t', [objs]) known-length tuple | ('e',) = *[]"""
    n = rng.choice([2, 3, 3, 4, 4, 5])
    items = []
    lits = [("int", 1), ("int", 2), ("str", "a"), ("none",), ("bool", 1), ("flt", 0)]
    for _ in range(n):
        r = rng.random()
        if r < 0.4:
            items.append(("p", rng.choice(lits)))
        elif r < 0.8:
            items.append(("s", rng.choice(list(STAR_VARS))))
        elif r < 0.93:
            items.append(("t", [rng.choice(lits) for _ in range(rng.choice([1, 2]))]))
        else:
            items.append(("e",))
    return items


def pos_section_src(items):
    parts = []
    for it in items:
        if it[0] == "p":
            parts.append(obj_src(it[1]))
        elif it[0] == "s":
            parts.append("*" + it[1])
        elif it[0] == "t":
            parts.append("*(%s,)" % ", ".join(obj_src(o) for o in it[1]))
        else:
            parts.append("*[]")
    return parts


def star_expansions(items):
    """Concrete positional tuples: every *xs at every length 0..3 with elements of its element type."""
    import itertools
    per = []
    for it in items:
        if it[0] == "p":
            per.append([[V.obj_to_py(it[1])]])
        elif it[0] == "t":
            per.append([[V.obj_to_py(o) for o in it[1]]])
        elif it[0] == "e":
            per.append([[]])
        else:
            el = STAR_ELEMS[it[1]]
            if el is None:
                cls = U.B if it[1] == "xb" else U.A
                el = [U.instance(cls, 0)]
            opts = [[]]
            for e in el:
                opts += [[e] * k for k in (1, 2, 3)]
            if len(el) > 1:
                opts += [[el[0], el[1]], [el[1], el[0], el[1]]]
            per.append(opts)
    for combo in itertools.product(*per):
        yield [x for part in combo for x in part]


def stars_stream(ctx, with_model=True):
    import ast
    from pyanalyze import signature as S
    from pyanalyze.stacked_scopes import Composite
    from pyanalyze.value import GenericValue, KnownValue
    rng = ctx.rng
    callees = star_callees()
    ncalls = ctx.n(6, 40)
    cases = []
    fixed = [[("s", "xi"), ("p", ("str", "a")), ("s", "xi")], [("p", ("int", 1)), ("s", "xi"), ("p", ("str", "a")), ("s", "xi")],
             [("s", "xi"), ("p", ("str", "a"))], [("s", "xs"), ("s", "xi")], [("s", "xu"), ("s", "xi")], [("s", "xa"), ("s", "xb")],
             [("s", "xb"), ("s", "xa")], [("s", "xi"), ("t", [("str", "a")]), ("s", "xi")], [("s", "xu"), ("p", ("none",)), ("s", "xi")]]
    for ci, params in enumerate(callees):
        secs = (fixed if ci < 6 else fixed[:3]) + [random_pos_section(rng) for _ in range(ncalls)]
        for items in secs:
            kws = []
            if any(p[1] == "ko" for p in params) and rng.random() < 0.5:
                kws = [("k", ("int", 1))] if rng.random() < 0.7 else [("k", ("str", "a"))]
            cases.append((ci, items, kws))
    src = [PRELUDE.rstrip("\n")]
    for ci, params in enumerate(callees):
        src += ["def g%d(%s) -> int:" % (ci, header_src(params)), "    return 0"]
    src.append(STAR_RUN)
    base = sum(x.count("\n") + 1 for x in src)
    for ci, items, kws in cases:
        parts = pos_section_src(items) + ["%s=%s" % (k, obj_src(o)) for k, o in kws]
        src.append("    g%d(%s)" % (ci, ", ".join(parts)))
    fails, tree, mod = pya.check_source("\n".join(src) + "\n")
    byline = {}
    for f in fails:
        if f["lineno"] is not None and f["lineno"] > base:
            byline.setdefault(f["lineno"] - base - 1, []).append(f)
    # ---- unit: the merged element type ActualArguments.star_args  vs  Lean starMerge
    checker = pya.make_checker()
    unit, lines = [], []
    for ci, items, kws in cases:
        alist, mitems = [], []
        for it in items:
            if it[0] == "p":
                alist.append((Composite(KnownValue(V.obj_to_py(it[1]))), None))
                mitems.append("(p (known %s))" % V.obj_sexp(V.canon_obj(it[1])))
            elif it[0] == "s":
                alist.append((Composite(GenericValue(list, [V.ty_to_value(STAR_VARS[it[1]])])), S.ARGS))
                mitems.append("(s %s)" % V.ty_sexp(STAR_VARS[it[1]]))
            elif it[0] == "t":
                alist.append((Composite(KnownValue(tuple(V.obj_to_py(o) for o in it[1]))), S.ARGS))
                mitems += ["(p (known %s))" % V.obj_sexp(V.canon_obj(o)) for o in it[1]]
            else:
                alist.append((Composite(KnownValue([])), S.ARGS))
        try:
            act = S.preprocess_args(alist, S._CanAssignBasedContext(checker))
            unit.append("ERR" if act is None else ("none" if act.star_args is None else V.ty_sexp(V.value_to_ty(act.star_args))))
        except Exception as e:
            unit.append("EXC:%s" % type(e).__name__)
        lines.append("(starmerge %s)" % " ".join(mitems))
    model = lean.run_driver("C06", lines) if with_model else None
    fns = {}
    for li, (ci, items, kws) in enumerate(cases):
        params = callees[ci]
        text = "g(%s)" % ", ".join(pos_section_src(items) + ["%s=%s" % (k, obj_src(o)) for k, o in kws])
        case = {"def": "def g(%s)" % header_src(params), "call": text, "stream": "stars",
                "stars": {"callee": ci, "items": items, "kws": kws}}
        nstars = sum(1 for it in items if it[0] == "s")
        ctx.count(1, **{"stars_%d" % nstars: 1})
        ctx.nontriv(case["def"] + "|" + text)
        if model is not None:
            ctx.corr("star-merge")
            if unit[li] != model[li]:
                ctx.disagree("star-merge", {"def": case["def"], "call": text}, unit[li], model[li])
        fs = byline.get(li, [])
        codes = [f["code"] for f in fs]
        reported = "incompatible_argument" in codes or "incompatible_call" in codes
        other = [c_ for c_ in codes if c_ not in ("incompatible_argument", "incompatible_call")]
        if other:
            ctx.tag("stars_other_" + other[0])
            continue
        # ---- oracle: some expansion binds an argument outside its declared type
        lf = fns.get(ci) or fns.setdefault(ci, landing_fn(params))
        witness = None
        for pos in star_expansions(items):
            try:
                loc = lf(*pos, **{k: V.obj_to_py(o) for k, o in kws})
            except TypeError:
                continue
            for (n_, k_, d_, a_) in params:
                v = loc[n_]
                objs = list(v) if k_ == "vp" else ([] if v is _D else [v])
                bad = next((o for o in objs if not G.member(o, a_)), None)
                if bad is not None:
                    witness = (pos, n_, bad)
                    break
            if witness:
                break
        ctx.tag("P1_stars")
        if witness is not None and not reported:
            ctx.candidate(dict(case, expansion=repr(witness[0])),
                          "call not diagnosed although in the expansion %r the argument %r binds to %s and is not a member of "
                          "its declared type" % (witness[0], witness[2], witness[1]),
                          cls=None, conforms=(model is None or unit[li] == model[li]), stream="P1-stars")


# ------------------------------------------------------------------ the check
def gen_items(ctx):
    rng = ctx.rng
    items = []
    small = small_cases()
    cap = ctx.n(1500, 12000)
    flat = [(c, call) for c, calls in small for call in calls]
    ctx.extra["exhaustive_part"] = "%d one-parameter callables x calls with <= 2 arguments = %d cases" % (len(small), len(flat))
    if len(flat) > cap:
        keep = set(rng.sample(range(len(flat)), cap))
        ctx.extra["exhaustive_part"] += "; sampled down to %d by the seed" % cap
    else:
        keep = set(range(len(flat)))
    idx = 0
    for c, calls in small:
        sel = []
        for call in calls:
            if idx in keep:
                sel.append(call)
            idx += 1
        if sel:
            items.append((c, sel))
    nsig = ctx.n(700, 11000)
    depth = ctx.n(1, 2)
    for _ in range(nsig):
        c = random_callable(rng, depth if rng.random() < 0.7 else 2)
        items.append((c, [random_call(rng, c) for _ in range(5)]))
    return items


def totuple(x):
    if isinstance(x, list):
        if x and isinstance(x[0], str):
            return tuple(totuple(y) if i else y for i, y in enumerate(x))
        return [totuple(y) for y in x]
    return x


def corpus_items():
    path = os.path.join(lean.HERE, "corpus", "C06.jsonl")
    out = []
    if os.path.exists(path):
        for l in open(path):
            if l.strip():
                out.append(item_from_json(json.loads(l)))
    return out


def item_from_json(d):
    c = d["callable"]
    params = [(p[0], p[1], totuple(p[2]) if p[2] is not None else None, totuple(p[3])) for p in c["params"]]
    cc = {"kind": c["kind"], "params": params, "ret": totuple(c["ret"]),
          "tmpl": None if c.get("tmpl") is None else tuple(totuple(x) if isinstance(x, list) else x for x in c["tmpl"])}
    calls = [([totuple(o) for o in call[0]], [(k, totuple(o)) for k, o in call[1]]) for call in d["calls"]]
    return (cc, calls)


TV_FILLS = [{0: ("any",), 1: ("any",), 2: ("typed", G.INT), 3: t} for t in (("typed", G.INT), ("typed", G.STR))]


def defaults_ok(c):
    """The function itself is well typed as far as its defaults go (pyanalyze reports `incompatible_default` at the def
    otherwise; the result clause speaks about well-typed template functions). For a type-variable-bearing annotation the
    default must fit some admissible instantiation (bound / constraints respected)."""
    for (n, k, d, a) in c["params"]:
        if d is not None and not any(G.member(V.obj_to_py(d), subst_term(a, f)) for f in TV_FILLS):
            return False
    return True


def callable_text(c):
    return "%s(%s) -> %s: %s" % (c["kind"], header_src(c["params"]), ty_src(c["ret"]), body_src(c["tmpl"]))


def evaluate(ctx, items, with_model=True):
    B = 120
    nsample = 0
    for b0 in range(0, len(items), B):
        batch = items[b0:b0 + B]
        impl, mod = run_batch(batch)
        model = None
        if with_model:
            lines = [lean_line(c, call) for c, calls in batch for call in calls]
            out = lean.run_driver("C06", lines)
            model, k = {}, 0
            for i, (c, calls) in enumerate(batch):
                for j in range(len(calls)):
                    model[(i, j)] = out[k]
                    k += 1
        for i, (c, calls) in enumerate(batch):
            lf = landing_fn(c["params"])
            generic = bool(set().union(tvars_of(c["ret"]), *[tvars_of(p[3]) for p in c["params"]]))
            for j, call in enumerate(calls):
                r = impl[(i, j)]
                case = {"def": callable_text(c), "call": "(%s)" % call_src(call),
                        "callable": {"kind": c["kind"], "params": c["params"], "ret": c["ret"], "tmpl": c["tmpl"]},
                        "calls": [call]}
                short = {"def": case["def"], "call": case["call"]}
                binds, land = py_landing(c["params"], lf, call)
                ctx.count(1, **{"kind_" + c["kind"]: 1, "generic" if generic else "nongeneric": 1,
                                "binds_%d" % binds: 1, "nparams_%d" % len(c["params"]): 1})
                if binds and any(landed_objs(land[p[0]]) for p in c["params"]):
                    ctx.nontriv(case["def"] + "|" + case["call"])
                # ---------------- reference verdicts (independent of pyanalyze)
                ref_diag = None
                silent = False
                if binds:
                    bads = []
                    for p in c["params"]:
                        for o in landed_objs(land[p[0]]):
                            try:
                                oo = V.py_to_obj(o)
                            except V.Unencodable:
                                oo = None
                            if not generic:
                                if oo is not None and property_silent(p[3], oo):
                                    silent = True
                                if not G.member(o, p[3]):
                                    bads.append(p[0])
                    if not generic:
                        ref_diag = bool(bads)
                m = None
                conforms = True
                dcls = []
                if model is not None:
                    if model[(i, j)] == "bad-op":
                        ctx.disagree("driver", short, "input", "bad-op")
                        continue
                    m = parse_model(model[(i, j)])
                    dcls = [] if m["D"] == "-" else m["D"].split(",")
                    mv = m["v"]
                    mv_e2e = {"BIND": "CALL", "RESOLVE": "CALL"}.get(mv, mv)
                    if mv.startswith("TVARG:"):
                        mv_e2e = "OK:" + mv[6:]
                    elif mv.startswith("OK:") and mv != "OK:":
                        mv_e2e = "OK:" + ",".join(emitted(mv[3:].split(","), c["params"]))
                    from_set = any(x[0] in ("set", "fset") for o in call[0] + [v for _, v in call[1]] +
                                   [p[2] for p in c["params"] if p[2] is not None] for x in subobjs(o))
                    cu = canon_unions if from_set else (lambda z: z)
                    ctx.tag("model_" + mv.split(":")[0])
                    # ---- correspondence
                    modelled = not unmodelled_call(c, call)
                    if not modelled:
                        ctx.tag("unmodelled_protocol_region")
                    if modelled:
                        ctx.corr("e2e-verdict")
                    if modelled and (r["verdict"] != mv_e2e or r["other"]):
                        conforms = False
                        ctx.disagree("e2e-verdict", short, {"verdict": r["verdict"], "other": r["other"], "msgs": r["msgs"]}, mv)
                    if modelled:
                        ctx.corr("e2e-type")
                    if modelled and cu(r["type"]) != cu(m["ret"]):
                        conforms = False
                        ctx.disagree("e2e-type", short, r["type"], m["ret"])
                    if modelled and generic and r["sol"] is not None and mv == "OK:":
                        ctx.corr("e2e-sol")
                        msol = {}
                        for grp in split_top(m["sol"]):
                            k_, _, v_ = grp[1:-1].partition(" ")
                            msol.setdefault(int(k_), cu(v_))  # first entry wins (TvMap.get)
                        isol = r["sol"] if r["sol"] == "UNENC" else {k: cu(V.ty_sexp(v)) for k, v in r["sol"].items()}
                        if isol == "UNENC" or any(msol.get(k) != v for k, v in isol.items()):
                            conforms = False
                            ctx.disagree("e2e-sol", short, isol, m["sol"])
                    ctx.corr("spec-bind")
                    if (m["bind"] == "1") != binds:
                        ctx.disagree("spec-bind", short, "cpython binds=%s" % binds, "cpyBind=%s" % m["bind"])
                    if binds:
                        ctx.corr("spec-land")
                        try:
                            pl = show_landing(c["params"], land)
                        except V.Unencodable:
                            pl = None
                        if pl is not None and pl != m["land"]:
                            ctx.disagree("spec-land", short, pl, m["land"])
                        if ref_diag is not None and m["sdiag"] != "NA":
                            ctx.corr("spec-diag")
                            if (m["sdiag"] == "1") != ref_diag:
                                ctx.disagree("spec-diag", short, "member-based diag=%s" % ref_diag, "specDiag=%s" % m["sdiag"])
                # ---------------- real execution (result clause)
                executed = None
                if binds and c["tmpl"] is not None and c["kind"] not in ("ctor", "dataclass"):
                    executed = really_call(mod, i, c, call)
                elif binds and c["kind"] in ("ctor", "dataclass"):
                    executed = really_call(mod, i, c, call)
                if m is not None and executed is not None and c["tmpl"] is not None:
                    ctx.corr("spec-res")
                    if executed[0] == "ok":
                        try:
                            rs = V.obj_sexp(V.canon_obj(V.py_to_obj(executed[1])))
                        except V.Unencodable:
                            rs = None
                        holder = land[c["tmpl"][1]] if c["tmpl"][0] in ("param", "elem") else None
                        indexable = holder is None or c["tmpl"][0] == "param" or (
                            holder[0] == "star" or (holder[0] == "one" and type(holder[1]) in (list, tuple)) or
                            (holder[0] == "dflt"))
                        # `p[0]` of a str / dict / ... argument is outside the template's domain (the spec says NA)
                        if rs is not None and rs != m["res"] and (indexable or m["res"] != "NA"):
                            ctx.disagree("spec-res", short, rs, m["res"])
                    elif m["res"] != "NA":
                        ctx.disagree("spec-res", short, "raises %s" % executed[1], m["res"])

                if nsample % 701 == 0:
                    ctx.sample(dict(short, pyanalyze=r["verdict"], inferred=r["type"], model=(m or {}).get("v"),
                                    binds=binds, executed=repr(executed)[:80]))
                nsample += 1
                # ---------------- property search on the implementation
                reported = r["verdict"] != "OK:" or bool(r["other"])
                diagnosed = r["verdict"].startswith("OK:") and r["verdict"] != "OK:"
                if binds and not generic and ref_diag is not None and not silent and r["verdict"] != "CALL" and not r["other"]:
                    ctx.tag("P1")
                    if diagnosed != ref_diag:
                        wants = ["frozensetLiteral", "protoClassObj", "equalLiteralArgs"] if ref_diag else ["variadicTuple"]
                        cls = next((w for w in wants if w in dcls), None)
                        ctx.candidate(case, "call %s although %s" % (
                            "diagnosed (%s)" % r["verdict"] if diagnosed else "not diagnosed",
                            "an argument is not a member of the declared type of its parameter" if ref_diag
                            else "every argument is a member of the declared type of its parameter"),
                            cls=cls, conforms=conforms, stream="P1")
                if binds and r["verdict"] == "CALL" and not generic and not r["other"]:
                    # a call that binds under CPython but is rejected by the binder is C05's business; recorded, not judged here
                    ctx.tag("binds_but_incompatible_call")
                if binds and not reported and executed is not None and executed[0] == "ok" and r["term"] is not None \
                        and defaults_ok(c):
                    ctx.tag("P2")
                    t = r["term"]
                    res = executed[1]
                    ok = isinstance(res, U.A) if (c["kind"] in ("ctor", "dataclass") and t == ("typed", A_ID)) else G.member(res, t)
                    try:
                        ro = V.py_to_obj(res)
                    except V.Unencodable:
                        ro = None
                    if not ok and not (ro is not None and property_silent(t, ro)):
                        cls = next((w for w in ["frozensetLiteral", "protoClassObj", "equalLiteralArgs"] if w in dcls), None)
                        ctx.candidate(dict(case, result=repr(res), inferred=r["type"]),
                                      "the call returns %r, which is not a member of the inferred type %s" % (res, r["type"]),
                                      cls=cls, conforms=conforms, stream="P2")
                if binds and generic and not reported:
                    up = upper_violation(c, land)
                    ctx.tag("P4")
                    if up is not None:
                        ctx.candidate(case, "no error although argument %r of %s is not a member of %s, the declared type with "
                                      "every type variable at its declared bound" % (up[1], up[0], ty_src(up[2])),
                                      cls=next((w for w in ["frozensetLiteral", "protoClassObj", "equalLiteralArgs"] if w in dcls), None),
                                      conforms=conforms, stream="P4")
                if binds and generic and not reported and isinstance(r["sol"], dict):
                    ctx.tag("P3")
                    for p in c["params"]:
                        t = subst_term(p[3], r["sol"])
                        if tvars_of(t):
                            continue
                        for o in landed_objs(land[p[0]]):
                            try:
                                oo = V.py_to_obj(o)
                            except V.Unencodable:
                                continue
                            if property_silent(t, oo):
                                continue
                            if not G.member(o, t):
                                cls = next((w for w in ["frozensetLiteral", "protoClassObj", "equalLiteralArgs"] if w in dcls), None)
                                ctx.candidate(dict(case, solution={TVNAMES[k]: V.ty_sexp(v) for k, v in r["sol"].items()}),
                                              "no error although argument %r of %s is not a member of %s under the inferred solution"
                                              % (o, p[0], ty_src(t)), cls=cls, conforms=conforms, stream="P3")
                                break


def annotation_context_sites(repo=None):
    """From the live source of pyanalyze/arg_spec.py: every construction of an AnnotationsContext (which globals it gets)
    and every `type_from_runtime(...)` call (which context it is given; a local variable is resolved to everything assigned
    to it in the enclosing function). A parameter / return annotation converted with a context that has no globals loses
    every forward reference it contains."""
    import ast
    repo = repo or os.environ.get("VERIF_REPO", "/repo")
    src = open(os.path.join(repo, "pyanalyze", "arg_spec.py")).read()
    tree = ast.parse(src)
    ctors, calls = [], []

    def classify(e, fn):
        if e is None:
            return ["none"]
        if isinstance(e, ast.Call) and isinstance(e.func, ast.Name) and e.func.id == "AnnotationsContext":
            extra = [ast.unparse(a) for a in e.args[1:]] + ["%s=%s" % (k.arg, ast.unparse(k.value)) for k in e.keywords]
            return ["globals:" + ",".join(extra)] if extra else ["noglobals"]
        if isinstance(e, ast.Attribute) and ast.unparse(e) == "self.default_context":
            return ["default"]
        if isinstance(e, ast.Name):
            out = []
            for n in ast.walk(fn):
                if isinstance(n, ast.Assign) and any(isinstance(t, ast.Name) and t.id == e.id for t in n.targets):
                    out += classify(n.value, fn)
            return sorted(set(out)) or ["param:" + e.id]
        return ["other:" + ast.unparse(e)]

    def visit(node, qual):
        for ch in ast.iter_child_nodes(node):
            if isinstance(ch, (ast.FunctionDef, ast.AsyncFunctionDef, ast.ClassDef)):
                q = (qual + "." if qual else "") + ch.name
                if not isinstance(ch, ast.ClassDef):
                    for n in ast.walk(ch):
                        if isinstance(n, ast.Call) and isinstance(n.func, ast.Name):
                            if n.func.id == "AnnotationsContext":
                                ctors.append((q, "|".join(classify(n, ch))))
                            elif n.func.id == "type_from_runtime":
                                ctxe = next((k.value for k in n.keywords if k.arg == "ctx"), None)
                                if ctxe is None and len(n.args) > 2:
                                    ctxe = n.args[2]
                                calls.append((q, "|".join(classify(ctxe, ch))))
                visit(ch, q)

    visit(tree, "")
    return sorted(set(ctors)), sorted(set(calls))


def annot_ctx_lean(ctors, calls):
    def lst(xs):
        return "[" + ",\n    ".join('("%s", "%s")' % x for x in xs) + "]"
    return """/-! GENERATED by harness/props/c06.py (annotation_context_sites) from the live pyanalyze/arg_spec.py on every run.
Do not edit. `liveAnnotCtxCtors`: (function, globals given to `AnnotationsContext(...)`);
`liveTypeFromRuntime`: (function, context given to `type_from_runtime(...)`; several sources are joined by `|`). -/
namespace Pya.C06

def liveAnnotCtxCtors : List (String × String) :=
  %s

def liveTypeFromRuntime : List (String × String) :=
  %s

end Pya.C06
""" % (lst(ctors), lst(calls))


def translate(ctx):
    tb, changed = V.regenerate_class_table()
    ctx.extra["class_table_regenerated"] = {"changed_on_disk": changed, "classes": len(tb["names"])}
    ctors, calls = annotation_context_sites()
    ch2 = lean.write_if_changed(os.path.join(lean.LEAN, "PyaModel", "Generated", "AnnotCtx.lean"), annot_ctx_lean(ctors, calls))
    ctx.extra["annotation_context_sites"] = {"changed_on_disk": ch2, "constructors": ctors, "type_from_runtime": calls}


def spelling_items(ctx, items):
    """The base cases of the spelling stream: the hand-picked ones, then plain callables drawn from the generated items."""
    plain = [(c, calls) for c, calls in items if c["kind"] == "plain" and c["params"]]
    k = min(len(plain), ctx.n(20, 220))
    return spell_base() + (ctx.rng.sample(plain, k) if k else [])


def run(ctx):
    items = corpus_items() + gen_items(ctx)
    evaluate(ctx, items)
    spelling_stream(ctx, spelling_items(ctx, items))
    stars_stream(ctx)


def run_impl_only(ctx):
    items = corpus_items() + gen_items(ctx)
    evaluate(ctx, items, with_model=False)
    spelling_stream(ctx, spelling_items(ctx, items), with_model=False)
    stars_stream(ctx, with_model=False)


def replay(ctx, data):
    if data["case"].get("stream") == "stars":
        stars_stream(ctx)
        print(json.dumps({"candidates": ctx.candidates[:5], "broken": ctx.broken[:5]}, indent=1, default=str))
        return 1 if (ctx.candidates or ctx.broken) else 0
    item = item_from_json(data["case"])
    evaluate(ctx, [item])
    if item[0]["kind"] == "plain":
        spelling_stream(ctx, [item])
    print(json.dumps({"case": {k: data["case"].get(k) for k in ("def", "call")}, "candidates": ctx.candidates,
                      "broken": ctx.broken}, indent=1, default=str))
    return 1 if (ctx.candidates or ctx.broken) else 0
