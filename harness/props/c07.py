"""C07 — callable compatibility is behaviourally sound.

Streams
  unit    : Signature.can_assign(sig_exp, sig_act) on Signatures of real function objects      == model acc
  entry   : CallableValue(sig_exp).can_assign(KnownValue(g)), KnownValue(f).can_assign(KnownValue(g)),
            UnboundMethodValue(m of a class).can_assign(KnownValue(g))                           == model acc
  hier, mro: class hierarchies through the override route (harness/props/c07_hier.py)
  obtain, effective: the actual callable obtained as bound method / via the class / staticmethod / classmethod /
            __call__ instance / constructor / property / nested def / lambda, own or inherited, offered in five
            expected forms (harness/props/c07_obtain.py)
  proto   : `x: P = g` with a Protocol `__call__` checked by pyanalyze (incompatible_assignment)  == model acc
  override: a method overriding a base-class method (incompatible_override)                      == model acc
  overload: OverloadedSignature on either side                                                   == model ovCanAssign
  spec    : Lean `cpyBind`-based counterexample search == the same search done with real calls (behavioural and typed)
  tables  : Generated/SigTypes.lean regenerated from the live tree (translate), obligations by `decide`
  routes  : Generated/SigRoutes.lean = AST scan of the live tree for every call site through which two signatures
            reach Signature.can_assign; obligation `routes_pinned` (a new or removed route is noticed)
Property search (oracle = CPython, real calls with sentinel arguments that report where they landed):
  for every pair accepted by any route, every call shape with <=3 positionals and <=3 keywords over the
  parameter names of both headers plus a foreign name: exp binds and act raises TypeError => candidate;
  both bind and an argument lands on a parameter whose annotation is not a supertype (isinstance +
  int->float promotion on representative objects) => candidate; return annotation not covariant => candidate.
"""
import itertools, json, os, re

from harness.common import lean, pya
from harness.props import c05

PROP = "C07"
NAMESPACE = "Pya.C07"
LEAN_PROP = "PyaModel.Props.C07"
LEAN_TARGETS = ["PyaModel.Spec.SigAssignSpec", "PyaModel.Spec.OverrideSpec", "PyaModel.Generated.SigTypes",
                "PyaModel.Generated.SigRoutes", "PyaModel.Generated.AttrUnwrap", "PyaModel.Core.Obtain"]
ANCHORS = [
    ("pyanalyze/signature.py", "Signature.can_assign"),
    ("pyanalyze/signature.py", "OverloadedSignature.can_assign"),
    ("pyanalyze/signature.py", "can_assign_var_positional"),
    ("pyanalyze/signature.py", "can_assign_var_keyword"),
    ("pyanalyze/value.py", "CallableValue.can_assign"),
    ("pyanalyze/value.py", "KnownValue.can_assign"),
    ("pyanalyze/name_check_visitor.py", "NameCheckVisitor._can_assign_to_base_callable"),
    ("pyanalyze/name_check_visitor.py", "NameCheckVisitor._check_for_incompatible_overrides"),
    ("pyanalyze/name_check_visitor.py", "NameCheckVisitor._get_base_class_attributes"),
    ("pyanalyze/name_check_visitor.py", "NameCheckVisitor._can_assign_to_base"),
    ("pyanalyze/name_check_visitor.py", "NameCheckVisitor._can_assign_to_base_property"),
    ("pyanalyze/signature.py", "Signature.bind_self"),
    ("pyanalyze/attributes.py", "_unwrap_value_from_typed"),
    ("pyanalyze/attributes.py", "_get_attribute_from_mro"),
]
RULE = (
    "pairs (expected, actual) of def headers: exhaustive over all headers with <= N parameters (all kind sequences "
    "po* pk* [vp] ko* [vk], all legal default patterns; N=2 quick, 3 thorough) x all ways of sharing parameter names "
    "between the two headers, the corpus (witnesses of every exception class) and seeded small edits of the corpus "
    "pairs (tag / default / kind / name / parameter dropped or inserted), then seeded random pairs of up to 5 parameters, then typed pairs (each parameter and "
    "the return annotated with one of none/object/int/bool/float/str, biased towards shape-compatible pairs); a pair "
    "is non-trivial when both headers have a parameter; distinct = distinct pair text. Only pairs the implementation "
    "accepts enter the property search; unannotated parameters are gradual and never count as a type mismatch. "
    "Override route: class hierarchies of 2-5 classes (single base, chains with and without a gap, sibling bases, "
    "three bases, diamonds, random DAGs; both orders of the bases), 1-2 attributes, each bound as method / "
    "staticmethod / property in a random subset of the classes, headers drawn from the signature generator with the "
    "override drawn near one of the ancestors' headers; EVERY class of the hierarchy that binds the attribute is a "
    "case, judged against EVERY ancestor in its real __mro__ that binds it. Obtain stream: for seeded pairs "
    "(expected, def header) the actual callable is obtained in 27 ways (module def, nested def, lambda, bound method, "
    "function through the class, staticmethod / classmethod through instance and class, __call__ instance, "
    "constructor, property returning a function; defined on the class or inherited 1-2 levels) and offered in up to "
    "five expected forms (CallableValue, Literal[function], Protocol __call__, Callable[[..], R] parameter, protocol "
    "method); the really obtained object is called with every call shape the expected header binds"
)
ASSUMPTIONS = [
    "both sides are def-shaped Signatures (no ParamSpec / Callable[..., T] ellipsis, no *args: *tuple[...] / **kwargs: Unpack[TD], no asynq)",
    "annotations range over the tag universe {none, object, int, bool, float, str}; the seven annotation-level questions the kernel asks are tabulated from the live tree on every run (Generated/SigTypes.lean)",
    "call shapes are enumerated up to 3 positionals and 3 keywords over the parameter names of both headers plus one foreign name (the Lean theorem has no such bound)",
    "membership for the typed part: isinstance plus int->float promotion on one representative object per class",
    "override route: methods, staticmethods and properties (getter type, setter present); classmethods are not compared by pyanalyze at all (a classmethod object is not callable) and are left out, as are a property overriding a function or vice versa, deleters, and overloaded methods",
    "obtain stream: functools.partial objects and other callables whose declared signature is typeshed's (*args: Any, **kwargs: Any) are left out; a Protocol with __call__ is not offered a bound method or a function read through the class (pyanalyze always rejects those: incomplete, not unsound); lambdas and constructors only where the expected return is unannotated",
    "route coverage is an AST scan with a receiver-name heuristic (receiver text ends in sig/signature/_bound, CallableValue(...), self inside the two can_assign methods); a route reached through a differently named local would not be listed",
]
TRUSTED = [
    "Spec/CpyBind.lean (cpyBind) and Spec/SigAssignSpec.lean (slotTy/kwTy) are validated against real calls on every run (stream spec)",
]

TAGS = ["any", "object", "int", "bool", "float", "str"]
KINDS = c05.KINDS


# ---------------------------------------------------------------- text forms
def tsrc(ps, ret="any"):
    """`def` header text (without name) of a typed parameter tuple ((name, kind, dflt, tag), ...)."""
    parts, seen_star = [], False
    npo = sum(1 for p in ps if p[1] == "po")
    for i, (n, k, d, t) in enumerate(ps):
        a = "" if t == "any" else ": " + t
        if k == "ko" and not seen_star:
            parts.append("*")
            seen_star = True
        if k == "vp":
            parts.append("*" + n + a)
            seen_star = True
        elif k == "vk":
            parts.append("**" + n + a)
        else:
            parts.append(n + a + ((" = None" if a else "=None") if d else ""))
        if k == "po" and i == npo - 1:
            parts.append("/")
    return "(%s)%s" % (", ".join(parts), "" if ret == "any" else " -> " + ret)


def lean_sig(ps, ret):
    return " ".join("%s:%s:%d:%s" % p for p in ps) + " -> " + ret


def lean_line(E, A, force=False):
    return ("Q " if force else "P ") + lean_sig(*E) + " | " + lean_sig(*A)


_FNS = {}


def fn_of(sig):
    """Real function object for a typed header; returns locals() so that a call reports where every
    argument landed."""
    f = _FNS.get(sig)
    if f is None:
        ns = {}
        exec("def f%s: return locals()" % tsrc(*sig), ns)
        f = _FNS[sig] = ns["f"]
    return f


# ---------------------------------------------------------------- generators
def typed(ps, tags=None, names=None):
    return tuple((names[i] if names else n, k, d, tags[i] if tags else "any") for i, (n, k, d) in enumerate(ps))


def namings(e_names, n_act):
    """All ways of naming n_act parameters with names of the expected header (injectively) or fresh names
    (fresh names are interchangeable: they are used in increasing order)."""
    fresh = [x for x in "pqrstuvw" if x not in e_names]
    out = []

    def rec(i, cur, nf):
        if i == n_act:
            out.append(tuple(cur))
            return
        for n in e_names:
            if n not in cur:
                rec(i + 1, cur + [n], nf)
        rec(i + 1, cur + [fresh[nf]], nf + 1)

    rec(0, [], 0)
    return out


def random_pair(rng, sigs_small, maxn=5):
    def one():
        return rng.choice(sigs_small) if rng.random() < 0.5 else c05.random_sig(rng, maxn)
    E, A = one(), one()
    if rng.random() < 0.35:
        # mutate the expected header into the actual one: compatible pairs are rare among independent draws
        A = mutate(rng, E)
    pool = "abcdefgh"[: max(len(E), len(A)) + 1]
    en = rng.sample(pool, len(E)) if rng.random() < 0.5 else list(pool[: len(E)])
    an = rng.sample(pool, len(A)) if rng.random() < 0.6 else list(pool[: len(A)])
    return typed(E, names=en), typed(A, names=an)


def mutate(rng, E):
    """A header near E: kinds widened, defaults added, parameters appended / replaced by *args, **kw."""
    ps = [list(p) for p in E]
    for p in ps:
        r = rng.random()
        if p[1] == "po" and r < 0.3:
            p[1] = "pk"
        elif p[1] == "ko" and r < 0.2:
            p[1] = "pk"
        if p[1] in ("po", "pk", "ko") and rng.random() < 0.3:
            p[2] = 1
    if rng.random() < 0.4:
        ps.append(["x", rng.choice(["pk", "ko", "vp", "vk"]), int(rng.random() < 0.7)])
    if rng.random() < 0.3:
        ps.append(["y", rng.choice(["pk", "ko", "vp", "vk"]), int(rng.random() < 0.7)])
    if rng.random() < 0.3 and ps:
        ps.pop(rng.randrange(len(ps)))
    # re-sort into def order, fix defaults and multiplicities
    order = {k: i for i, k in enumerate(KINDS)}
    ps.sort(key=lambda p: order[p[1]])
    out, seen_d, have = [], False, set()
    for n, k, d in ps:
        if k in ("vp", "vk"):
            if k in have:
                continue
            have.add(k)
            d = 0
        if k in ("po", "pk"):
            seen_d = seen_d or bool(d)
            d = int(seen_d)
        out.append((n, k, d))
    return tuple(out)


def gen_pairs(ctx):
    """Returns list of (E, A) with E, A = (typed params, ret)."""
    pairs = []
    maxn = 3 if ctx.big() else 2   # structural switch: follows the tier only
    sigs = c05.all_sigs(maxn)
    n_exh = 0
    for E in sigs:
        en = [p[0] for p in E]
        for A in sigs:
            for an in namings(en, len(A)):
                pairs.append(((typed(E), "any"), (typed(A, names=an), "any")))
                n_exh += 1
    ctx.extra["exhaustive_part"] = "all %d def headers with <= %d parameters, squared, x all name sharings = %d pairs" % (
        len(sigs), maxn, n_exh)
    cap = ctx.n(14000, 450000)
    if len(pairs) > cap:
        ctx.rng.shuffle(pairs)
        pairs = pairs[:cap]
        ctx.extra["exhaustive_part"] += "; sampled down to %d by the seed" % cap
    sigs3 = c05.all_sigs(3)
    for _ in range(ctx.n(14000, 250000)):
        E, A = random_pair(ctx.rng, sigs3)
        pairs.append(((E, "any"), (A, "any")))
    pools = [TAGS, ["int", "bool", "object"], ["int", "float", "any"], ["int"], ["int", "bool", "float"], ["str", "int"]]
    n_typed = ctx.n(12000, 200000)
    k = 0
    guard = 0
    while k < n_typed and guard < 50 * n_typed:
        guard += 1
        E, A = random_pair(ctx.rng, sigs3, 4)
        if not ref_accept(E, A) and ctx.rng.random() < 0.85:
            continue
        pool = ctx.rng.choice(pools)
        E = tuple(p[:3] + (ctx.rng.choice(pool),) for p in E)
        A = tuple(p[:3] + (ctx.rng.choice(pool),) for p in A)
        if ctx.rng.random() < 0.4:
            # align annotations of parameters that will be compared, then perturb one
            byname = {p[0]: p[3] for p in E}
            A = tuple(p[:3] + (byname.get(p[0], p[3]),) for p in A)
        er, ar = ctx.rng.choice(pool), ctx.rng.choice(pool)
        if ctx.rng.random() < 0.5:
            ar = er
        pairs.append(((E, er), (A, ar)))
        k += 1
    return pairs


def valid(ps):
    """A well-formed def header: kinds in def order, at most one *args / **kw, positional defaults form a
    suffix, names distinct, *args / **kw without default."""
    order = [KINDS.index(p[1]) for p in ps]
    if order != sorted(order) or order.count(2) > 1 or order.count(4) > 1:
        return False
    if len({p[0] for p in ps}) != len(ps):
        return False
    seen = False
    for n, k, d, t in ps:
        if k in ("vp", "vk") and d:
            return False
        if k in ("po", "pk"):
            if seen and not d:
                return False
            seen = seen or bool(d)
    return True


def perturb(rng, E, A):
    """One small edit of a pair: change a tag / default / kind / name, drop or duplicate-with-new-name a
    parameter, change a return tag. Returns None when the result is not a def header."""
    (ep, er), (ap, ar) = E, A
    side = rng.random() < 0.5
    ps = [list(p) for p in (ep if side else ap)]
    op = rng.randrange(7)
    names = sorted({p[0] for p in ep + ap} | {"q"})
    if op == 6 or not ps:
        if side:
            er = rng.choice(TAGS)
        else:
            ar = rng.choice(TAGS)
    else:
        i = rng.randrange(len(ps))
        if op == 0:
            ps[i][3] = rng.choice(TAGS)
        elif op == 1:
            ps[i][2] = 1 - ps[i][2]
        elif op == 2:
            ps[i][1] = rng.choice(KINDS)
            ps.sort(key=lambda p: KINDS.index(p[1]))
        elif op == 3:
            ps[i][0] = rng.choice(names)
        elif op == 4:
            ps.pop(i)
        elif op == 5:
            ps.insert(i, [rng.choice(names), ps[i][1], ps[i][2], rng.choice(TAGS)])
    ps = tuple(tuple(p) for p in ps)
    if not valid(ps):
        return None
    return ((ps, er), A[0:1] + (ar,)) if side else (E[0:1] + (er,), (ps, ar))


def neighbourhood(ctx, seeds, n):
    out = []
    guard = 0
    while len(out) < n and seeds and guard < 20 * n:
        guard += 1
        E, A = ctx.rng.choice(seeds)
        for _ in range(ctx.rng.choice([1, 1, 2, 3])):
            nxt = perturb(ctx.rng, E, A)
            if nxt is not None:
                E, A = nxt
        out.append((E, A))
    return out


def ref_accept(E, A):
    """Untyped reference reading of Signature.can_assign, used ONLY to bias the typed generator towards
    shape-compatible pairs (never as an oracle)."""
    avp = any(p[1] == "vp" for p in A)
    avk = any(p[1] == "vk" for p in A)
    cp, ckw = set(), set()
    for i, p in enumerate(E):
        n, k, d = p[:3]
        if k == "po":
            if i < len(A) and A[i][1] in ("po", "pk"):
                if d and not A[i][2]:
                    return False
                cp.add(A[i][0])
            elif not avp:
                return False
        elif k == "pk":
            if i < len(A) and A[i][1] == "pk":
                if n != A[i][0] or (d and not A[i][2]):
                    return False
                cp.add(n)
                ckw.add(n)
            elif i < len(A) and A[i][1] == "po":
                return False
            elif not (avp and avk):
                return False
        elif k == "ko":
            t = [q for q in A if q[0] == n]
            if t and t[0][1] in ("pk", "ko"):
                if d and not t[0][2]:
                    return False
                ckw.add(n)
            elif not avk:
                return False
        elif k == "vp" and not avp:
            return False
        elif k == "vk" and not avk:
            return False
    for q in A:
        n, k, d = q[:3]
        if k in ("vp", "vk") or d:
            continue
        if k == "po" and n not in cp:
            return False
        if k == "pk" and n not in cp and n not in ckw:
            return False
        if k == "ko" and n not in ckw:
            return False
    return True


def corpus_pairs():
    path = os.path.join(lean.HERE, "corpus", "C07.jsonl")
    out = []
    if os.path.exists(path):
        for l in open(path):
            l = l.strip()
            if l:
                d = json.loads(l)
                if "exp" not in d:      # a class hierarchy (c07_hier.py) or an obtain group (c07_obtain.py)
                    continue
                out.append(((tuple(tuple(p) for p in d["exp"]), d.get("exp_ret", "any")),
                            (tuple(tuple(p) for p in d["act"]), d.get("act_ret", "any"))))
    return out


# ---------------------------------------------------------------- oracle (CPython)
_OBJ = {"int": 1, "bool": True, "float": 1.5, "str": "s", "object": object()}


def member(o, t):
    if t in ("any", "object"):
        return True
    if t == "float":
        return isinstance(o, (int, float))
    return isinstance(o, {"int": int, "bool": bool, "str": str}[t])


def incl(S, T):
    """Every representative member of S is a member of T; unannotated is gradual."""
    if S == "any" or T == "any":
        return True
    return all(member(o, T) for o in _OBJ.values() if member(o, S))


def landing(sig, npos, kws):
    """Really call the function with sentinel arguments; None = TypeError at bind time, else
    {argument key: annotation tag of the parameter that received it}."""
    f = fn_of(sig)
    pos = [("p", i) for i in range(npos)]
    kw = {k: ("k", k) for k in kws}
    try:
        loc = f(*pos, **kw)
    except TypeError:
        return None
    out = {}
    for (n, k, d, t) in sig[0]:
        v = loc[n]
        if k == "vp":
            for x in v:
                out[x] = t
        elif k == "vk":
            for x in v.values():
                out[x] = t
        elif isinstance(v, tuple):
            out[v] = t
    return out


def call_shapes(E, A):
    names = []
    for p in E[0] + A[0]:
        if p[0] not in names:
            names.append(p[0])
    names.append("z")
    out = []
    for npos in range(4):
        for r in range(4):
            for ks in itertools.combinations(names, r):
                out.append((npos, ks))
    return out


def oracle(E, A):
    """(behavioural counterexample or None, typed counterexample or None)."""
    beh = typ = None
    for npos, ks in call_shapes(E, A):
        le = landing(E, npos, ks)
        if le is None:
            continue
        la = landing(A, npos, ks)
        if la is None:
            if beh is None:
                beh = (npos, ks)
            continue
        if typ is None:
            for key, S in le.items():
                if not incl(S, la[key]):
                    typ = (npos, ks, key, S, la[key])
                    break
        if beh is not None and typ is not None:
            break
    return beh, typ


def call_txt(npos, ks):
    return "f(%s)" % ", ".join(["1"] * npos + ["%s=1" % k for k in ks])


# ---------------------------------------------------------------- implementation streams
def unit_and_entry(pairs, checker, with_entry):
    from pyanalyze.stacked_scopes import Composite
    from pyanalyze.value import CallableValue, CanAssignError, KnownValue, TypedValue, UnboundMethodValue

    unit, e1, e2, e3 = [], [], [], []
    get = checker.arg_spec_cache.get_argspec
    holders = {}

    def unbound(E):
        """UnboundMethodValue for a method `m(self, <E>)` of a fresh class (route value.py UnboundMethodValue.can_assign)."""
        um = holders.get(E)
        if um is None:
            ns = {}
            exec("class K:\n    def m%s: return locals()" % with_self(E), ns)
            um = holders[E] = UnboundMethodValue("m", Composite(TypedValue(ns["K"])))
        return um

    def verdict(thunk):
        try:
            return "0" if isinstance(thunk(), CanAssignError) else "1"
        except Exception as e:  # totality (C12) is part of the correspondence
            return "EXC:%s" % type(e).__name__

    for i, (E, A) in enumerate(pairs):
        f, g = fn_of(E), fn_of(A)
        se, sa = get(f), get(g)
        unit.append(verdict(lambda: se.can_assign(sa, checker)))
        if with_entry(i):
            e1.append(verdict(lambda: CallableValue(se).can_assign(KnownValue(g), checker)))
            e2.append(verdict(lambda: KnownValue(f).can_assign(KnownValue(g), checker)))
        else:
            e1.append(None)
            e2.append(None)
        e3.append(verdict(lambda: unbound(E).can_assign(KnownValue(g), checker)) if i % 5 == 0 else None)
    return unit, e1, e2, e3


def with_self(sig):
    s = tsrc(*sig)
    inner = s[1:s.rindex(")")]
    return "(self%s)%s" % ((", " + inner) if inner else "", s[s.rindex(")") + 1:])


def e2e_routes(pairs):
    """Protocol-__call__ assignment and method override, checked end to end. Returns (proto, override) verdicts."""
    proto, ovr = [], []
    B = 250
    for b0 in range(0, len(pairs), B):
        batch = pairs[b0:b0 + B]
        src = ["from typing import Protocol"]
        cdef = {}
        for i, (E, A) in enumerate(batch):
            src.append("class P%d(Protocol):" % i)
            src.append("    def __call__%s: ..." % with_self(E))
            src.append("def g%d%s: ..." % (i, tsrc(*A)))
            src.append("class B%d:" % i)
            src.append("    def m%s: ..." % with_self(E))
            src.append("class C%d(B%d):" % (i, i))
            src.append("    def m%s: ..." % with_self(A))
            cdef[len(src)] = i
        src.append("def run() -> None:")
        base = len(src)
        for i in range(len(batch)):
            src.append("    x%d: P%d = g%d" % (i, i, i))
        fails, _, _ = pya.check_source("\n".join(src) + "\n")
        bad_p, bad_o = set(), set()
        for f in fails:
            ln = f["lineno"]
            if ln is None:
                continue
            if f["code"] == "incompatible_assignment" and ln > base:
                bad_p.add(ln - base - 1)
            elif f["code"] == "incompatible_override" and ln in cdef:
                bad_o.add(cdef[ln])
        proto += ["0" if i in bad_p else "1" for i in range(len(batch))]
        ovr += ["0" if i in bad_o else "1" for i in range(len(batch))]
    return proto, ovr


def overload_stream(ctx, checker, sigs3, with_model):
    from pyanalyze.signature import OverloadedSignature
    from pyanalyze.value import CanAssignError

    cases = []
    for _ in range(ctx.n(1500, 20000)):
        base = random_pair(ctx.rng, sigs3, 3)
        es = [(base[0], "any")]
        as_ = [(base[1], "any")]
        for side in (es, as_):
            for _ in range(ctx.rng.choice([0, 1, 1, 2])):
                side.append((mutate_named(ctx.rng, side[0][0]), "any"))
        if len(es) == 1 and len(as_) == 1:
            as_.append((mutate_named(ctx.rng, es[0][0]), "any"))
        cases.append((es, as_))
    get = checker.arg_spec_cache.get_argspec
    impl = []
    for es, as_ in cases:
        se = [get(fn_of(s)) for s in es]
        sa = [get(fn_of(s)) for s in as_]
        oe = se[0] if len(se) == 1 else OverloadedSignature(se)
        oa = sa[0] if len(sa) == 1 else OverloadedSignature(sa)
        try:
            impl.append("0" if isinstance(oe.can_assign(oa, checker), CanAssignError) else "1")
        except Exception as e:
            impl.append("EXC:%s" % type(e).__name__)
    if with_model:
        lines = ["O " + " ; ".join(lean_sig(*s) for s in es) + " | " + " ; ".join(lean_sig(*s) for s in as_)
                 for es, as_ in cases]
        model = lean.run_driver("C07", lines)
        for (es, as_), iv, mv in zip(cases, impl, model):
            ctx.count(1, overload=1)
            ctx.corr("overload")
            if "acc=" + iv != mv:
                ctx.disagree("overload", {"exp": ["def f" + tsrc(*s) for s in es], "act": ["def g" + tsrc(*s) for s in as_]},
                             iv, mv)
    return cases, impl


def mutate_named(rng, ps):
    """mutate() on a named, typed header keeping names distinct."""
    m = mutate(rng, tuple(p[:3] for p in ps))
    seen, out = set(), []
    for n, k, d in m:
        while n in seen:
            n = n + "_"
        seen.add(n)
        out.append((n, k, d, "any"))
    return tuple(out)


# ---------------------------------------------------------------- translator: annotation tables
def live_tables(checker):
    from pyanalyze.signature import can_assign_var_keyword, can_assign_var_positional
    from pyanalyze.value import CanAssignError

    get = checker.arg_spec_cache.get_argspec

    def par(kind, t):
        ps = ((("a", kind, 0, t),), "any")
        return list(get(fn_of(ps)).parameters.values())[0]

    def ok(x):
        return not isinstance(x, CanAssignError)

    def tab(f):
        return [[bool(f(T, S)) for S in TAGS] for T in TAGS]

    pk = {t: par("pk", t) for t in TAGS}
    vp = {t: par("vp", t) for t in TAGS}
    vk = {t: par("vk", t) for t in TAGS}
    return {
        "asg": tab(lambda T, S: ok(pk[T].annotation.can_assign(pk[S].annotation, checker))),
        "vpvp": tab(lambda T, S: ok(vp[T].annotation.can_assign(vp[S].annotation, checker))),
        "vkvk": tab(lambda T, S: ok(vk[T].annotation.can_assign(vk[S].annotation, checker))),
        "xvp": tab(lambda T, S: ok(pk[T].annotation.can_assign(vp[S].annotation, checker))),
        "xvk": tab(lambda T, S: ok(pk[T].annotation.can_assign(vk[S].annotation, checker))),
        "evp": tab(lambda T, S: ok(can_assign_var_positional(pk[S], vp[T].annotation, 0, checker))),
        "evk": tab(lambda T, S: ok(can_assign_var_keyword(pk[S], vk[T].annotation, checker))),
    }


# ---------------------------------------------------------------- translator: routes into the kernel
ROUTE_CALLEES = {"_check_for_incompatible_overrides", "_get_base_class_attributes", "_can_assign_to_base",
                 "_can_assign_to_base_callable", "_can_assign_to_base_property", "_signatures_overlap",
                 "can_assign_var_positional", "can_assign_var_keyword", "can_assign_through_check_call"}
_SIG_RECV = re.compile(r"(sig|signature|_bound)\w*$")


def live_routes(repo):
    """Every call site, in the non-test modules of the live tree, through which two signatures reach
    Signature.can_assign: calls of the named route functions, and `.can_assign(...)` calls whose receiver is a
    signature (receiver text ends in *sig*/*signature*/*_bound, is a `CallableValue(...)` construction, is `self`
    inside Signature/OverloadedSignature.can_assign, or any receiver inside _signatures_overlap).
    Returns a sorted list of (file, enclosing function, callee)."""
    import ast
    out = []
    d = os.path.join(repo, "pyanalyze")
    for fn in sorted(os.listdir(d)):
        if not fn.endswith(".py") or fn.startswith("test_"):
            continue
        tree = ast.parse(open(os.path.join(d, fn)).read())

        def walk(node, qual):
            for ch in ast.iter_child_nodes(node):
                q = qual
                if isinstance(ch, (ast.FunctionDef, ast.AsyncFunctionDef, ast.ClassDef)):
                    q = (qual + "." if qual else "") + ch.name
                if isinstance(ch, ast.Call):
                    f = ch.func
                    if isinstance(f, ast.Attribute):
                        recv = ast.unparse(f.value)
                        if f.attr == "can_assign" and (
                                _SIG_RECV.search(recv) or recv.startswith("CallableValue(")
                                or qual == "_signatures_overlap"
                                or (recv == "self" and qual in ("Signature.can_assign", "OverloadedSignature.can_assign"))):
                            out.append((fn, qual, "can_assign"))
                        elif f.attr in ROUTE_CALLEES:
                            out.append((fn, qual, f.attr))
                        elif f.attr == "check_call_preprocessed" and qual == "CallableValue.can_assign":
                            out.append((fn, qual, f.attr))
                    elif isinstance(f, ast.Name) and f.id in ROUTE_CALLEES:
                        out.append((fn, qual, f.id))
                walk(ch, q)

        walk(tree, "")
    return sorted(out)


UNWRAP_FUNCS = ["_unwrap_value_from_typed", "_get_attribute_from_mro"]


def live_unwrap_branches(repo):
    """The decisions attributes.py takes when it turns a class attribute into the value of `inst.attr` / `Cls.attr`:
    for _unwrap_value_from_typed every if/elif test, for both functions every lookup primitive (getattr,
    inspect.getattr_static, type.mro, .__dict__, .__get__) and every except clause, in source order."""
    import ast
    tree = ast.parse(open(os.path.join(repo, "pyanalyze", "attributes.py")).read())
    out = []
    for fn in tree.body:
        if not (isinstance(fn, ast.FunctionDef) and fn.name in UNWRAP_FUNCS):
            continue
        items = []
        for node in ast.walk(fn):
            if isinstance(node, ast.If) and fn.name == "_unwrap_value_from_typed":
                items.append((node.lineno, node.col_offset, "if", ast.unparse(node.test)))
            elif isinstance(node, ast.ExceptHandler):
                items.append((node.lineno, node.col_offset, "except", ast.unparse(node.type) if node.type else "bare"))
            elif isinstance(node, ast.Call) and ast.unparse(node.func) in ("inspect.getattr_static", "getattr", "type.mro"):
                items.append((node.lineno, node.col_offset, "lookup", ast.unparse(node)))
            elif isinstance(node, ast.Subscript) and ast.unparse(node.value).endswith(("__dict__", "_dict")):
                items.append((node.lineno, node.col_offset, "lookup", ast.unparse(node)))
            elif isinstance(node, ast.Attribute) and node.attr in ("__dict__", "__get__"):
                items.append((node.lineno, node.col_offset, "lookup", ast.unparse(node)))
        for _, _, kind, text in sorted(items):
            out.append((fn.name, kind, " ".join(text.split())))
    return out


def translate(ctx):
    translate_routes(ctx)
    br = live_unwrap_branches(pya.REPO)
    esc = lambda t: t.replace("\\", "\\\\").replace('"', '\\"')
    out = ["/-! GENERATED by harness/props/c07.py (translate) from the live /repo tree on every run. Do not edit.",
           "Decisions of attributes.py when a class attribute becomes the value of `inst.attr` / `Cls.attr`",
           "(function, kind, source text), in source order. -/",
           "namespace Pya.C07", "",
           "def liveUnwrapBranches : List (String × String × String) :=\n  [" +
           ",\n   ".join('("%s", "%s", "%s")' % (a, b, esc(c)) for a, b, c in br) + "]", "", "end Pya.C07", ""]
    lean.write_if_changed(os.path.join(lean.LEAN, "PyaModel", "Generated", "AttrUnwrap.lean"), "\n".join(out))
    ctx.extra["attr_unwrap_branches"] = ["%s: %s %s" % x for x in br]


def translate_routes(ctx):
    translate_tables(ctx)
    routes = live_routes(pya.REPO)
    out = ["/-! GENERATED by harness/props/c07.py (translate) from the live /repo tree on every run. Do not edit.",
           "Call sites through which two signatures reach `Signature.can_assign` (file, enclosing function, callee). -/",
           "namespace Pya.C07", "",
           "def liveRoutes : List (String × String × String) :=\n  [" +
           ",\n   ".join('("%s", "%s", "%s")' % r for r in routes) + "]", "", "end Pya.C07", ""]
    lean.write_if_changed(os.path.join(lean.LEAN, "PyaModel", "Generated", "SigRoutes.lean"), "\n".join(out))
    ctx.extra["routes"] = ["%s:%s -> %s" % r for r in routes]


def translate_tables(ctx):
    tabs = live_tables(pya.make_checker())

    def show(m):
        return "[" + ",\n    ".join("[" + ", ".join("true" if x else "false" for x in row) + "]" for row in m) + "]"

    out = ["import PyaModel.Core.SigAssign",
           "/-! GENERATED by harness/props/c07.py (translate) from the live /repo tree on every run. Do not edit.",
           "Row = annotation of the actual (their) parameter, column = annotation of the expected (my) parameter,",
           "order any object int bool float str. -/",
           "namespace Pya.C07", ""]
    for k in ["asg", "vpvp", "vkvk", "xvp", "xvk", "evp", "evk"]:
        out.append("def live_%s : List (List Bool) :=\n  %s\n" % (k, show(tabs[k])))
    out.append("def liveTyRel : TyRel Tag :=\n  { " + ", ".join("%s := tabRel live_%s" % (k, k) for k in
               ["asg", "vpvp", "vkvk", "xvp", "xvk", "evp", "evk"]) + " }\n")
    out.append("end Pya.C07\n")
    lean.write_if_changed(os.path.join(lean.LEAN, "PyaModel", "Generated", "SigTypes.lean"), "\n".join(out))
    ctx.extra["annotation_tables"] = {k: ["".join("1" if x else "0" for x in r) for r in v] for k, v in tabs.items()}


# ---------------------------------------------------------------- the check
def case_of(E, A):
    return {"exp": "def f" + tsrc(*E), "act": "def g" + tsrc(*A), "E": E, "A": A}


def pick_class(dcls, allowed):
    """The exception class of the pair that can explain this kind of candidate (None = none can: new)."""
    if dcls in (None, "-", ""):
        return None
    cs = dcls.split(",")
    for p in allowed:
        if p in cs:
            return p
    return None


def evaluate(ctx, pairs, with_model=True, e2e_every=None, spec_every=7):
    checker = pya.make_checker()
    n = len(pairs)
    if e2e_every is None:
        e2e_every = max(1, n // ctx.n(900, 12000))
    unit, ent1, ent2, ent3 = unit_and_entry(pairs, checker, lambda i: True)
    e2e_idx = [i for i in range(n) if i % e2e_every == 0 or unit[i] == "1" and i % max(1, e2e_every // 3) == 0]
    proto, ovr = e2e_routes([pairs[i] for i in e2e_idx])
    proto_at = dict(zip(e2e_idx, proto))
    ovr_at = dict(zip(e2e_idx, ovr))
    model = None
    if with_model:
        model = lean.run_driver("C07", [lean_line(E, A, force=(i % spec_every == 0)) for i, (E, A) in enumerate(pairs)])
    for i, (E, A) in enumerate(pairs):
        case = case_of(E, A)
        is_typed = any(p[3] != "any" for p in E[0] + A[0]) or E[1] != "any" or A[1] != "any"
        ctx.count(1, **{"typed" if is_typed else "untyped": 1, "exp_params_%d" % len(E[0]): 1,
                        "impl_accepts" if unit[i] == "1" else "impl_rejects": 1})
        if E[0] and A[0]:
            ctx.nontriv(case["exp"] + "|" + case["act"])
        acc = cex = tcex = dcls = None
        if model is not None:
            parts = dict(x.split("=", 1) for x in model[i].split(" ") if "=" in x)
            acc, cex, tcex, dcls = parts.get("acc"), parts.get("cex"), parts.get("tcex"), parts.get("D")
            ctx.tag("model_acc_" + str(acc))
            if dcls not in (None, "-"):
                for c in dcls.split(","):
                    ctx.tag("D_" + c)
            ctx.corr("unit")
            if unit[i] != acc:
                ctx.disagree("unit", case, unit[i], acc)
            for name, got in (("entry", ent1[i]), ("entry", ent2[i]), ("entry", ent3[i]), ("proto", proto_at.get(i)),
                              ("override", ovr_at.get(i))):
                if got is None:
                    continue
                ctx.corr(name)
                if got != acc:
                    ctx.disagree(name, case, got, acc)
        if i % 1499 == 0:
            ctx.sample({"exp": case["exp"], "act": case["act"], "pyanalyze_accepts": unit[i],
                        "model": model[i] if model else None})
        routes = [unit[i], ent1[i], ent2[i], ent3[i], proto_at.get(i), ovr_at.get(i)]
        accepted = "1" in routes
        conforms = acc is None or all(r is None or r == acc for r in routes)
        need_oracle = accepted or (cex not in (None, "NA"))
        if not need_oracle:
            continue
        beh, typ = oracle(E, A)
        # spec validation: the Lean counterexample search (cpyBind / slotTy / kwTy) against real calls
        if cex not in (None, "NA"):
            ctx.corr("spec")
            if (cex == "-") != (beh is None):
                ctx.disagree("spec", case, "real calls: %s" % (beh,), "cpyBind search: %s" % cex)
            elif cex != "-":
                npos, ks = cex.split(";")
                ks = tuple(k for k in ks.split(",") if k)
                if landing(E, int(npos), ks) is None or landing(A, int(npos), ks) is not None:
                    ctx.disagree("spec", case, "real calls do not confirm", "cpyBind counterexample %s" % cex)
            ctx.corr("spec")
            if (tcex == "-") != (typ is None):
                ctx.disagree("spec", case, "real calls (typed): %s" % (typ,), "slotTy/kwTy search: %s" % tcex)
        if not accepted:
            continue
        ctx.tag("oracle_pairs")
        if beh is not None:
            ctx.candidate(dict(case, call=call_txt(*beh)),
                          "accepted, but %s binds to the expected header and raises TypeError for the actual function"
                          % call_txt(*beh),
                          cls=pick_class(dcls, ["posKwClash", "starKwClash"]), conforms=conforms, stream="unit")
        if typ is not None:
            npos, ks, key, S, T = typ
            ctx.candidate(dict(case, call=call_txt(npos, ks), argument=list(key), lands_exp=S, lands_act=T),
                          "accepted, but in %s the argument %s lands on a parameter annotated %s in the expected header "
                          "and on one annotated %s in the actual function (not a supertype)" % (call_txt(npos, ks), key, S, T),
                          cls=pick_class(dcls, ["posKwClash"]), conforms=conforms, stream="unit")
        if not incl(A[1], E[1]):
            ctx.candidate(case, "accepted, but the return annotation %s of the actual function is not included in the "
                          "expected %s" % (A[1], E[1]), cls=None, conforms=conforms, stream="unit")


def malformed(ctx):
    bad = ["P a:xx:0:any -> any | -> any", "P a:po:2:any -> any | -> any", "P a:po:0:any | b:po:0:any", "hello",
           "P a:po:0:int -> nope | -> any", "O a:po:0:any -> any"]
    out = lean.run_driver("C07", bad)
    for l, o in zip(bad, out):
        ctx.count(1, malformed=1)
        ctx.corr("malformed")
        if o != "bad-op":
            ctx.disagree("malformed", {"line": l}, "bad-op expected", o)


def all_pairs(ctx):
    corpus = corpus_pairs()
    return corpus + neighbourhood(ctx, corpus, ctx.n(4000, 60000)) + gen_pairs(ctx)


def run(ctx):
    from harness.props import c07_hier
    from harness.props import c07_obtain
    evaluate(ctx, all_pairs(ctx))
    c07_hier.run_hier(ctx)
    c07_obtain.run_obtain(ctx)
    overload_stream(ctx, pya.make_checker(), c05.all_sigs(3), True)
    malformed(ctx)


def run_impl_only(ctx):
    from harness.props import c07_hier
    from harness.props import c07_obtain
    evaluate(ctx, all_pairs(ctx), with_model=False)
    c07_hier.run_hier(ctx, with_model=False)
    c07_obtain.run_obtain(ctx, with_model=False)


def replay(ctx, data):
    case = data["case"]
    if "hier" in case:
        from harness.props import c07_hier
        c07_hier.evaluate_hiers(ctx, [c07_hier.from_json(case["hier"])])
        print(json.dumps({"case": {"classes": case["classes"]}, "candidates": ctx.candidates, "broken": ctx.broken},
                         indent=1, default=str))
        return 1 if (ctx.candidates or ctx.broken) else 0
    if "how" in case:
        from harness.props import c07_obtain
        c07_obtain.run_obtain(ctx, pairs=[((tuple(tuple(p) for p in case["E"][0]), case["E"][1]),
                                           (tuple(tuple(p) for p in case["A"][0]), case["A"][1]))], only=(case["how"], case["inherited_levels"]))
        print(json.dumps({"case": {k: case[k] for k in ("expected", "def", "how", "inherited_levels")},
                          "candidates": ctx.candidates, "broken": ctx.broken}, indent=1, default=str))
        return 1 if (ctx.candidates or ctx.broken) else 0
    if "E" not in case:
        print(json.dumps({"note": "replay file carries no pair", "data": data}, indent=1, default=str))
        return 1
    E = (tuple(tuple(p) for p in case["E"][0]), case["E"][1])
    A = (tuple(tuple(p) for p in case["A"][0]), case["A"][1])
    evaluate(ctx, [(E, A)], e2e_every=1, spec_every=1)
    print(json.dumps({"case": {k: case[k] for k in ("exp", "act")}, "candidates": ctx.candidates, "broken": ctx.broken},
                     indent=1, default=str))
    return 1 if (ctx.candidates or ctx.broken) else 0
