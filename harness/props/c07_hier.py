"""C07, override route: class hierarchies.

A hierarchy = classes 0..n-1 (bases have smaller indices), each binding or not binding the attribute under test
as a method / staticmethod / property. Streams
  hier : pyanalyze's incompatible_override verdict for EVERY class of the hierarchy that binds the attribute
         (generated module checked end to end)                                   == model overrideOk
  mro  : Lean C3 linearisation == CPython's __mro__ (TypeError <-> ERR), every class
Property search: the classes are really created; for every class pyanalyze accepts and EVERY ancestor in its real
__mro__ that binds the attribute in its own __dict__, every call shape is made through an instance on the ancestor's
function (`B.__dict__[name].__get__(c, C)`) and on the override (`getattr(c, name)`): binds / raises TypeError, and
where the sentinel arguments land (contravariance); return annotations (covariance); properties: getter type
included in the base's, a settable base needs a settable child accepting the base's values.
"""
import json, os

from harness.common import lean, pya
from harness.props import c07

ATTRS = ["m", "n"]


# ---------------------------------------------------------------- text forms
def member_lean(mem):
    if mem is None:
        return "-"
    if mem[0] in ("m", "s"):
        return "%s %s" % (mem[0], c07.lean_sig(*mem[1]))
    return "p %s %d" % (mem[1], mem[2])


def hier_line(h, attr):
    return "H " + " ; ".join("%s @ %s" % (",".join(map(str, bs)) if bs else "-", member_lean(ms.get(attr)))
                             for bs, ms in h)


def member_src(attr, mem, body):
    """Source lines (indented) binding `attr` in a class body."""
    if mem[0] == "m":
        hdr = c07.with_self(mem[1])
        return ["    def %s%s: %s" % (attr, hdr, body)]
    if mem[0] == "s":
        return ["    @staticmethod", "    def %s%s: %s" % (attr, c07.tsrc(*mem[1]), body)]
    t = "" if mem[1] == "any" else " -> " + mem[1]
    out = ["    @property", "    def %s(self)%s: raise NotImplementedError" % (attr, t)]
    if mem[2]:
        v = "" if mem[1] == "any" else ": " + mem[1]
        out += ["    @%s.setter" % attr, "    def %s(self, v%s) -> None: pass" % (attr, v)]
    return out


def hier_src(h, prefix, body="..."):
    """(lines, [(first_line, last_line)] per class), 0-based line offsets relative to the first line."""
    lines, spans = [], []
    for i, (bs, ms) in enumerate(h):
        start = len(lines)
        lines.append("class %s%d%s:" % (prefix, i, ("(" + ", ".join("%s%d" % (prefix, b) for b in bs) + ")") if bs else ""))
        if not ms:
            lines.append("    pass")
        for attr in ATTRS:
            if attr in ms:
                lines += member_src(attr, ms[attr], body)
        spans.append((start, len(lines) - 1))
    return lines, spans


def show_hier(h):
    return hier_src(h, "K")[0]


# ---------------------------------------------------------------- generators
def perturb_sig(rng, sig, names):
    """One small edit of a typed header (None if the result is not a def header)."""
    ps, ret = [list(p) for p in sig[0]], sig[1]
    op = rng.randrange(8)
    if not ps or op in (5, 6):
        tag = rng.choice(["any", ps[rng.randrange(len(ps))][3]]) if ps else rng.choice(c07.TAGS)
        ps.append([rng.choice(names), rng.choice(["pk", "pk", "ko", "vp", "vk"]), int(rng.random() < 0.7), tag])
        ps.sort(key=lambda p: c07.KINDS.index(p[1]))
    elif op == 7:
        ret = rng.choice(c07.TAGS)
    else:
        i = rng.randrange(len(ps))
        if op == 0:
            ps[i][3] = rng.choice(c07.TAGS)
        elif op == 1:
            ps[i][2] = 1 - ps[i][2]
        elif op == 2:
            ps[i][1] = rng.choice(c07.KINDS)
            ps.sort(key=lambda p: c07.KINDS.index(p[1]))
        elif op == 3:
            ps[i][0] = rng.choice(names)
        elif op == 4:
            ps.pop(i)
    ps = tuple(tuple(p) for p in ps)
    if not c07.valid(ps) or any(p[0] in ("self", "v") for p in ps):
        return None
    return (ps, ret)


def near(rng, sig):
    names = sorted({p[0] for p in sig[0]} | {"q", "r", "retries"})
    for _ in range(rng.choice([0, 1, 1, 2])):
        nxt = perturb_sig(rng, sig, names)
        if nxt is not None:
            sig = nxt
    return sig


def random_sig(rng, sigs3):
    E = rng.choice(sigs3) if rng.random() < 0.6 else c07.c05.random_sig(rng, 4)
    if rng.random() < 0.5:
        pool = rng.choice([c07.TAGS, ["int", "bool", "object"], ["int", "float", "any"], ["int"]])
        return (tuple(p + (rng.choice(pool),) for p in E), rng.choice(pool))
    return (c07.typed(E), "any")


SHAPES = [
    [(), (0,)],                                   # single base
    [(), (0,), (1,)],                             # chain (with or without a gap)
    [(), (), (0, 1)],                             # siblings
    [(), (), (), (0, 1, 2)],                      # three bases
    [(), (0,), (0,), (1, 2)],                     # diamond
    [(), (), (0,), (2, 1)],                       # sibling of a chain
    [(), (0,), (), (1, 2)],
]


def gen_hier(rng, sigs3):
    if rng.random() < 0.6:
        shape = [tuple(b) for b in rng.choice(SHAPES)]
    else:
        n = rng.choice([2, 3, 3, 4, 4, 5])
        shape = [()]
        for i in range(1, n):
            k = min(i, rng.choice([1, 1, 2, 2, 3]))
            shape.append(tuple(rng.sample(range(i), k)))
    if rng.random() < 0.5:
        shape = [tuple(reversed(b)) for b in shape]
    n = len(shape)
    members = [dict() for _ in range(n)]
    for attr in (ATTRS if rng.random() < 0.3 else ATTRS[:1]):
        kind = rng.choices(["m", "s", "p", "ms"], [0.62, 0.17, 0.16, 0.05])[0]
        base_sig = random_sig(rng, sigs3)
        defined = []
        for i in range(n):
            last = i == n - 1
            if not (last or rng.random() < (0.85 if not shape[i] else 0.6)):
                continue
            if kind == "p":
                t0 = defined[-1][1] if defined and rng.random() < 0.6 else rng.choice(c07.TAGS[1:])
                mem = ("p", t0, int(rng.random() < 0.4))
            else:
                src = rng.choice(defined)[1] if defined and rng.random() < 0.8 else base_sig
                r = rng.random()
                sig = src if r < 0.45 else (near(rng, src) if r < 0.9 else random_sig(rng, sigs3))
                k = kind if kind != "ms" else rng.choice("ms")
                mem = (k, sig)
            members[i][attr] = mem
            defined.append(mem)
    return [(shape[i], members[i]) for i in range(n)]


def swap_variant(h):
    """The same hierarchy with the bases of every class listed the other way round."""
    return [(tuple(reversed(bs)), ms) for bs, ms in h]


def corpus_hiers():
    path = os.path.join(lean.HERE, "corpus", "C07.jsonl")
    out = []
    if os.path.exists(path):
        for l in open(path):
            l = l.strip()
            if l:
                d = json.loads(l)
                if "hier" in d:
                    out.append(from_json(d["hier"]))
    return out


def from_json(hj):
    def mem(m):
        if m[0] == "p":
            return ("p", m[1], int(m[2]))
        return (m[0], (tuple(tuple(p) for p in m[1][0]), m[1][1]))
    return [(tuple(bs), {a: mem(m) for a, m in ms.items()}) for bs, ms in hj]


# ---------------------------------------------------------------- CPython: real classes
def build_classes(h):
    """Really create the classes (method bodies return locals()). Returns list of class objects or None per
    class (None = CPython refuses to create it, e.g. inconsistent MRO)."""
    out = []
    for i, (bs, ms) in enumerate(h):
        if any(out[b] is None for b in bs):
            out.append(None)
            continue
        ns = {}
        src = ["class X:"] + ([l for a in ATTRS if a in ms for l in member_src(a, ms[a], "return locals()")] or ["    pass"])
        exec("\n".join(src), ns)
        body = {k: v for k, v in ns["X"].__dict__.items() if k in ATTRS}
        try:
            out.append(type("K%d" % i, tuple(out[b] for b in bs) or (object,), body))
        except TypeError:
            out.append(None)
    return out


def landing_f(f, params, npos, kws):
    pos = [("p", i) for i in range(npos)]
    kw = {k: ("k", k) for k in kws}
    try:
        loc = f(*pos, **kw)
    except TypeError:
        return None
    out = {}
    for (n, k, d, t) in params:
        v = loc[n]
        if k == "vp":
            for x in v:
                out[x] = t
        elif k == "vk":
            for x in v.values():
                out[x] = t
        elif isinstance(v, tuple):
            out[v] = t
    return out


def fn_oracle(cls_b, cls_c, attr, sig_b, sig_c):
    """First behavioural / typed counterexample for the override of cls_b's `attr` by cls_c's, calls made through
    an instance of cls_c."""
    inst = cls_c()
    fb = cls_b.__dict__[attr].__get__(inst, cls_c)
    fc = getattr(inst, attr)
    beh = typ = None
    for npos, ks in c07.call_shapes(sig_b, sig_c):
        lb = landing_f(fb, sig_b[0], npos, ks)
        if lb is None:
            continue
        lc = landing_f(fc, sig_c[0], npos, ks)
        if lc is None:
            if beh is None:
                beh = (npos, ks)
            continue
        if typ is None:
            for key, S in lb.items():
                if not c07.incl(S, lc[key]):
                    typ = (npos, ks, key, S, lc[key])
                    break
        if beh is not None and typ is not None:
            break
    return beh, typ


# ---------------------------------------------------------------- implementation stream
def impl_verdicts(hiers):
    """For every hierarchy and every class binding an attribute: '1' (no incompatible_override for that attribute in
    the class body) / '0'. Returns list of dict {(class index, attr): verdict}."""
    res = []
    B = 120
    for b0 in range(0, len(hiers), B):
        batch = hiers[b0:b0 + B]
        src, where = [], []
        for k, h in enumerate(batch):
            lines, spans = hier_src(h, "H%d_" % k)
            off = len(src)
            src += lines
            where.append([(off + a + 1, off + b + 1) for a, b in spans])  # 1-based line numbers
        fails, _, _ = pya.check_source("\n".join(src) + "\n")
        bad = {}
        for f in fails:
            if f["code"] == "incompatible_override" and f["lineno"] is not None:
                msg = f["message"]
                attr = msg.split(" ")[2] if msg.startswith("Value of ") else None
                bad.setdefault(f["lineno"], set()).add(attr)
        for k, h in enumerate(batch):
            v = {}
            for i, (bs, ms) in enumerate(h):
                a, b = where[k][i]
                for attr in ms:
                    hit = any(attr in bad.get(l, ()) for l in range(a, b + 1))
                    v[(i, attr)] = "0" if hit else "1"
            res.append(v)
    return res


# ---------------------------------------------------------------- evaluation
def parse_tokens(line):
    out = {}
    for tok in line.split(" "):
        i, mro, ok, badl, d = tok.split("|")
        dd = {}
        if d != "-":
            for x in d.split(","):
                j, cs = x.split(":")
                dd[int(j)] = cs.split("+")
        out[int(i)] = {"mro": mro, "ok": ok, "bad": badl, "d": dd}
    return out


def evaluate_hiers(ctx, hiers, with_model=True):
    classes = [build_classes(h) for h in hiers]
    # pyanalyze executes the module it checks: only hierarchies CPython can create are sent to it
    creatable = [all(c is not None for c in cs) for cs in classes]
    idx = [k for k in range(len(hiers)) if creatable[k]]
    impl_at = dict(zip(idx, impl_verdicts([hiers[k] for k in idx])))
    jobs = [(k, attr) for k, h in enumerate(hiers) for attr in ATTRS if any(attr in ms for _, ms in h)]
    model = None
    if with_model:
        model = lean.run_driver("C07", [hier_line(hiers[k], attr) for k, attr in jobs])
    for jn, (k, attr) in enumerate(jobs):
        h, cs = hiers[k], classes[k]
        toks = parse_tokens(model[jn]) if model is not None else None
        case = {"classes": show_hier(h), "attribute": attr, "hier": [[list(bs), {a: list(m) for a, m in ms.items()}] for bs, ms in h]}
        kinds = "".join(sorted({ms[attr][0] for _, ms in h if attr in ms}))
        ctx.count(1, hierarchy=1, **{"hier_kind_" + kinds: 1, "hier_classes_%d" % len(h): 1})
        ctx.nontriv("H|" + "|".join(case["classes"]) + "|" + attr)
        if jn % 601 == 0:
            ctx.sample({"classes": case["classes"], "attribute": attr,
                        "pyanalyze": {str(i): v for (i, a), v in impl_at.get(k, {}).items() if a == attr},
                        "model": model[jn] if model is not None else None})
        for i, (bs, ms) in enumerate(h):
            real_mro = None if cs[i] is None else ",".join(c.__name__[1:] for c in cs[i].__mro__[:-1])
            if toks is not None:
                ctx.corr("mro")
                if (real_mro or "ERR") != toks[i]["mro"]:
                    ctx.disagree("mro", case, "class %d: CPython %s" % (i, real_mro or "TypeError"), "C3 model %s" % toks[i]["mro"])
            if attr not in ms or cs[i] is None or k not in impl_at:
                continue
            got = impl_at[k][(i, attr)]
            mv = toks[i]["ok"] if toks is not None else None
            ctx.tag("hier_impl_accepts" if got == "1" else "hier_impl_rejects")
            anc = [int(c.__name__[1:]) for c in cs[i].__mro__[1:-1]]
            definers = [j for j in anc if attr in h[j][1]]
            if len(definers) >= 2:
                ctx.tag("hier_two_or_more_definers")
            if toks is not None and definers:
                ctx.corr("hier")
                if got != mv:
                    ctx.disagree("hier", dict(case, cls=i), "class %d: pyanalyze %s" % (i, "accepts" if got == "1" else "reports incompatible_override"),
                                 "model overrideOk=%s (incompatible with %s)" % (mv, toks[i]["bad"]))
            if got != "1":
                continue
            conforms = mv is None or got == mv
            child = ms[attr]
            for j in definers:
                base = h[j][1][attr]
                dcls = ",".join(toks[i]["d"].get(j, [])) if toks is not None else None
                ctx.tag("hier_oracle_pairs")
                where = "class %d overriding class %d" % (i, j)
                if base[0] == "p" and child[0] == "p":
                    ok = c07.incl(child[1], base[1]) and (not base[2] or (child[2] and c07.incl(base[1], child[1])))
                    if not ok:
                        ctx.candidate(dict(case, cls=i, base=j), "accepted, but property %s of %s: getter %s vs %s, settable %s vs %s"
                                      % (attr, where, child[1], base[1], child[2], base[2]), cls=None, conforms=conforms, stream="hier")
                    continue
                if base[0] == "p" or child[0] == "p":
                    continue
                beh, typ = fn_oracle(cs[j], cs[i], attr, base[1], child[1])
                if beh is not None:
                    ctx.candidate(dict(case, cls=i, base=j, call="c.%s" % c07.call_txt(*beh)[2:]),
                                  "accepted, but for %s the call %s binds to the base-class function and raises TypeError for the override"
                                  % (where, "c.%s%s" % (attr, c07.call_txt(*beh)[1:])),
                                  cls=c07.pick_class(dcls, ["posKwClash", "starKwClash"]), conforms=conforms, stream="hier")
                if typ is not None:
                    npos, ks, key, S, T = typ
                    ctx.candidate(dict(case, cls=i, base=j, call="c.%s%s" % (attr, c07.call_txt(npos, ks)[1:]), argument=list(key)),
                                  "accepted, but for %s in %s the argument %s lands on %s in the base-class function and on %s in the override"
                                  % (where, "c.%s%s" % (attr, c07.call_txt(npos, ks)[1:]), key, S, T),
                                  cls=c07.pick_class(dcls, ["posKwClash"]), conforms=conforms, stream="hier")
                if not c07.incl(child[1][1], base[1][1]):
                    ctx.candidate(dict(case, cls=i, base=j), "accepted, but for %s the return annotation %s is not included in %s"
                                  % (where, child[1][1], base[1][1]), cls=None, conforms=conforms, stream="hier")


def gen_hiers(ctx):
    sigs3 = c07.c05.all_sigs(3)
    out = corpus_hiers()
    n = ctx.n(1100, 12000)
    while len(out) < n:
        h = gen_hier(ctx.rng, sigs3)
        out.append(h)
        if any(len(bs) >= 2 for bs, _ in h) and ctx.rng.random() < 0.5:
            out.append(swap_variant(h))
    return out


def run_hier(ctx, with_model=True):
    evaluate_hiers(ctx, gen_hiers(ctx), with_model)
