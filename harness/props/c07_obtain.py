"""C07, `obtain` stream: the actual callable is obtained in every way a program obtains one.

For a pair (expected header E, def header A) the callable is a module-level def, a nested def, a lambda, a bound
method (inst.h), the function through the class (Cls.h), a staticmethod / classmethod through an instance or the
class, an instance with __call__, a class (constructor), a property returning a function - each defined on the
class itself or INHERITED one or two levels up. It is offered where E is expected in five forms:
  callable : CallableValue(sig E).can_assign(<value pyanalyze infers for the expression>)      (in-process)
  literal  : KnownValue(f_E).can_assign(<that value>)                                         (Literal[function])
  proto    : `x: P = <expr>` with Protocol P.__call__(self, E)                                (end to end)
  cparam   : `run(<expr>)` with `def run(cb: Callable[[T1, ..], R])` when E is positional-only and required
  pmethod  : `y: HM = inst` with Protocol HM declaring `def h(self, E)` and inst.h bound / static / classmethod
Correspondence (metamorphic): every verdict == the model's `sigCanAssign E (effectiveSig how A)` - the verdict for
the plain def of the effective header. Specification: Lean `effectiveSig` == inspect.signature of the really
obtained object. Property search: for every accepted (form, how) the really obtained object is called with every
call shape E binds (TypeError => candidate; sentinel arguments landing on a non-supertype => candidate).
"""
import inspect

from harness.common import lean, pya
from harness.props import c07

HOWS = [  # (how, depth, receiver kind)
    ("plain", 0), ("nested", 0), ("lambda", 0),
    ("bound", 0), ("bound", 1), ("bound", 2),
    ("funcViaClass", 0), ("funcViaClass", 1), ("funcViaClass", 2),
    ("staticInst", 0), ("staticInst", 1), ("staticInst", 2),
    ("staticCls", 0), ("staticCls", 1), ("staticCls", 2),
    ("classInst", 0), ("classInst", 1), ("classInst", 2),
    ("classCls", 0), ("classCls", 1), ("classCls", 2),
    ("callInst", 0), ("callInst", 1),
    ("ctor", 0), ("ctor", 1),
    ("prop", 0), ("prop", 2),
]
# a Protocol with __call__ never accepts a bound method / a function read through the class (always rejected:
# incomplete, not unsound), so that form is not offered for them
NO_PROTO = {"bound", "funcViaClass"}
PMETHOD_ATTR = {"bound": "h", "staticInst": "s", "classInst": "k"}


def untyped(sig):
    return (tuple(p[:3] + ("any",) for p in sig[0]), "any")


def with_s0(E):
    return ((("s0", "po", 0, "any"),) + E[0], E[1])


def expr_of(how, depth, k):
    inst = ["b", "c", "d"][depth]
    cls = ["B%d", "C%d", "D%d"][depth] % k
    return {
        "plain": "g%d" % k, "nested": "inner%d" % k, "lambda": None,
        "bound": inst + ".h", "funcViaClass": cls + ".h", "staticInst": inst + ".s", "staticCls": cls + ".s",
        "classInst": inst + ".k", "classCls": cls + ".k", "callInst": ["bc", "cc"][min(depth, 1)],
        "ctor": ["BI%d", "CI%d"][min(depth, 1)] % k, "prop": inst + ".p",
    }[how]


def lambda_text(A, body):
    s = c07.tsrc(*untyped(A))
    return "lambda %s: %s" % (s[1:s.rindex(")")], body)


def cparam_ann(E):
    """`Callable[[T1, ...], R]` text when E is expressible that way."""
    if any(p[1] != "po" or p[2] for p in E[0]):
        return None
    t = lambda x: "Any" if x == "any" else x
    return "Callable[[%s], %s]" % (", ".join(t(p[3]) for p in E[0]), t(E[1]))


def holder_src(k, A, body, init_body):
    hs = c07.with_self(A)
    cs = hs.replace("(self", "(cls", 1)
    ini = c07.with_self((A[0], "any"))
    return [
        "def g%d%s: %s" % (k, c07.tsrc(*A), body),
        "class B%d:" % k,
        "    def h%s: %s" % (hs, body),
        "    @staticmethod",
        "    def s%s: %s" % (c07.tsrc(*A), body),
        "    @classmethod",
        "    def k%s: %s" % (cs, body),
        "    @property",
        "    def p(self):",
        "        return g%d" % k,
        "class C%d(B%d): pass" % (k, k),
        "class D%d(C%d): pass" % (k, k),
        "class BC%d:" % k,
        "    def __call__%s: %s" % (hs, body),
        "class CC%d(BC%d): pass" % (k, k),
        "class BI%d:" % k,
        "    def __init__%s -> None: %s" % (ini, init_body),
        "class CI%d(BI%d): pass" % (k, k),
    ]


def cases_of(E, A):
    """The (how, depth, E', A') instances of one pair."""
    out = []
    for how, depth in HOWS:
        Eh, Ah = E, A
        if how == "lambda":
            if E[1] != "any":
                continue
            Ah = untyped(A)
        elif how == "ctor":
            if E[1] != "any":
                continue
        elif how == "funcViaClass":
            Eh = with_s0(E)
        out.append((how, depth, Eh, Ah))
    return out


# ---------------------------------------------------------------- implementation: one generated module per batch
def impl_batch(groups, checker):
    """groups: list of (E, A, cases). Returns per group a list (parallel to cases) of dicts form -> '1'/'0'."""
    import ast
    from pyanalyze.value import CallableValue, CanAssignError, KnownValue

    src = ["from typing import Any, Callable, Protocol"]
    marks = []          # (line number, group, case index, form)
    for k, (E, A, cases) in enumerate(groups):
        src += holder_src(k, A, "...", "...")
        protos = {}
        for how, depth, Eh, Ah in cases:
            if Eh not in protos:
                j = len(protos)
                protos[Eh] = j
                src.append("class PC%d_%d(Protocol):" % (k, j))
                src.append("    def __call__%s: ..." % c07.with_self(Eh))
                ann = cparam_ann(Eh)
                if ann:
                    src.append("def run%d_%d(cb: %s) -> None: ..." % (k, j, ann))
        for attr in ("h", "s", "k"):
            src.append("class HM%d%s(Protocol):" % (k, attr))
            src.append("    def %s%s: ..." % (attr, c07.with_self(E)))
        src.append("def sites%d(b: B%d, c: C%d, d: D%d, bc: BC%d, cc: CC%d) -> None:" % ((k,) * 6))
        src.append("    def inner%d%s: ..." % (k, c07.tsrc(*A)))
        for ci, (how, depth, Eh, Ah) in enumerate(cases):
            ex = expr_of(how, depth, k) or lambda_text(Ah, "None")
            j = protos[Eh]
            src.append("    v%d_%d = %s" % (k, ci, ex))
            marks.append((len(src), k, ci, "value"))
            if how not in NO_PROTO:
                src.append("    x%d_%d: PC%d_%d = %s" % (k, ci, k, j, ex))
                marks.append((len(src), k, ci, "proto"))
            if cparam_ann(Eh):
                src.append("    run%d_%d(%s)" % (k, j, ex))
                marks.append((len(src), k, ci, "cparam"))
            if how in PMETHOD_ATTR:
                src.append("    y%d_%d: HM%d%s = %s" % (k, ci, k, PMETHOD_ATTR[how], ["b", "c", "d"][depth]))
                marks.append((len(src), k, ci, "pmethod"))
    fails, tree, _ = pya.check_source("\n".join(src) + "\n", annotate=True)
    bad = {}
    for f in fails:
        if f["code"] in ("incompatible_assignment", "incompatible_argument") and f["lineno"] is not None:
            bad[f["lineno"]] = f["code"]
    values = {}
    for node in ast.walk(tree):
        if isinstance(node, ast.Assign) and hasattr(node.value, "inferred_value"):
            values[node.lineno] = node.value.inferred_value
    get = checker.arg_spec_cache.get_argspec
    res = [[dict() for _ in cases] for (_, _, cases) in groups]

    def verdict(thunk):
        try:
            return "0" if isinstance(thunk(), CanAssignError) else "1"
        except Exception as e:
            return "EXC:%s" % type(e).__name__

    for line, k, ci, form in marks:
        Eh = groups[k][2][ci][2]
        if form == "value":
            val = values.get(line)
            if val is None:
                res[k][ci]["callable"] = res[k][ci]["literal"] = "NOVALUE"
                continue
            fE = c07.fn_of(Eh)
            res[k][ci]["callable"] = verdict(lambda: CallableValue(get(fE)).can_assign(val, checker))
            res[k][ci]["literal"] = verdict(lambda: KnownValue(fE).can_assign(val, checker))
        else:
            res[k][ci][form] = "0" if line in bad else "1"
    return res


# ---------------------------------------------------------------- CPython: the really obtained objects
def runtime_objects(A, cases):
    ns = {}
    exec("\n".join(holder_src(0, A, "return locals()", "pass")), ns)
    ns.update(b=ns["B0"](), c=ns["C0"](), d=ns["D0"](), bc=ns["BC0"](), cc=ns["CC0"]())
    exec("def _mk():\n    def inner0%s: return locals()\n    return inner0\ninner0 = _mk()" % c07.tsrc(*A), ns)
    out = []
    for how, depth, Eh, Ah in cases:
        ex = expr_of(how, depth, 0) or lambda_text(Ah, "locals()")
        out.append(eval(ex, ns))
    return out


_KIND = {inspect.Parameter.POSITIONAL_ONLY: "po", inspect.Parameter.POSITIONAL_OR_KEYWORD: "pk",
         inspect.Parameter.VAR_POSITIONAL: "vp", inspect.Parameter.KEYWORD_ONLY: "ko",
         inspect.Parameter.VAR_KEYWORD: "vk"}


def runtime_header(obj):
    return tuple((p.name, _KIND[p.kind], int(p.default is not inspect.Parameter.empty))
                 for p in inspect.signature(obj).parameters.values())


def obtained_oracle(obj, Eh, eff):
    """Call the really obtained object with every call shape Eh binds."""
    beh = typ = None
    for npos, ks in c07.call_shapes(Eh, eff):
        le = c07.landing(Eh, npos, ks)
        if le is None:
            continue
        pos = [("p", i) for i in range(npos)]
        kw = {k: ("k", k) for k in ks}
        try:
            loc = obj(*pos, **kw)
        except TypeError:
            if beh is None:
                beh = (npos, ks)
            continue
        if typ is None and isinstance(loc, dict):
            lo = {}
            for (n, k, d, t) in eff[0]:
                v = loc.get(n)
                if k == "vp":
                    lo.update({x: t for x in v})
                elif k == "vk":
                    lo.update({x: t for x in v.values()})
                elif isinstance(v, tuple):
                    lo[v] = t
            for key, S in le.items():
                if key in lo and not c07.incl(S, lo[key]):
                    typ = (npos, ks, key, S, lo[key])
                    break
        if beh is not None and typ is not None:
            break
    return beh, typ


def parse_eff(text):
    ps, ret = text.split("->")
    params = []
    for tok in ps.split():
        n, k, d, t = tok.split(":")
        params.append((n, k, int(d), t))
    return (tuple(params), ret.strip())


# ---------------------------------------------------------------- the stream
def corpus_groups():
    import json, os
    path = os.path.join(lean.HERE, "corpus", "C07.jsonl")
    out = []
    if os.path.exists(path):
        for l in open(path):
            l = l.strip()
            if l:
                d = json.loads(l)
                if "obtain" in d:
                    o = d["obtain"]
                    out.append(((tuple(tuple(p) for p in o["E"][0]), o["E"][1]), (tuple(tuple(p) for p in o["A"][0]), o["A"][1])))
    return out


def gen_groups(ctx):
    sigs3 = c07.c05.all_sigs(3)
    pools = [c07.TAGS, ["int", "bool", "object"], ["int", "float", "any"], ["int"]]
    out = corpus_groups()
    n = ctx.n(170, 1200)
    while len(out) < n:
        E, A = c07.random_pair(ctx.rng, sigs3, 4)
        if ctx.rng.random() < 0.5:
            pool = ctx.rng.choice(pools)
            E = tuple(p[:3] + (ctx.rng.choice(pool),) for p in E)
            A = tuple(p[:3] + (ctx.rng.choice(pool),) for p in A)
            if ctx.rng.random() < 0.5:
                byname = {p[0]: p[3] for p in E}
                A = tuple(p[:3] + (byname.get(p[0], p[3]),) for p in A)
            er = ctx.rng.choice(["any", "any", ctx.rng.choice(pool)])
            ar = er if ctx.rng.random() < 0.6 else ctx.rng.choice(pool)
        else:
            er = ar = "any"
        r = ctx.rng.random()
        if r < 0.25:
            # expected header expressible as Callable[[...], R]: positional-only, required
            E = tuple((p[0], "po", 0, p[3]) for p in E if p[1] in ("po", "pk"))
        if any(p[0] in ("self", "cls", "s0") for p in E + A):
            continue
        if not c07.ref_accept(E, A) and ctx.rng.random() < 0.6:
            continue
        out.append(((E, er), (A, ar)))
    return out


def run_obtain(ctx, with_model=True, pairs=None, only=None):
    checker = pya.make_checker()
    if pairs is None:
        pairs = gen_groups(ctx)
    if only is not None:
        # replay of one case: the stored E is the per-how expected header (s0 already prepended for funcViaClass)
        how, depth = only
        groups = []
        for E, A in pairs:
            E0 = (E[0][1:], E[1]) if how == "funcViaClass" and E[0] and E[0][0][0] == "s0" else E
            groups.append((E0, A, [c for c in cases_of(E0, A) if (c[0], c[1]) == (how, depth)]))
    else:
        groups = [(E, A, cases_of(E, A)) for E, A in pairs]
    impl = []
    B = 12
    for b0 in range(0, len(groups), B):
        impl += impl_batch(groups[b0:b0 + B], checker)
    flat = [(gi, ci) for gi, (_, _, cases) in enumerate(groups) for ci in range(len(cases))]
    model = None
    if with_model:
        model = lean.run_driver("C07", ["G %s %d %s | %s" % (groups[gi][2][ci][0], groups[gi][2][ci][1],
                                                             c07.lean_sig(*groups[gi][2][ci][2]),
                                                             c07.lean_sig(*groups[gi][2][ci][3])) for gi, ci in flat])
    objs = {}
    for n_, (gi, ci) in enumerate(flat):
        E, A, cases = groups[gi]
        how, depth, Eh, Ah = cases[ci]
        verdicts = impl[gi][ci]
        case = {"expected": "def f" + c07.tsrc(*Eh), "def": "def h" + c07.tsrc(*Ah), "how": how, "inherited_levels": depth,
                "E": Eh, "A": Ah}
        ctx.count(1, obtain=1, **{"obtain_" + how: 1})
        ctx.nontriv("G|%s|%d|%s|%s" % (how, depth, case["expected"], case["def"]))
        acc = dcls = None
        eff = None
        if model is not None:
            head, efft = model[n_].split(" eff=")
            parts = dict(x.split("=", 1) for x in head.split(" "))
            acc, dcls = parts["acc"], parts["D"]
            eff = parse_eff(efft)
        if n_ % 997 == 0:
            ctx.sample(dict({k: case[k] for k in ("expected", "def", "how", "inherited_levels")}, pyanalyze=verdicts,
                            model=model[n_] if model is not None else None))
        if gi not in objs:
            objs.clear()
            objs[gi] = runtime_objects(A, cases)
        obj = objs[gi][ci]
        if eff is not None:
            ctx.corr("effective")
            rh = runtime_header(obj)
            if rh != tuple(p[:3] for p in eff[0]):
                ctx.disagree("effective", case, "inspect.signature: %s" % (rh,), "effectiveSig: %s" % (eff[0],))
        for form, got in verdicts.items():
            if acc is not None:
                ctx.corr("obtain")
                if got != acc:
                    ctx.disagree("obtain", dict(case, form=form), got, "model acc=%s (plain def of the effective header)" % acc)
        accepted = [f for f, v in verdicts.items() if v == "1"]
        if not accepted:
            continue
        conforms = acc is None or all(v == acc for v in verdicts.values())
        if eff is None:
            eff = Ah if how != "funcViaClass" else ((("self", "pk", 0, "any"),) + Ah[0], Ah[1])
        beh, typ = obtained_oracle(obj, Eh, eff)
        ctx.tag("obtain_oracle")
        what = "%s (inherited %d level(s)) accepted as %s where %s is expected" % (how, depth, "/".join(accepted), case["expected"])
        if beh is not None:
            ctx.candidate(dict(case, call=c07.call_txt(*beh), forms=accepted),
                          what + ", but %s binds to the expected header and raises TypeError for the obtained object" % c07.call_txt(*beh),
                          cls=c07.pick_class(dcls, ["posKwClash", "starKwClash"]), conforms=conforms, stream="obtain")
        if typ is not None:
            npos, ks, key, S, T = typ
            ctx.candidate(dict(case, call=c07.call_txt(npos, ks), forms=accepted, argument=list(key)),
                          what + ", but in %s the argument %s lands on %s (expected) and on %s (obtained object)"
                          % (c07.call_txt(npos, ks), key, S, T),
                          cls=c07.pick_class(dcls, ["posKwClash"]), conforms=conforms, stream="obtain")
        if how not in ("ctor", "lambda") and not c07.incl(eff[1], Eh[1]):
            ctx.candidate(dict(case, forms=accepted), what + ", but the return annotation %s is not included in %s" % (eff[1], Eh[1]),
                          cls=None, conforms=conforms, stream="obtain")
