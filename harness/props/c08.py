"""C08 — overload resolution follows first-match and distributes over unions.

Streams
  e2e    : generated module (@overload sets + calls through typed parameters of `run`) checked by pyanalyze
           -> value inferred for the call (decoded structurally) + reveal_type text + incompatible_call /
           incompatible_argument on the call line                          vs Lean `resolve` (Driver/C08.lean)
  judge  : can_assign_and_used_any(param type, argument type) on the whole vocabulary          vs Lean `ca` / `ua`
  vocab  : the Values pyanalyze builds for the vocabulary annotations / variables              vs the Ty terms sent to Lean
  spec   : per overload "accepts the call" (Lean `accepts` = pyaBind + ca) and Lean `firstMatch`
           vs the independent oracle (binding by really calling a def with that header under CPython; assignability by
           set inclusion over a finite universe of value atoms)
Property search on the implementation (oracle independent of pyanalyze):
  P1 no Any, no union      : inferred type == return type of the first accepting overload; diagnosed iff none accepts
  P2 exactly one union     : every member's own call accepted by some overload => not diagnosed; the inferred type
                             contains the result type of each accepted member's own call
  P3 an Any argument       : first accepting overload accepts through Any and another accepting overload has a different
                             return type => Any[multiple_overload_matches] (never one overload's type)
A failing input is reported with the exception class the Lean driver computes (D08_unionInVarPos, the only remaining one;
the former class emptyVarPos was repaired in /repo by 41847cf, its witnesses stay in corpus/C08.jsonl as regression cases) and
conforms = (pyanalyze's result == the model's).
"""
import itertools, json, os

from harness.common import lean, pya, values as V
from harness.props.c03 import translate  # noqa: F401  (regenerates Generated/ClassTable.lean from the live tree)
from harness import universe as U

PROP = "C08"
NAMESPACE = "Pya.C08"
LEAN_PROP = "PyaModel.Props.C08"
LEAN_TARGETS = ["PyaModel.Spec.Overload", "PyaModel.Core.Sexp", "PyaModel.Generated.ClassTable"]
ANCHORS = [
    ("pyanalyze/signature.py", "OverloadedSignature.check_call"),
    ("pyanalyze/signature.py", "OverloadedSignature._unite_rets"),
    ("pyanalyze/signature.py", "Signature.check_call_preprocessed"),
    ("pyanalyze/signature.py", "Signature.check_call_with_bound_args"),
    ("pyanalyze/signature.py", "Signature._check_param_type_compatibility"),
    ("pyanalyze/signature.py", "Signature.bind_arguments"),
    ("pyanalyze/signature.py", "decompose_union"),
    ("pyanalyze/value.py", "can_assign_and_used_any"),
    ("pyanalyze/value.py", "Value.can_assign"),
    ("pyanalyze/value.py", "MultiValuedValue.can_assign"),
    ("pyanalyze/value.py", "AnyValue.can_assign"),
    ("pyanalyze/value.py", "SequenceValue.__init__"),
    ("pyanalyze/arg_spec.py", "ArgSpecCache._uncached_get_argspec"),
    ("pyanalyze/extensions.py", "get_overloads"),
]
RULE = (
    "overload sets of 2-4 signatures over the vocabulary {int, bool, str, bytes, None, list[int], object, A, B(A), "
    "Literal[1], Literal['a'], int|str, Optional[int], str|bytes, Any}; parameters positional-only / "
    "positional-or-keyword / *args / keyword-only with and without defaults; first all sets of 2 and 3 one-parameter "
    "signatures over a 7-type core x all single arguments and all pairs of *args overloads over a 5-type core x packs of "
    "0-2 arguments (exhaustive; thorough: also all pairs of two-parameter overloads over a 4-type core x argument pairs), "
    "then seeded random sets (half of the later "
    "signatures are mutated copies of an earlier one: overlapping / shadowed / different arity / keyword) x argument "
    "tuples (0-3 positionals, keyword subsets incl. a foreign name) drawn so that about half contain neither Any nor "
    "a union, a quarter exactly one union, the rest Any or mixtures; non-trivial = the call binds to at least one "
    "overload and has at least one argument; distinct by (set, call) text"
)
ASSUMPTIONS = [
    "**kwargs parameters, star arguments in the call, TypeVars, impl functions, evaluators, @deprecated and the text / error code of the diagnostic are outside the model (only diagnosed / not diagnosed is compared)",
    "the oracle's assignability is set inclusion over a finite universe of value atoms (ints 1, 2, other; bools; strs 'a', other; bytes; None; list[int]; instances of A and B; an other object); Any and list[Any] are handled by the documented rule (Any on the right but not on the left = match through Any)",
    "a match through Any is taken in the documented sense (docstring of OverloadedSignature.check_call): an Any argument bound to a parameter annotated Any is a clean match, bound to `object` it is an Any match",
    "P3 is checked in the documented form: only when the FIRST accepting overload accepts through Any",
]
TRUSTED = [
    "Spec/Overload.lean (accepts / firstMatch over pyaBind + ca) is validated on every run against the CPython-binding + set-inclusion oracle (stream spec)",
]

CID = V.CID
_t = lambda c: ("typed", CID[c])  # noqa: E731
_NONE = ("known", ("none",))

# name -> (annotation source, Ty term, atoms or None for gradual types)
ATOMS = ["i1", "i2", "io", "bT", "bF", "sa", "so", "by", "no", "li", "A", "B", "oo", "fl"]
_INT = {"i1", "i2", "io", "bT", "bF"}
TYPES = {
    "int": ("int", _t(int), _INT),
    "bool": ("bool", _t(bool), {"bT", "bF"}),
    "str": ("str", _t(str), {"sa", "so"}),
    "bytes": ("bytes", _t(bytes), {"by"}),
    "None": ("None", _NONE, {"no"}),
    "li": ("list[int]", ("generic", CID[list], [_t(int)]), {"li"}),
    "obj": ("object", _t(object), set(ATOMS)),
    "A": ("A", _t(U.A), {"A", "B"}),
    "B": ("B", _t(U.B), {"B"}),
    "L1": ("Literal[1]", ("known", ("int", 1)), {"i1"}),
    "La": ("Literal['a']", ("known", ("str", "a")), {"sa"}),
    "float": ("float", _t(float), {"fl"}),                       # return type only
    "i|s": ("Union[int, str]", ("union", [_t(int), _t(str)]), _INT | {"sa", "so"}),
    "oi": ("Optional[int]", ("union", [_t(int), _NONE]), _INT | {"no"}),
    "s|b": ("Union[str, bytes]", ("union", [_t(str), _t(bytes)]), {"sa", "so", "by"}),
    "i|s|b": ("Union[int, str, bytes]", ("union", [_t(int), _t(str), _t(bytes)]), _INT | {"sa", "so", "by"}),
    "A|n": ("Optional[A]", ("union", [_t(U.A), _NONE]), {"A", "B", "no"}),
    "L12": ("Literal[1, 2]", ("union", [("known", ("int", 1)), ("known", ("int", 2))]), {"i1", "i2"}),
    "B|s": ("Union[B, str]", ("union", [_t(U.B), _t(str)]), {"B", "sa", "so"}),
    "Any": ("Any", ("any",), None),
    "lA": ("list[Any]", ("generic", CID[list], [("any",)]), None),
}
UNION_MEMBERS = {"i|s": ["int", "str"], "oi": ["int", "None"], "s|b": ["str", "bytes"], "i|s|b": ["int", "str", "bytes"],
                 "A|n": ["A", "None"], "L12": ["L1", "L2"], "B|s": ["B", "str"]}
TYPES["L2"] = ("Literal[2]", ("known", ("int", 2)), {"i2"})
PARAM_TYPES = ["int", "str", "bytes", "None", "li", "obj", "A", "B", "L1", "La", "bool", "i|s", "oi", "s|b", "Any"]
PARAM_CORE = ["int", "str", "obj", "i|s", "Any", "L1", "A"]
ARG_PLAIN = ["int", "str", "bytes", "None", "li", "A", "B", "L1", "La", "bool", "L2"]
ARG_UNION = ["i|s", "oi", "s|b", "i|s|b", "A|n", "L12", "B|s"]
ARG_ANY = ["Any", "lA"]
ARG_ALL = ARG_PLAIN + ARG_UNION + ARG_ANY
RET_TYPES = ["int", "str", "bytes", "float", "None", "li", "A", "oi"]
VAR = {n: "v%d" % i for i, n in enumerate(ARG_ALL)}
NAMES = "abcd"


# ---------------------------------------------------------------- rendering
def header_src(params, annotated=True):
    parts, seen_star = [], False
    npo = sum(1 for p in params if p[1] == "po")
    for i, (n, k, d, t) in enumerate(params):
        ann = (": " + TYPES[t][0]) if annotated else ""
        dflt = ((" = ..." if annotated else "=_D") if d else "")
        if k == "ko" and not seen_star:
            parts.append("*")
            seen_star = True
        if k == "vp":
            parts.append("*" + n + ann)
            seen_star = True
        else:
            parts.append(n + ann + dflt)
        if k == "po" and i == npo - 1:
            parts.append("/")
    return ", ".join(parts)


def call_src(call):
    pos, kws = call
    return ", ".join([VAR[t] for t in pos] + ["%s=%s" % (n, VAR[t]) for n, t in kws])


def show_set(sigs):
    return "; ".join("(%s) -> %s" % (header_src(ps), TYPES[r][0]) for ps, r in sigs)


def show_call(call):
    pos, kws = call
    return "f(" + ", ".join([TYPES[t][0] for t in pos] + ["%s=%s" % (n, TYPES[t][0]) for n, t in kws]) + ")"


def lean_line(sigs, call):
    def sig(s):
        ps, r = s
        return "(sig (ps%s) %s)" % ("".join(" (p %s %s %d %s)" % (n, k, d, V.ty_sexp(TYPES[t][1])) for n, k, d, t in ps),
                                    V.ty_sexp(TYPES[r][1]))
    pos, kws = call
    return "(call (sigs %s) (pos%s) (kws%s))" % (
        " ".join(sig(s) for s in sigs), "".join(" " + V.ty_sexp(TYPES[t][1]) for t in pos),
        "".join(" (k %s %s)" % (n, V.ty_sexp(TYPES[t][1])) for n, t in kws))


# ---------------------------------------------------------------- oracle (independent of pyanalyze)
_D = object()
_FN = {}


def bind_oracle(params, call):
    """CPython binds the call to a def with this header: {param: token | tuple of tokens | _D} or None (TypeError)."""
    fn = _FN.get(params)
    if fn is None:
        ns = {"_D": _D}
        names = [p[0] for p in params]
        exec("def f(%s): return {%s}" % (header_src(params, annotated=False), ", ".join("%r: %s" % (n, n) for n in names)), ns)
        fn = _FN[params] = ns["f"]
    pos, kws = call
    try:
        return fn(*pos, **dict(kws))
    except TypeError:
        return None


def accept1(param_t, arg_t):
    """(accepted, through Any) for one parameter type / argument type, by the documented rules."""
    if param_t == "Any":
        return True, False
    if arg_t == "Any":
        return True, True
    if arg_t == "lA":
        if param_t == "li":
            return True, True
        return (param_t == "obj"), False
    return TYPES[arg_t][2] <= TYPES[param_t][2], False


def accepts_oracle(sig, call):
    """(accepted, through Any) for one overload."""
    params, _ = sig
    b = bind_oracle(params, call)
    if b is None:
        return False, False
    ok, used = True, False
    for n, k, d, t in params:
        v = b[n]
        if v is _D:
            continue
        for a in (v if k == "vp" else (v,)):
            o, u = accept1(t, a)
            ok = ok and o
            used = used or u
    return ok, used and ok


def first_match_oracle(sigs, call):
    for s in sigs:
        if accepts_oracle(s, call)[0]:
            return s[1]
    return None


def with_arg(call, slot, t):
    pos, kws = call
    if slot[0] == "p":
        pos = pos[:slot[1]] + (t,) + pos[slot[1] + 1:]
    else:
        kws = tuple((n, t if n == slot[1] else x) for n, x in kws)
    return (pos, kws)


def flat_members(t):
    """The non-union alternatives of a vocabulary type, as Ty s-expressions."""
    term = TYPES[t][1]
    return [V.ty_sexp(x) for x in term[1]] if term[0] == "union" else [V.ty_sexp(term)]


# ---------------------------------------------------------------- generators
def valid_params(rng, n, types=PARAM_TYPES, allow_vp=True):
    """A legal def header with n named parameters (+ maybe *args)."""
    kinds = sorted(rng.choice(["po", "pk", "pk", "pk", "ko"]) for _ in range(n))
    order = {"po": 0, "pk": 1, "ko": 3}
    kinds.sort(key=lambda k: order[k])
    ps, dstart = [], False
    for i, k in enumerate(kinds):
        if k in ("po", "pk"):
            dstart = dstart or rng.random() < 0.25
            d = int(dstart)
        else:
            d = int(rng.random() < 0.5)
        ps.append((NAMES[i], k, d, rng.choice(types)))
    if allow_vp and rng.random() < 0.2:
        at = sum(1 for p in ps if p[1] in ("po", "pk"))
        ps.insert(at, ("r", "vp", 0, rng.choice(types)))
    return tuple(ps)


def mutate_params(rng, ps, types=PARAM_TYPES):
    ps = list(ps)
    r = rng.random()
    named = [i for i, p in enumerate(ps) if p[1] != "vp"]
    if r < 0.45 and named:  # change one annotation (overlap / shadowing)
        i = rng.choice(named)
        n, k, d, t = ps[i]
        ps[i] = (n, k, d, rng.choice(types))
    elif r < 0.6 and named:  # toggle a default where legal (last positional or a keyword-only)
        cands = [i for i in named if ps[i][1] == "ko"]
        posn = [i for i in named if ps[i][1] in ("po", "pk")]
        if posn:
            nd = [i for i in posn if not ps[i][2]]
            cands.append(nd[-1] if nd else posn[0])
        i = rng.choice(cands)
        n, k, d, t = ps[i]
        ps[i] = (n, k, 1 - d, t)
        # keep "no non-default after default" among positionals
        seen = False
        for j in posn:
            if ps[j][2]:
                seen = True
            elif seen:
                n, k, d, t = ps[j]
                ps[j] = (n, k, 1, t)
    elif r < 0.8:  # add a parameter (different arity / keyword)
        used = {p[0] for p in ps}
        free = [c for c in NAMES if c not in used]
        if free:
            if rng.random() < 0.5:
                ps.append((free[0], "ko", int(rng.random() < 0.5), rng.choice(types)))
            else:
                at = sum(1 for p in ps if p[1] in ("po", "pk"))
                d = 1 if any(p[2] for p in ps[:at]) else int(rng.random() < 0.4)
                ps.insert(at, (free[0], "pk", d, rng.choice(types)))
    elif named:  # drop a parameter
        del ps[rng.choice(named)]
    # positional-only parameters must precede the others; names must stay distinct; order po < pk < vp < ko holds by construction
    return tuple(ps)


def random_set(rng):
    n = rng.choice([2, 2, 3, 3, 4])
    first = valid_params(rng, rng.choice([0, 1, 1, 2, 2, 3]))
    sigs = [(first, rng.choice(RET_TYPES))]
    while len(sigs) < n:
        if rng.random() < 0.55:
            ps = mutate_params(rng, rng.choice(sigs)[0])
        else:
            ps = valid_params(rng, rng.choice([0, 1, 1, 2, 2, 3]))
        r = rng.choice(RET_TYPES) if rng.random() < 0.8 else rng.choice(sigs)[1]
        sigs.append((ps, r))
    return tuple(sigs)


def random_call(rng, sigs, mode):
    """mode: plain | union1 | any | mixed"""
    base = rng.choice(sigs)[0]
    names = sorted({p[0] for s in sigs for p in s[0] if p[1] in ("pk", "ko")})
    npos_max = max(sum(1 for p in ps if p[1] in ("po", "pk")) for ps, _ in sigs)
    has_vp = any(p[1] == "vp" for ps, _ in sigs for p in ps)
    # aim at the shape of one of the overloads most of the time
    if rng.random() < 0.85:
        pos_ps = [p for p in base if p[1] in ("po", "pk")]
        npos = rng.randint(sum(1 for p in pos_ps if p[1] == "po"), len(pos_ps)) if pos_ps else 0
        if any(p[1] == "vp" for p in base) and rng.random() < 0.6:
            npos = len(pos_ps) + rng.randint(0, 2)
        kwn = [p[0] for p in pos_ps[npos:] if not p[2] or rng.random() < 0.5]
        kwn += [p[0] for p in base if p[1] == "ko" and (not p[2] or rng.random() < 0.5)]
    else:
        npos = rng.randint(0, min(3, npos_max + (2 if has_vp else 1)))
        kwn = rng.sample(names, rng.randint(0, min(2, len(names)))) if names else []
        if rng.random() < 0.1:
            kwn.append("z")
    nargs = npos + len(kwn)

    def hint(i):  # the annotation some overload has at this place, to make matches frequent
        if rng.random() < 0.8:
            ps = base if rng.random() < 0.6 else rng.choice(sigs)[0]
            if i < npos:
                pp = [p for p in ps if p[1] in ("po", "pk", "vp")]
                if pp:
                    t = pp[min(i, len(pp) - 1)][3]
                else:
                    return None
            else:
                m = [p for p in ps if p[0] == kwn[i - npos]]
                if not m:
                    return None
                t = m[0][3]
            if t in ARG_PLAIN:
                return t
            if t in UNION_MEMBERS:
                return rng.choice(UNION_MEMBERS[t])
            if t == "obj":
                return rng.choice(ARG_PLAIN)
        return None

    toks = [hint(i) or rng.choice(ARG_PLAIN) for i in range(nargs)]
    if nargs:
        if mode == "union1":
            toks[rng.randrange(nargs)] = rng.choice(ARG_UNION)
        elif mode == "any":
            toks[rng.randrange(nargs)] = rng.choice(["Any", "Any", "Any", "lA"])
            if nargs > 1 and rng.random() < 0.2:
                toks[rng.randrange(nargs)] = "Any"
        elif mode == "mixed":
            for _ in range(2):
                toks[rng.randrange(nargs)] = rng.choice(ARG_UNION + ARG_ANY)
    return (tuple(toks[:npos]), tuple(zip(kwn, toks[npos:])))


def exhaustive_cases(ctx):
    """All sets of 2 (and 3) one-parameter overloads over the core x all single arguments; thorough: also two-parameter
    pairs over a smaller core x all argument pairs."""
    cases = []
    rets2 = [("int", "str"), ("int", "int")]
    for t0, t1 in itertools.product(PARAM_CORE, repeat=2):
        for r0, r1 in rets2:
            sigs = ((((("a", "pk", 0, t0),)), r0), (((("a", "pk", 0, t1),)), r1))
            for a in ARG_ALL:
                cases.append((sigs, ((a,), ())))
    for t0, t1, t2 in itertools.product(PARAM_CORE[:5] + ["A"], repeat=3):
        sigs = ((((("a", "pk", 0, t0),)), "int"), (((("a", "pk", 0, t1),)), "str"), (((("a", "pk", 0, t2),)), "bytes"))
        for a in ["int", "str", "bytes", "B", "L1", "i|s", "i|s|b", "B|s", "Any"]:
            cases.append((sigs, ((a,), ())))
    for t0, t1 in itertools.product(["int", "str", "obj", "i|s", "Any"], repeat=2):
        for sigs in (((((("r", "vp", 0, t0),)), "int"), (((("r", "vp", 0, t1),)), "str")),
                     ((((("a", "pk", 0, t0), ("r", "vp", 0, t0))), "int"), (((("a", "pk", 0, t1),)), "str"))):
            for pos in [(), ("int",), ("str",), ("i|s",), ("Any",), ("int", "str"), ("int", "i|s"), ("i|s", "int"), ("str", "Any")]:
                cases.append((sigs, (pos, ())))
    if ctx.big():
        core = ["int", "str", "obj", "i|s"]
        args = ["int", "str", "bytes", "i|s", "s|b", "Any"]
        for ts in itertools.product(core, repeat=4):
            sigs = ((((("a", "pk", 0, ts[0]), ("b", "pk", 0, ts[1]))), "int"),
                    (((("a", "pk", 0, ts[2]), ("b", "pk", 1, ts[3]))), "str"))
            for a0 in args:
                for a1 in args:
                    cases.append((sigs, ((a0, a1), ())))
                cases.append((sigs, ((a0,), ())))
                cases.append((sigs, ((a0,), (("b", "str"),))))
    return cases


def gen_cases(ctx):
    rng = ctx.rng
    cases = exhaustive_cases(ctx)
    ctx.extra["exhaustive_part"] = "%d cases (all pairs/triples of one-parameter overloads over %s x all single arguments; *args pairs x packs of 0-2%s)" % (
        len(cases), PARAM_CORE, "; all two-parameter pairs over a 4-type core x argument pairs" if ctx.big() else "")
    nsets = ctx.n(450, 9000)
    per = ctx.n(12, 14)
    for _ in range(nsets):
        sigs = random_set(rng)
        seen = set()
        for _ in range(per):
            r = rng.random()
            mode = "plain" if r < 0.5 else "union1" if r < 0.75 else "any" if r < 0.92 else "mixed"
            c = random_call(rng, sigs, mode)
            if c in seen:
                continue
            seen.add(c)
            cases.append((sigs, c))
    return cases


def corpus_cases():
    path = os.path.join(lean.HERE, "corpus", "C08.jsonl")
    out = []
    if os.path.exists(path):
        for l in open(path):
            l = l.strip()
            if l and not l.startswith("#"):
                out.append(case_from_json(json.loads(l)))
    return out


def case_from_json(d):
    sigs = tuple((tuple((p[0], p[1], int(p[2]), p[3]) for p in s[0]), s[1]) for s in d["sigs"])
    call = (tuple(d["call"][0]), tuple((k[0], k[1]) for k in d["call"][1]))
    return (sigs, call)


# ---------------------------------------------------------------- implementation streams
PRELUDE = ["from typing import overload, Any, Literal, Optional, Union", "from harness.universe import A, B"]


def canon_value(v):
    """Canonical text of the value pyanalyze inferred for the call expression (structural decode)."""
    from pyanalyze import value as PV
    if isinstance(v, PV.AnnotatedValue):
        v = v.value
    if isinstance(v, PV.AnyValue):
        if v.source is PV.AnySource.multiple_overload_matches:
            return "multi"
        if v.source is PV.AnySource.error:
            return "anyerr"
        return "any:" + v.source.name
    try:
        return "ok:" + V.ty_sexp(V.value_to_ty(v)).replace(" ", "_")
    except V.Unencodable:
        return "ok:?" + pya.norm(str(v))


def e2e_results(cases):
    """One module per batch. Returns per case dict(out=canonical result, reveal=text, codes=[...])."""
    import ast
    res = []
    B = 1500
    for b0 in range(0, len(cases), B):
        batch = cases[b0:b0 + B]
        sets = {}
        for sigs, _ in batch:
            sets.setdefault(sigs, len(sets))
        src = list(PRELUDE)
        for sigs, i in sets.items():
            for ps, r in sigs:
                src.append("@overload")
                src.append("def f%d(%s) -> %s: ..." % (i, header_src(ps), TYPES[r][0]))
            src.append("def f%d(*args: Any, **kwargs: Any) -> Any: raise NotImplementedError" % i)
        src.append("def run(%s) -> None:" % ", ".join("%s: %s" % (VAR[n], TYPES[n][0]) for n in ARG_ALL))
        base = len(src)
        for sigs, call in batch:
            src.append("    reveal_type(f%d(%s))" % (sets[sigs], call_src(call)))
        try:
            fails, tree, _ = pya.check_source("\n".join(src) + "\n", annotate=True)
        except Exception as e:  # totality is C12's business; here it is a disagreement with the model
            res += [dict(out="EXC:%s" % type(e).__name__, reveal="", codes=[])] * len(batch)
            continue
        per = {}
        for f in fails:
            ln = f["lineno"]
            if ln is not None and ln > base:
                per.setdefault(ln - base - 1, []).append(f)
            elif f["code"] not in ("reveal_type",):
                per.setdefault(-1, []).append(f)
        vals = {}
        for node in ast.walk(tree):
            if isinstance(node, ast.Call) and isinstance(node.func, ast.Name) and node.func.id == "reveal_type" \
                    and node.lineno > base:
                inner = node.args[0]
                vals[node.lineno - base - 1] = getattr(inner, "inferred_value", None)
        for i in range(len(batch)):
            fs = per.get(i, [])
            codes = sorted({f["code"] for f in fs if f["code"] != "reveal_type"})
            reveal = [f["message"] for f in fs if f["code"] == "reveal_type"]
            diag = any(c in ("incompatible_call", "incompatible_argument") for c in codes)
            other = [c for c in codes if c not in ("incompatible_call", "incompatible_argument")]
            v = vals.get(i)
            out = canon_value(v) if v is not None else "novalue"
            if diag:
                out = "err" if out == "anyerr" else "err+" + out
            elif out == "anyerr":
                out = "anyerr-undiagnosed"
            if other:
                out += " other=" + ",".join(other)
            res.append(dict(out=out, reveal=reveal[0] if reveal else "", codes=codes))
        if per.get(-1):
            res[-1]["module_level"] = [(f["lineno"], f["code"], f["message"]) for f in per[-1]][:5]
    return res


def judge_stream(ctx):
    """can_assign_and_used_any on every (parameter type, argument type) pair of the vocabulary vs Lean ca / ua."""
    from pyanalyze.value import can_assign_and_used_any, CanAssignError
    checker = pya.make_checker()
    pairs = [(p, a) for p in PARAM_TYPES for a in ARG_ALL]
    # plus the *args shape: tuple[T, ...] against packs of 0..2 arguments
    packs = [(), ("int",), ("Any",), ("int", "str"), ("int", "Any"), ("i|s",)]
    lines, impl = [], []
    for p, a in pairs:
        e, v = TYPES[p][1], TYPES[a][1]
        lines.append("(judge %s %s)" % (V.ty_sexp(e), V.ty_sexp(v)))
        cm, used = can_assign_and_used_any(V.ty_to_value(e), V.ty_to_value(v), checker)
        ok = not isinstance(cm, CanAssignError)
        impl.append("acc=%d ua=%s" % (ok, int(used) if ok else "x"))
    for p in PARAM_TYPES:
        for pk in packs:
            e = ("generic", CID[tuple], [TYPES[p][1]])
            v = ("seq", CID[tuple], [TYPES[a][1] for a in pk])
            lines.append("(judge %s %s)" % (V.ty_sexp(e), V.ty_sexp(v)))
            cm, used = can_assign_and_used_any(V.ty_to_value(e), V.ty_to_value(v), checker)
            ok = not isinstance(cm, CanAssignError)
            impl.append("acc=%d ua=%s" % (ok, int(used) if ok else "x"))
            pairs.append(("*" + p, pk))
    malformed = [
        "(call (sigs (sig (ps (p k vk 0 any)) any)) (pos) (kws))",      # **kwargs parameter: outside the model
        "(call (sigs (sig (ps (p a xx 0 any)) any)) (pos) (kws))",      # unknown kind
        "(call (sigs) (pos any)",                                        # unbalanced
        "(judge (typed 1))",
        "hello",
    ]
    model = lean.run_driver("C08", lines + malformed)
    for m in model[len(lines):]:
        ctx.corr("malformed")
        ctx.count(1, malformed=1)
        if m != "bad-op":
            ctx.disagree("malformed", {"line": "malformed driver input"}, "bad-op expected", m)
    model = model[:len(lines)]
    for (p, a), i, m in zip(pairs, impl, model):
        ctx.corr("judge")
        mm = m if i.endswith("x") is False else m.split(" ")[0] + " ua=x"
        if i != mm:
            ctx.disagree("judge", {"expected": p, "actual": a}, i, m)
        # the oracle's view of the same pair (plain pairs only)
        if not p.startswith("*"):
            ok, used = accept1(p, a)
            o = "acc=%d ua=%s" % (ok, int(used) if ok else "x")
            ctx.corr("spec")
            if o != i:
                ctx.disagree("spec", {"expected": p, "actual": a, "what": "oracle assignability vs pyanalyze"}, i, o)


def vocab_stream(ctx):
    """The Values pyanalyze really builds for the vocabulary must be the Ty terms sent to the Lean model."""
    import ast
    src = list(PRELUDE)
    src.append("def run(%s) -> None:" % ", ".join("%s: %s" % (VAR[n], TYPES[n][0]) for n in ARG_ALL))
    src.append("    (%s,)" % ", ".join(VAR[n] for n in ARG_ALL))
    ptypes = PARAM_TYPES + [r for r in RET_TYPES if r not in PARAM_TYPES]
    src.append("@overload")
    src.append("def g(%s, *r: int) -> int: ..." % ", ".join("p%d: %s" % (i, TYPES[n][0]) for i, n in enumerate(ptypes)))
    src.append("@overload")
    src.append("def g(*r: str) -> str: ...")
    src.append("def g(*args: Any, **kwargs: Any) -> Any: raise NotImplementedError")
    _, tree, mod = pya.check_source("\n".join(src) + "\n", annotate=True)
    want = {VAR[n]: n for n in ARG_ALL}
    for node in ast.walk(tree):
        if isinstance(node, ast.Name) and node.id in want and isinstance(node.ctx, ast.Load) and hasattr(node, "inferred_value"):
            n = want.pop(node.id)
            ctx.corr("vocab")
            try:
                got = V.ty_sexp(V.value_to_ty(node.inferred_value))
            except V.Unencodable:
                got = "?" + str(node.inferred_value)
            if got != V.ty_sexp(TYPES[n][1]):
                ctx.disagree("vocab", {"variable": n}, got, V.ty_sexp(TYPES[n][1]))
    if want:
        ctx.disagree("vocab", {"missing": sorted(want)}, "no inferred value", "")
    checker = pya.make_checker()
    osig = checker.arg_spec_cache.get_argspec(mod.g)
    sigs = getattr(osig, "signatures", None)
    if not sigs or len(sigs) != 2:
        ctx.disagree("vocab", {"what": "get_argspec of an @overload function"}, str(osig), "OverloadedSignature of 2")
        return
    for i, n in enumerate(ptypes):
        ctx.corr("vocab")
        got = V.ty_sexp(V.value_to_ty(sigs[0].parameters["p%d" % i].annotation))
        if got != V.ty_sexp(TYPES[n][1]):
            ctx.disagree("vocab", {"annotation": n}, got, V.ty_sexp(TYPES[n][1]))
    ctx.corr("vocab")
    got = V.ty_sexp(V.value_to_ty(sigs[0].parameters["r"].annotation))
    if got != "(generic %d (typed %d))" % (CID[tuple], CID[int]):
        ctx.disagree("vocab", {"annotation": "*r: int"}, got, "(generic tuple (typed int))")


# ---------------------------------------------------------------- the check
def classify(call):
    pos, kws = call
    toks = list(pos) + [t for _, t in kws]
    n_any = sum(1 for t in toks if t in ARG_ANY)
    unions = [("p", i) for i, t in enumerate(pos) if t in ARG_UNION] + [("k", n) for n, t in kws if t in ARG_UNION]
    return n_any, unions


def evaluate(ctx, cases, with_model=True):
    impl = e2e_results(cases)
    model = lean.run_driver("C08", [lean_line(s, c) for s, c in cases]) if with_model else None
    for i, (sigs, call) in enumerate(cases):
        case = {"overloads": show_set(sigs), "call": show_call(call),
                "sigs": [[list(map(list, ps)), r] for ps, r in sigs], "callargs": [list(call[0]), [list(k) for k in call[1]]]}
        n_any, unions = classify(call)
        kind = ("plain" if not n_any and not unions else "union1" if not n_any and len(unions) == 1
                else "any" if n_any and not unions else "mixed")
        out = impl[i]["out"]
        acc_o = [accepts_oracle(s, call) for s in sigs]
        binds = [bind_oracle(s[0], call) is not None for s in sigs]
        ctx.count(1, **{"kind_" + kind: 1, "overloads_%d" % len(sigs): 1,
                        "impl_" + (out.split(":")[0] if out.startswith("ok:") else out.split(" ")[0][:12]): 1})
        if any(binds) and (call[0] or call[1]):
            ctx.nontriv(case["overloads"] + "|" + case["call"])
        if any(p[1] == "vp" for s in sigs for p in s[0]):
            ctx.tag("has_varpos")
        if sum(1 for a, _ in acc_o if a) >= 2:
            ctx.tag("several_overloads_accept")
        mres = mfm = macc = mua = None
        dcls = []
        if model is not None:
            parts = dict(x.split("=", 1) for x in model[i].split(" ") if "=" in x)
            mres, mfm, macc, mua = parts.get("res"), parts.get("fm"), parts.get("acc"), parts.get("ua")
            dcls = [] if parts.get("D", "-") == "-" else parts["D"].split(",")
            ctx.tag("model_" + (mres.split(":")[0] if mres else "bad-op"))
            ctx.corr("e2e")
            # spec validation: Lean accepts / firstMatch vs the independent oracle
            ctx.corr("spec")
            if macc != "".join("1" if a else "0" for a, _ in acc_o):
                ctx.disagree("spec", dict(case, what="accepts per overload"), "oracle " + "".join("1" if a else "0" for a, _ in acc_o), model[i])
            else:
                mu = "".join(u if a == "1" else "-" for a, u in zip(macc, mua))
                ou = "".join(("1" if u else "0") if a else "-" for a, u in acc_o)
                if mu != ou:
                    ctx.disagree("spec", dict(case, what="accepted through Any per overload"), "oracle " + ou, model[i])
        if i % 1499 == 0:
            ctx.sample({"overloads": case["overloads"], "call": case["call"], "pyanalyze": out, "reveal_type": impl[i]["reveal"],
                        "model": model[i] if model else None})
        conforms = (mres is None) or (out == mres)

        def cand(what, prefer):
            cls = next((c for c in prefer if c in dcls), None)
            ctx.candidate(case, what, cls=cls, conforms=conforms, stream="e2e")

        def ret_out(r):
            return "ok:" + V.ty_sexp(TYPES[r][1]).replace(" ", "_")

        if kind == "plain":
            fm = first_match_oracle(sigs, call)
            want = "err" if fm is None else ret_out(fm)
            ctx.tag("P1_checked")
            if out != want:
                cand("no Any / no union: pyanalyze gives %s, first match gives %s" % (out, want), [])
        elif kind == "union1":
            slot = unions[0]
            ut = call[0][slot[1]] if slot[0] == "p" else dict(call[1])[slot[1]]
            own = [first_match_oracle(sigs, with_arg(call, slot, m)) for m in UNION_MEMBERS[ut]]
            ctx.tag("P2_checked")
            if all(r is not None for r in own):
                ctx.tag("P2_all_members_accepted")
                if out.startswith("err"):
                    cand("one union argument, every member accepted by some overload (%s) but the call is diagnosed" % own,
                         ["unionInVarPos"])
            if out.startswith("ok:"):
                flat = _flat_of_out(out)
                for m, r in zip(UNION_MEMBERS[ut], own):
                    if r is not None and not set(flat_members(r)) <= flat:
                        cand("one union argument: the result %s does not contain %s, the result of member %s's own call" % (
                            out, TYPES[r][0], m), ["unionInVarPos"])
                        break
        elif kind == "any":
            acc = [s for s, (a, _) in zip(sigs, acc_o) if a]
            if acc:
                first_used = next(u for (a, u) in acc_o if a)
                distinct = any(s[1] != acc[0][1] for s in acc[1:])
                if first_used and distinct:
                    ctx.tag("P3_checked")
                    if out != "multi":
                        cand("Any argument: first accepting overload accepts through Any and another accepting overload returns "
                             "a different type, but the result is %s" % out, [])
                elif not first_used:
                    ctx.tag("P3_first_match_clean")
                else:
                    ctx.tag("P3_single_return_type")
        if mres is not None and out != mres:
            ctx.disagree("e2e", case, out + " | " + impl[i]["reveal"], model[i])


def _flat_of_out(out):
    """Top-level alternatives of an `ok:` result, as s-expression strings."""
    s = out[3:].replace("_", " ")
    if not s.startswith("(union"):
        return {s}
    items, depth, cur = [], 0, ""
    for ch in s[len("(union"):-1]:
        if ch == "(":
            depth += 1
        if depth > 0 or ch != " ":
            cur += ch
        if ch == ")":
            depth -= 1
            if depth == 0:
                items.append(cur.strip())
                cur = ""
        elif depth == 0 and ch == " " and cur.strip():
            items.append(cur.strip())
            cur = ""
    if cur.strip():
        items.append(cur.strip())
    return set(items)


def run(ctx):
    cases = corpus_cases() + gen_cases(ctx)
    vocab_stream(ctx)
    judge_stream(ctx)
    evaluate(ctx, cases)


def run_impl_only(ctx):
    evaluate(ctx, corpus_cases() + gen_cases(ctx), with_model=False)


def replay(ctx, data):
    c = data["case"]
    case = case_from_json({"sigs": c["sigs"], "call": c["callargs"]})
    evaluate(ctx, [case])
    print(json.dumps({"case": {k: c[k] for k in ("overloads", "call")}, "candidates": ctx.candidates, "broken": ctx.broken},
                     indent=1, default=str))
    return 1 if (ctx.candidates or ctx.broken) else 0
