"""C09 — name binding: reaching definitions and (possibly) undefined names.

Skeleton programs (one function body each) over the variables x, y, each for a scope kind of the variables
(local / parameter / `global` / `nonlocal` in a nested function):
  ('asg', v, d)  v = d            every assignment a distinct int literal d
  ('use', v, u)  reveal_type(v)   use number u
  ('call',)      boom()           a call that may raise
  ('if', B, E) ('while', always, B, E) ('for', B, E) ('brk', j) ('cont', j) ('ret',) ('raise',)
  ('try', B, [H...], E, F|None)  ('with', suppresses, B)
No `del`, no statement after return/raise/break/continue in the same block.

Streams
  impl   : the skeletons rendered into one module per batch and checked by pyanalyze: per use the literals in the
           reveal_type text plus undefined_name / possibly_undefined_name
  model  : lake env lean --run Driver/C09.lean: Pya.C09 (Core/Scope.lean: model of FunctionScope + the visitor's control flow),
           Spec/Flow.lean strict/liberal (spec), D-classes
  cfg    : an independent Python CFG reaching-definitions analysis in both modes (mirrors the Lean spec)
  exec   : the skeleton really executed under CPython, opaque conditions driven by all bit strings of length NBITS
Correspondence: impl == model (per use: set of literals, unbound marker, diagnostic code), also on a separate stream
                of skeletons WITH dead code (outside the property; correspondence only);
                Lean spec == Python cfg (both modes); exec observations ⊆ strict (spec validation against CPython).
Property search on the implementation: strict ⊆ reported, exec ⊆ reported, reported ⊆ liberal (at uses that are
reachable at all), and the (possibly_)undefined diagnostics agree with the unbound marker.
"""
import itertools, json, os, re

from harness.common import lean, pya

PROP = "C09"
LEAN_PROP = "PyaModel.Props.C09"
NAMESPACE = "Pya.C09"
LEAN_TARGETS = ["PyaModel.Spec.Flow", "PyaModel.Core.Scope"]
ANCHORS = [
    ("pyanalyze/stacked_scopes.py", "FunctionScope.set"),
    ("pyanalyze/stacked_scopes.py", "FunctionScope.get_local"),
    ("pyanalyze/stacked_scopes.py", "FunctionScope.subscope"),
    ("pyanalyze/stacked_scopes.py", "FunctionScope.loop_scope"),
    ("pyanalyze/stacked_scopes.py", "FunctionScope.suppressing_subscope"),
    ("pyanalyze/stacked_scopes.py", "FunctionScope.get_combined_scope"),
    ("pyanalyze/stacked_scopes.py", "FunctionScope.combine_subscopes"),
    ("pyanalyze/stacked_scopes.py", "FunctionScope._get_value_from_nodes"),
    ("pyanalyze/name_check_visitor.py", "NameCheckVisitor.visit_If"),
    ("pyanalyze/name_check_visitor.py", "NameCheckVisitor.visit_For"),
    ("pyanalyze/name_check_visitor.py", "NameCheckVisitor.visit_While"),
    ("pyanalyze/name_check_visitor.py", "NameCheckVisitor._handle_loop_else"),
    ("pyanalyze/name_check_visitor.py", "NameCheckVisitor.visit_try_except"),
    ("pyanalyze/name_check_visitor.py", "NameCheckVisitor.visit_Try"),
    ("pyanalyze/name_check_visitor.py", "NameCheckVisitor.visit_With"),
    ("pyanalyze/name_check_visitor.py", "NameCheckVisitor.visit_single_cm"),
    ("pyanalyze/name_check_visitor.py", "NameCheckVisitor.visit_Return"),
    ("pyanalyze/name_check_visitor.py", "NameCheckVisitor.visit_Raise"),
    ("pyanalyze/name_check_visitor.py", "NameCheckVisitor.visit_Break"),
    ("pyanalyze/name_check_visitor.py", "NameCheckVisitor.visit_Continue"),
    ("pyanalyze/name_check_visitor.py", "NameCheckVisitor.resolve_name"),
    ("pyanalyze/name_check_visitor.py", "NameCheckVisitor._visit_function_body"),
]
RULE = (
    "function-body skeletons over variables x, y: assignments of distinct int literals, reveal_type uses, calls, "
    "if/else, while (opaque condition or `while True`)/for with break/continue/else, try/except(0-2 handlers)/else/"
    "finally, with (exception-suppressing or not), return, raise. All skeletons with <= N statements over x "
    "(exhaustive, thinned by the seed when above the cap), then seeded random larger ones (two variables, depth <= 4). "
    "Every skeleton is instantiated for a scope kind of its variables: plain local, parameter (x: Literal[0] = 0), "
    "`global` (module binds x = 0; one module-level name per function), `nonlocal` in a nested function (the enclosing "
    "function binds x = 0 and calls it): all four kinds for skeletons of <= 3 statements and for the corpus, a "
    "seed-drawn kind (50/10/20/20 %) for the rest; same oracles, the entry state is the only thing that depends on the kind. "
    "Excluded on purpose (the property does not quantify over them): `del`, and dead statements: statements after "
    "return/raise/break/continue in the same block and, more generally, statements no path of the liberal CFG reaches "
    "(pyanalyze analyses dead code as if it were reachable). Precision (reported ⊆ liberal) is only demanded at uses some liberal path reaches. "
    "A case is non-trivial when it has a compound statement, an assignment and a use; distinct = distinct program text."
)
ASSUMPTIONS = [
    "strict semantics: exception edges at call statements, raise, and at the evaluation of if/while/for conditions and "
    "context-manager expressions (they are calls); a raised exception may be caught by any handler of the innermost "
    "enclosing try (handler selection is opaque) and is not propagated past a try that has handlers; a suppressing "
    "`with` may or may not suppress; `while True` has no false exit",
    "liberal semantics: additionally an exception edge before and after every statement (observable only inside try/with "
    "bodies), exceptions may also pass a try's handlers uncaught, every loop may exit after any iteration bypassing "
    "`else`, `while True` may exit",
    "scope kinds: the CFG semantics is the same for every kind, only the entry state differs -- local: unbound; "
    "parameter: its literal; global / nonlocal: strict = the binding made outside (one call on a fresh module / "
    "enclosing frame), liberal = that binding or any value the function itself assigns (it may have been called before). "
    "A global that the module never binds is not generated (pyanalyze never reports it undefined, by design)",
    "NOT covered: module-level and class-body code (the property says `inside a function`; there is no FunctionScope, names "
    "resolve to the imported module's runtime value), comprehension-bound names, and reads from a nested scope "
    "(lambda / comprehension / nested def): those take the enclosing function's dictionary as it is when the nested scope "
    "is visited -- in the checking phase that is the state LEFT BY the collecting phase, e.g. `(lambda: use(x))(); x = 1` "
    "reports Literal[1] and no undefined name (probe result, see the report)",
    "Generated/ScopeSet.lean: statements of FunctionScope.set by the condition they run under, regenerated from the live "
    "source; obligation scope_set_bookkeeping_registered",
    "each variable is analysed independently (the model tracks one variable; assignments to the other are no-ops for it); "
    "two-variable skeletons exercise this in the correspondence",
    "theorems: soundness (definitions and unbound marker) for all try/with-free skeletons outside loopElse / "
    "secondVisitSeed; precision for all loop-free skeletons without dead code; two-phase lemma for the full syntax. "
    "For try / with skeletons and for precision in loops the verdict rests on the correspondence + search only",
    "execution oracle: all bit strings of length 6 (7 in the thorough tier), at most 12 loop iterations per run",
]
TRUSTED = [
    "Spec/Flow.lean (strict/liberal reaching definitions) is cross-checked on every run against an independent Python CFG "
    "analysis (stream cfg) and against real execution of the skeletons under CPython (stream exec)",
]

VARS = "xy"
NBITS = 6
JUMPS = ("brk", "cont", "ret", "raise")

PRELUDE = '''
from typing import Literal
def cond() -> bool: return True
def seq() -> list[int]: return []
def boom() -> None: pass
class Sup:
    def __enter__(self) -> None: pass
    def __exit__(self, *a: object) -> bool: return True
class NoSup:
    def __enter__(self) -> None: pass
    def __exit__(self, *a: object) -> None: pass
'''


# ---------------------------------------------------------------- rendering
def render(stmts, ind, out, tag, mode="pya", nm=None):
    """mode 'pya': source for pyanalyze; mode 'exec': instrumented source run under CPython.
    nm: variable name -> name in the rendered text (global variants use one module-level name per function)."""
    p = " " * ind
    nm = nm or {}
    if not stmts:
        out.append(p + "pass")
        return
    ex = mode == "exec"
    R = "R." if ex else ""
    for s in stmts:
        k = s[0]
        if k == "asg":
            out.append("%s%s = %d" % (p, nm.get(s[1], s[1]), s[2]))
        elif k == "use":
            if ex:
                out.append("%stry: R.rec(%d, %s)" % (p, s[2], nm.get(s[1], s[1])))
                out.append("%sexcept NameError: R.rec(%d, 'U')" % (p, s[2]))
            else:
                out.append("%sreveal_type(%s)  #%sU%d" % (p, nm.get(s[1], s[1]), tag, s[2]))
        elif k == "call":
            out.append("%s%sboom()" % (p, R))
        elif k == "if":
            out.append("%sif %scond():" % (p, R))
            render(s[1], ind + 4, out, tag, mode, nm)
            if s[2]:
                out.append(p + "else:")
                render(s[2], ind + 4, out, tag, mode, nm)
        elif k in ("while", "for"):
            if k == "while":
                always, body, orelse = s[1], s[2], s[3]
                out.append("%swhile %s:" % (p, "True" if always else R + "cond()"))
            else:
                body, orelse = s[1], s[2]
                out.append("%sfor _ in %sseq():" % (p, R))
            if ex:
                out.append(p + "    R.tick()")
                if body:
                    render(body, ind + 4, out, tag, mode, nm)
            else:
                render(body, ind + 4, out, tag, mode, nm)
            if orelse:
                out.append(p + "else:")
                render(orelse, ind + 4, out, tag, mode, nm)
        elif k == "brk":
            out.append(p + "break")
        elif k == "cont":
            out.append(p + "continue")
        elif k == "ret":
            out.append(p + "return")
        elif k == "raise":
            out.append(p + ("raise R.err()" if ex else "raise ValueError"))
        elif k == "try":
            out.append(p + "try:")
            render(s[1], ind + 4, out, tag, mode, nm)
            hs = s[2]
            for i, h in enumerate(hs):
                out.append("%sexcept %s:" % (p, "KeyError" if (ex and i < len(hs) - 1) else "Exception"))
                render(h, ind + 4, out, tag, mode, nm)
            if s[3]:
                out.append(p + "else:")
                render(s[3], ind + 4, out, tag, mode, nm)
            if s[4] is not None:
                out.append(p + "finally:")
                render(s[4], ind + 4, out, tag, mode, nm)
        elif k == "with":
            out.append("%swith %s%s():" % (p, R, ("sup" if s[1] else "nosup") if ex else ("Sup" if s[1] else "NoSup")))
            render(s[2], ind + 4, out, tag, mode, nm)
        else:
            raise ValueError(k)


# ---------------------------------------------------------------- scope kinds
# How the variables of a skeleton are bound: 'l' plain local (unbound on entry), 'p' parameter with the literal INIT,
# 'g' `global` (module binds INIT), 'n' `nonlocal` in a nested function (the enclosing function binds INIT).
KINDS = "lpgn"
INIT = 0


class Prog(list):
    """A skeleton (list of statements) together with the scope kind of its variables."""
    kind = "l"


def with_kind(prog, kind):
    q = Prog(prog)
    q.kind = kind
    return q


def kind_of(prog):
    return getattr(prog, "kind", "l")


def function_source(prog, idx="", mode="pya"):
    """The lines of the complete rendering of one skeleton for its scope kind (pya: function f<idx>, uses tagged
    F<idx>U<u>; exec: function f(R))."""
    kind = kind_of(prog)
    ex = mode == "exec"
    tag = "F%s" % idx if idx != "" else ""
    fn = "f" if ex else "f%s" % idx
    arg = "R" if ex else ""
    out = []
    if kind == "l":
        out.append("def %s(%s):" % (fn, arg))
        render(prog, 4, out, tag, mode)
    elif kind == "p":
        ps = ", ".join(("%s=%d" if ex else "%s: Literal[%d] = %d") % ((v, INIT) if ex else (v, INIT, INIT)) for v in VARS)
        out.append("def %s(%s):" % (fn, (arg + ", " + ps) if arg else ps))
        render(prog, 4, out, tag, mode)
    elif kind == "g":
        nm = {v: v if ex else "%s%s" % (v, idx) for v in VARS}
        if not ex:
            for v in VARS:
                out.append("%s = %d" % (nm[v], INIT))
        out.append("def %s(%s):" % (fn, arg))
        out.append("    global " + ", ".join(nm[v] for v in VARS))
        render(prog, 4, out, tag, mode, nm)
    elif kind == "n":
        out.append("def %s(%s):" % ("f" if ex else "o%s" % idx, arg))
        for v in VARS:
            out.append("    %s = %d" % (v, INIT))
        inner = "g" if ex else fn
        out.append("    def %s():" % inner)
        out.append("        nonlocal " + ", ".join(VARS))
        render(prog, 8, out, tag, mode)
        out.append("    %s()" % inner)
    else:
        raise ValueError(kind)
    return out


def text(prog):
    return "\n".join(function_source(prog))


def walk(stmts):
    for s in stmts:
        yield s
        k = s[0]
        if k == "if":
            yield from walk(s[1]); yield from walk(s[2])
        elif k == "while":
            yield from walk(s[2]); yield from walk(s[3])
        elif k == "for":
            yield from walk(s[1]); yield from walk(s[2])
        elif k == "try":
            yield from walk(s[1])
            for h in s[2]:
                yield from walk(h)
            yield from walk(s[3])
            if s[4] is not None:
                yield from walk(s[4])
        elif k == "with":
            yield from walk(s[2])


def uses_of(prog):
    return [(s[2], s[1]) for s in walk(prog) if s[0] == "use"]


# ---------------------------------------------------------------- line protocol for the Lean driver
def enc(stmts):
    out = []
    for s in stmts:
        k = s[0]
        if k == "asg":
            out.append("a:%d:%d" % (VARS.index(s[1]), s[2]))
        elif k == "use":
            out.append("u:%d:%d" % (VARS.index(s[1]), s[2]))
        elif k == "call":
            out.append("c")
        elif k == "if":
            out += ["if", "["] + enc(s[1]) + ["]", "["] + enc(s[2]) + ["]"]
        elif k == "while":
            out += ["wh:%d" % int(s[1]), "["] + enc(s[2]) + ["]", "["] + enc(s[3]) + ["]"]
        elif k == "for":
            out += ["for", "["] + enc(s[1]) + ["]", "["] + enc(s[2]) + ["]"]
        elif k == "brk":
            out.append("br:%d" % s[1])
        elif k == "cont":
            out.append("co:%d" % s[1])
        elif k == "ret":
            out.append("ret")
        elif k == "raise":
            out.append("rs")
        elif k == "try":
            out += ["try", "["] + enc(s[1]) + ["]", "{"]
            for h in s[2]:
                out += ["["] + enc(h) + ["]"]
            out += ["}", "["] + enc(s[3]) + ["]"]
            if s[4] is None:
                out.append("nofin")
            else:
                out += ["fin", "["] + enc(s[4]) + ["]"]
        elif k == "with":
            out += ["with:%d" % int(s[1]), "["] + enc(s[2]) + ["]"]
        else:
            raise ValueError(k)
    return out


def line_of(prog):
    k = kind_of(prog)
    pre = [] if k == "l" else ["k:%s:%d" % (k, INIT)]
    return " ".join(pre + enc(prog))


def parse_driver(line):
    """`M 1=1,U!p;2=3 | S 1=1;2=~ | L ... | D=a,b` -> dict"""
    res = {"raw": line}
    if line == "bad-op":
        return res
    for part in line.split(" | "):
        part = part.strip()
        if part.startswith("D="):
            res["D"] = [] if part[2:] == "-" else part[2:].split(",")
            continue
        key, _, body = part.partition(" ")
        d = {}
        for item in body.split(";"):
            if not item:
                continue
            u, _, v = item.partition("=")
            code = None
            if "!" in v:
                v, code = v.split("!")
                code = None if code == "ok" else code
            vals = frozenset(("U" if t == "U" else int(t)) for t in v.split(",") if t not in ("", "~"))
            d[int(u)] = (vals, code) if key == "M" else vals
        res[key] = d
    return res


# ---------------------------------------------------------------- pyanalyze (implementation stream)
_REV = re.compile(r"#F(\d+)U(\d+)")


def pyanalyze_results(progs, batch=400):
    """Per program {use: (frozenset of literals/'U', code)}; code in (None, 'undefined', 'possibly')."""
    results = [None] * len(progs)
    other = {}
    for b0 in range(0, len(progs), batch):
        chunk = progs[b0:b0 + batch]
        src = [PRELUDE]
        for i, p in enumerate(chunk):
            src += function_source(p, str(i))
        code = "\n".join(src) + "\n"
        lines = code.split("\n")
        try:
            fails, _, _ = pya.check_source(code)
        except Exception as e:  # totality is C12's business; here it is a disagreement with the model
            for i in range(len(chunk)):
                results[b0 + i] = "EXC:%s" % type(e).__name__
            continue
        acc = [dict() for _ in chunk]
        for f in fails:
            ln = f["lineno"]
            m = _REV.search(lines[ln - 1]) if ln and 0 < ln <= len(lines) else None
            if not m:
                other[f["code"]] = other.get(f["code"], 0) + 1
                continue
            i, u = int(m.group(1)), int(m.group(2))
            e = acc[i].setdefault(u, {"vals": set(), "codes": set(), "anyerr": False, "n": 0})
            c = f["code"]
            if c == "reveal_type":
                t = f["message"].split("'", 1)[1]
                e["n"] += 1
                for n in re.findall(r"\b\d+\b", t):
                    e["vals"].add(int(n))
                if "Any[error]" in t:
                    e["anyerr"] = True
                if re.sub(r"Literal\[[\d, ]*\]|Any\[error\]|[ |']", "", t):
                    e["vals"].add("?" + t)
            elif c in ("undefined_name", "possibly_undefined_name"):
                e["codes"].add("undefined" if c == "undefined_name" else "possibly")
            else:
                other[c] = other.get(c, 0) + 1
        for i, p in enumerate(chunk):
            d = {}
            for u, _v in uses_of(p):
                e = acc[i].get(u)
                if e is None:
                    d[u] = (frozenset(["?none"]), None)
                    continue
                vals = set(e["vals"])
                codes = sorted(e["codes"])
                if codes or e["anyerr"]:
                    vals.add("U")
                code_ = codes[0] if len(codes) == 1 and e["anyerr"] else (None if not codes and not e["anyerr"] else "?" + ",".join(codes))
                d[u] = (frozenset(vals), code_)
            results[b0 + i] = d
    return results, other


# ---------------------------------------------------------------- independent CFG reaching definitions (oracle)
class Out:
    __slots__ = ("norm", "brk", "cont", "ret", "exc")

    def __init__(self):
        self.norm, self.brk, self.cont, self.ret, self.exc = set(), set(), set(), set(), set()

    def absorb(self, o, norm=False):
        self.brk |= o.brk; self.cont |= o.cont; self.ret |= o.ret; self.exc |= o.exc
        if norm:
            self.norm |= o.norm


class Flow:
    """Reaching definitions of one variable over the structured CFG. A state is the set of definitions that may be
    current ('U' = unbound); the empty set means 'not reachable'. `live` collects the paths of the statements that
    are reached at all."""

    def __init__(self, lib, var):
        self.lib, self.var, self.uses, self.live = lib, var, {}, set()
        self.quiet = 0

    def block(self, stmts, ins, path):
        o = Out()
        cur = set(ins)
        for i, s in enumerate(stmts):
            if not cur:
                break
            if self.lib:
                o.exc |= cur
            r = self.stmt(s, cur, path + (i,))
            o.absorb(r)
            cur = r.norm
            if self.lib:
                o.exc |= cur
        o.norm = cur
        return o

    def loop(self, body, orelse, ins, always, cond_raises, path):
        o = Out()
        head = set(ins)
        self.quiet += 1
        while True:  # least fixpoint of head = ins ∪ back-edges
            r = self.block(body, head, path + ("b",))
            new = head | r.norm | r.cont
            if new == head:
                break
            head = new
        self.quiet -= 1
        r = self.block(body, head, path + ("b",))
        o.ret |= r.ret; o.exc |= r.exc
        if cond_raises:
            o.exc |= head
        after = set(r.brk)
        if self.lib:
            after |= r.norm | r.cont
        if self.lib or not always:
            e = self.block(orelse, head, path + ("e",))
            o.absorb(e)
            after |= e.norm
        o.norm = after
        return o

    def stmt(self, s, ins, path):
        o = Out()
        k = s[0]
        self.live.add(path)
        if k == "asg":
            o.norm = {s[2]} if s[1] == self.var else set(ins)
        elif k == "use":
            if s[1] == self.var and not self.quiet:
                self.uses.setdefault(s[2], set()).update(ins)
            o.norm = set(ins)
        elif k == "call":
            o.norm = set(ins); o.exc = set(ins)
        elif k == "if":
            o.exc |= ins
            o.absorb(self.block(s[1], ins, path + ("t",)), norm=True)
            o.absorb(self.block(s[2], ins, path + ("e",)), norm=True)
        elif k == "while":
            o = self.loop(s[2], s[3], ins, s[1], not s[1], path)
        elif k == "for":
            o = self.loop(s[1], s[2], ins, False, True, path)
        elif k == "brk":
            o.brk = set(ins)
        elif k == "cont":
            o.cont = set(ins)
        elif k == "ret":
            o.ret = set(ins)
        elif k == "raise":
            o.exc = set(ins)
        elif k == "with":
            o.exc |= ins
            b = self.block(s[2], ins, path + ("b",))
            o.absorb(b, norm=True)
            if s[1]:
                o.norm |= b.exc
        elif k == "try":
            body, handlers, orelse, final = s[1], s[2], s[3], s[4]
            b = self.block(body, ins, path + ("b",))
            te = Out()
            te.brk |= b.brk; te.cont |= b.cont; te.ret |= b.ret
            if b.norm:
                te.absorb(self.block(orelse, b.norm, path + ("e",)), norm=True)
            if handlers:
                if b.exc:
                    for hi, h in enumerate(handlers):
                        te.absorb(self.block(h, b.exc, path + ("h", hi)), norm=True)
                if self.lib:
                    te.exc |= b.exc
            else:
                te.exc |= b.exc
            if final is None:
                o = te
            else:
                for kind in ("norm", "brk", "cont", "ret", "exc"):
                    src = getattr(te, kind)
                    if src:
                        r = self.block(final, src, path + ("f",))
                        getattr(o, kind).update(r.norm)
                        o.absorb(r)
        else:
            raise ValueError(k)
        return o


def paths_of(stmts, path=()):
    for i, s in enumerate(stmts):
        p = path + (i,)
        yield p
        k = s[0]
        if k == "if":
            yield from paths_of(s[1], p + ("t",)); yield from paths_of(s[2], p + ("e",))
        elif k == "while":
            yield from paths_of(s[2], p + ("b",)); yield from paths_of(s[3], p + ("e",))
        elif k == "for":
            yield from paths_of(s[1], p + ("b",)); yield from paths_of(s[2], p + ("e",))
        elif k == "with":
            yield from paths_of(s[2], p + ("b",))
        elif k == "try":
            yield from paths_of(s[1], p + ("b",))
            for hi, h in enumerate(s[2]):
                yield from paths_of(h, p + ("h", hi))
            yield from paths_of(s[3], p + ("e",))
            if s[4] is not None:
                yield from paths_of(s[4], p + ("f",))


def cfg_reaching(prog, lib):
    res = {}
    for u, v in uses_of(prog):
        res.setdefault(u, set())
    kind = kind_of(prog)
    for var in VARS:
        fl = Flow(lib, var)
        fl.block(prog, entry_state(prog, var, kind, lib), ())
        for u, vals in fl.uses.items():
            res[u] = set(vals)
    return {u: frozenset(v) for u, v in res.items()}


def entry_state(prog, var, kind, lib):
    """What may be current when the function is entered. The CFG semantics is the same for every scope kind, only
    the entry state differs: a local is unbound, a parameter holds its literal, a global / nonlocal name holds the
    binding made outside and -- liberal reading -- possibly anything the function itself assigns to it (the function
    may have been called before)."""
    if kind == "l":
        return {"U"}
    if kind == "p" or not lib:
        return {INIT}
    return {INIT} | {s[2] for s in walk(prog) if s[0] == "asg" and s[1] == var}


def has_dead_code(prog):
    """Some statement is unreachable even under the liberal semantics."""
    fl = Flow(True, VARS[0])
    fl.block(prog, {"U"}, ())
    return any(p not in fl.live for p in paths_of(prog))


# ---------------------------------------------------------------- real execution (oracle)
class _Stop(BaseException):
    pass


class _Runtime:
    MAXTICKS = 12

    def __init__(self, two_handlers):
        self.two = two_handlers
        self.obs = {}
        self.bits = ()
        self.pos = 0
        self.dead = False
        self.ticks = 0
        outer = self

        class _CM:
            def __init__(self, sup):
                self.s = sup

            def __enter__(self):
                return None

            def __exit__(self, t, e, tb):
                if not self.s or t is None or not issubclass(t, Exception):
                    return False
                return outer.bit()

        self._CM = _CM

    def start(self, bits):
        self.bits, self.pos, self.dead, self.ticks = bits, 0, False, 0

    def bit(self):
        if self.dead or self.pos >= len(self.bits):
            self.dead = True
            raise _Stop()
        self.pos += 1
        return self.bits[self.pos - 1]

    def tick(self):
        self.ticks += 1
        if self.dead or self.ticks > self.MAXTICKS:
            self.dead = True
            raise _Stop()

    def cond(self):
        return self.bit()

    def seq(self):
        while self.bit():
            yield 0

    def err(self):
        if self.two and self.bit():
            return KeyError()
        return ValueError()

    def boom(self):
        if self.bit():
            raise self.err()

    def sup(self):
        return self._CM(True)

    def nosup(self):
        return self._CM(False)

    def rec(self, u, val):
        if not self.dead:
            self.obs.setdefault(u, set()).add(val)


_BITSTRINGS = {}


def execute(prog, nbits=NBITS):
    """Definitions actually observed at each use over all runs with bit strings of length nbits."""
    src = function_source(prog, mode="exec")
    ns = {}
    exec("\n".join(src), ns)
    is_global = kind_of(prog) == "g"
    two = any(s[0] == "try" and len(s[2]) > 1 for s in walk(prog))
    R = _Runtime(two)
    bs = _BITSTRINGS.get(nbits)
    if bs is None:
        bs = _BITSTRINGS[nbits] = list(itertools.product((False, True), repeat=nbits))
    f = ns["f"]
    for bits in bs:
        R.start(bits)
        if is_global:
            for v in VARS:
                ns[v] = INIT
        try:
            f(R)
        except _Stop:
            pass
        except Exception:
            pass
    return {u: frozenset(v) for u, v in R.obs.items()}


# ---------------------------------------------------------------- generators
def _renumber(prog):
    """Give assignments distinct literals 1.., uses 1.., jumps 1.. in program order."""
    ctr = {"d": 0, "u": 0, "j": 0}

    def blk(b):
        return [st(s) for s in b]

    def st(s):
        k = s[0]
        if k == "asg":
            ctr["d"] += 1
            return ("asg", s[1], ctr["d"])
        if k == "use":
            ctr["u"] += 1
            return ("use", s[1], ctr["u"])
        if k in ("brk", "cont"):
            ctr["j"] += 1
            return (k, ctr["j"])
        if k == "if":
            return ("if", blk(s[1]), blk(s[2]))
        if k == "while":
            return ("while", s[1], blk(s[2]), blk(s[3]))
        if k == "for":
            return ("for", blk(s[1]), blk(s[2]))
        if k == "try":
            return ("try", blk(s[1]), [blk(h) for h in s[2]], blk(s[3]), None if s[4] is None else blk(s[4]))
        if k == "with":
            return ("with", s[1], blk(s[2]))
        return s

    return blk(prog)


def enum_blocks(n, inloop, memo, allow_empty=False):
    """All blocks with exactly n statements (nested ones counted) over the single variable x; a jump is last."""
    key = (n, inloop)
    if key in memo:
        return memo[key]
    res = []
    if n == 0:
        res.append(())
    else:
        for first_size in range(1, n + 1):
            for s in enum_stmts(first_size, inloop, memo):
                if s[0] in JUMPS:
                    if first_size == n:
                        res.append((s,))
                    continue
                for rest in enum_blocks(n - first_size, inloop, memo):
                    res.append((s,) + rest)
    memo[key] = res
    return res


def enum_stmts(n, inloop, memo):
    key = ("s", n, inloop)
    if key in memo:
        return memo[key]
    res = []
    if n == 1:
        res += [("asg", "x", 0), ("use", "x", 0), ("call",), ("ret",), ("raise",)]
        if inloop:
            res += [("brk", 0), ("cont", 0)]
    else:
        m = n - 1  # statements inside
        # if: body >= 1
        for a in range(1, m + 1):
            for b in enum_blocks(a, inloop, memo):
                for e in enum_blocks(m - a, inloop, memo):
                    res.append(("if", b, e))
        # loops: body >= 1
        for a in range(1, m + 1):
            for b in enum_blocks(a, True, memo):
                for e in enum_blocks(m - a, inloop, memo):
                    res.append(("while", False, b, e))
                    res.append(("while", True, b, e))
                    res.append(("for", b, e))
        # with
        for b in enum_blocks(m, inloop, memo):
            res.append(("with", True, b))
            res.append(("with", False, b))
        # try: body >= 1; one handler (possibly empty) [+ else] [+ finally], or no handler + finally
        for a in range(1, m + 1):
            for b in enum_blocks(a, inloop, memo):
                rest = m - a
                for h in range(0, rest + 1):
                    for hb in enum_blocks(h, inloop, memo):
                        for e in range(0, rest - h + 1):
                            for eb in enum_blocks(e, inloop, memo):
                                f = rest - h - e
                                if f == 0:
                                    res.append(("try", b, (hb,), eb, None))
                                for fb in enum_blocks(f, inloop, memo):
                                    res.append(("try", b, (hb,), eb, fb))
                for fb in enum_blocks(rest, inloop, memo):
                    res.append(("try", b, (), (), fb))
    memo[key] = res
    return res


def _listify(b):
    def st(s):
        k = s[0]
        if k == "if":
            return ("if", _listify(s[1]), _listify(s[2]))
        if k == "while":
            return ("while", s[1], _listify(s[2]), _listify(s[3]))
        if k == "for":
            return ("for", _listify(s[1]), _listify(s[2]))
        if k == "try":
            return ("try", _listify(s[1]), [_listify(h) for h in s[2]], _listify(s[3]), None if s[4] is None else _listify(s[4]))
        if k == "with":
            return ("with", s[1], _listify(s[2]))
        return s
    return [st(s) for s in b]


def exhaustive(maxn):
    memo = {}
    out = []
    for n in range(1, maxn + 1):
        for b in enum_blocks(n, False, memo):
            kinds = [s[0] for s in walk(b)]
            if "use" not in kinds or has_dead_code(b):
                continue
            out.append(b)
    return out


def random_prog(rng, budget=12, depth=3, nvars=2, allow_dead=False):
    """A random skeleton. allow_dead=True also produces statements after return/raise/break/continue and other
    unreachable code (outside the property's domain; used for the correspondence only)."""
    vs = VARS[:nvars]

    def gen(depth, inloop, budget, top=False):
        n = rng.randint(1, 3 if not top else 4)
        out = []
        for _ in range(n):
            if budget[0] <= 0:
                break
            if out and out[-1][0] in JUMPS and not (allow_dead and rng.random() < 0.5):
                break
            budget[0] -= 1
            ch = rng.random()
            v = vs[0] if rng.random() < 0.8 else rng.choice(vs)
            if ch < 0.28:
                out.append(("asg", v, 0))
            elif ch < 0.46:
                out.append(("use", v, 0))
            elif ch < 0.51:
                out.append(("call",))
            elif depth > 0 and ch < 0.62:
                out.append(("if", gen(depth - 1, inloop, budget), gen(depth - 1, inloop, budget) if rng.random() < 0.6 else []))
            elif depth > 0 and ch < 0.71:
                out.append(("while", rng.random() < 0.25, gen(depth - 1, True, budget),
                            gen(depth - 1, inloop, budget) if rng.random() < 0.3 else []))
            elif depth > 0 and ch < 0.77:
                out.append(("for", gen(depth - 1, True, budget), gen(depth - 1, inloop, budget) if rng.random() < 0.3 else []))
            elif depth > 0 and ch < 0.86:
                body = gen(depth - 1, inloop, budget)
                hs = [gen(depth - 1, inloop, budget) if rng.random() < 0.8 else [] for _ in range(rng.choice([0, 1, 1, 1, 2]))]
                fin = gen(depth - 1, inloop, budget) if (rng.random() < 0.35 or not hs) else None
                els = gen(depth - 1, inloop, budget) if hs and rng.random() < 0.3 else []
                out.append(("try", body, hs, els, fin))
            elif depth > 0 and ch < 0.91:
                out.append(("with", rng.random() < 0.6, gen(depth - 1, inloop, budget)))
            elif inloop and ch < 0.955:
                out.append((rng.choice(["brk", "cont"]), 0))
            elif ch < 0.98:
                out.append(("ret",))
            else:
                out.append(("raise",))
        return out

    while True:
        p = gen(depth, False, [budget], top=True)
        if not p or p[-1][0] not in JUMPS:
            p.append(("use", vs[0], 0))
        if allow_dead or not has_dead_code(p):
            return _renumber(p)


# ---------------------------------------------------------------- translator
def _lean_strs(xs):
    return "[" + ", ".join('"%s"' % x.replace("\\", "\\\\").replace('"', '\\"') for x in xs) + "]"


def scan_scope_set(repo):
    """Classify the statements of FunctionScope.set (the one place where an assignment enters the bookkeeping):
    decl     -- the branch for `value` being a ReferencingValue (the global / nonlocal declaration itself)
    always   -- executed for every assigned value, whatever backs the name
    if_ref / if_not_ref -- only when the name is / is not backed by a ReferencingValue
    other    -- under any other condition."""
    import ast
    tree = ast.parse(open(os.path.join(repo, "pyanalyze", "stacked_scopes.py")).read())
    fn = None
    for node in ast.walk(tree):
        if isinstance(node, ast.ClassDef) and node.name == "FunctionScope":
            for ch in node.body:
                if isinstance(ch, ast.FunctionDef) and ch.name == "set":
                    fn = ch
    if fn is None:
        raise ValueError("FunctionScope.set not found")
    res = {"decl": [], "always": [], "if_ref": [], "if_not_ref": [], "other": []}

    def norm(st):
        return " ".join(ast.unparse(st).split())

    def is_ref_test(t, name):
        return (isinstance(t, ast.Call) and isinstance(t.func, ast.Name) and t.func.id == "isinstance"
                and len(t.args) == 2 and isinstance(t.args[0], ast.Name) and t.args[0].id == name
                and isinstance(t.args[1], ast.Name) and t.args[1].id == "ReferencingValue")

    for st in fn.body:
        if isinstance(st, ast.Expr) and isinstance(st.value, ast.Constant) and isinstance(st.value.value, str):
            continue
        if isinstance(st, ast.If) and is_ref_test(st.test, "value"):
            res["decl"] += [norm(x) for x in st.body]
            res["always"] += [norm(x) for x in st.orelse]  # not a declaration
        elif isinstance(st, ast.If) and is_ref_test(st.test, "ref_var"):
            res["if_ref"] += [norm(x) for x in st.body]
            res["if_not_ref"] += [norm(x) for x in st.orelse]
        elif isinstance(st, ast.If):
            res["other"].append(norm(st))
        else:
            res["always"].append(norm(st))
    return res


def translate(ctx):
    repo = os.environ.get("VERIF_REPO", "/repo")
    r = scan_scope_set(repo)
    ctx.extra["scope_set_scan"] = r
    text = (
        "/-! Regenerated on every run by `translate` in harness/props/c09.py from the live\n"
        "`pyanalyze/stacked_scopes.py`: the statements of `FunctionScope.set`, by the condition they run under.\n"
        "DO NOT EDIT. -/\n"
        "namespace Pya.C09\n\n"
        "/-- `value` is a ReferencingValue: the `global` / `nonlocal` declaration itself -/\n"
        "def setDecl : List String := %s\n\n"
        "/-- executed for every assignment, whatever backs the name -/\n"
        "def setAlways : List String := %s\n\n"
        "/-- only for a name backed by a ReferencingValue (declared `global` / `nonlocal`) -/\n"
        "def setIfRef : List String := %s\n\n"
        "/-- only for a name NOT backed by a ReferencingValue -/\n"
        "def setIfNotRef : List String := %s\n\n"
        "/-- under some other condition -/\n"
        "def setOther : List String := %s\n\n"
        "end Pya.C09\n" % tuple(_lean_strs(r[k]) for k in ("decl", "always", "if_ref", "if_not_ref", "other")))
    lean.write_if_changed(os.path.join(lean.LEAN, "PyaModel", "Generated", "ScopeSet.lean"), text)


# ---------------------------------------------------------------- the check
def corpus_cases():
    path = os.path.join(lean.HERE, "corpus", "C09.jsonl")
    out = []
    if os.path.exists(path):
        for l in open(path):
            l = l.strip()
            if l:
                d = json.loads(l)
                prog = _from_json(d["prog"])
                # every corpus skeleton is run for every scope kind (or only the one it names)
                for k in (d["kind"] if "kind" in d else KINDS):
                    out.append(with_kind(prog, k))
    return out


def _from_json(b):
    def st(s):
        k = s[0]
        if k == "if":
            return ("if", _from_json(s[1]), _from_json(s[2]))
        if k == "while":
            return ("while", bool(s[1]), _from_json(s[2]), _from_json(s[3]))
        if k == "for":
            return ("for", _from_json(s[1]), _from_json(s[2]))
        if k == "try":
            return ("try", _from_json(s[1]), [_from_json(h) for h in s[2]], _from_json(s[3]),
                    None if s[4] is None else _from_json(s[4]))
        if k == "with":
            return ("with", bool(s[1]), _from_json(s[2]))
        return tuple(s)
    return [st(s) for s in b]


def gen_cases(ctx):
    cases = []
    maxn = ctx.n(4, 5)
    ex = exhaustive(maxn)
    ctx.extra["exhaustive_part"] = "all %d skeletons over x with <= %d statements and at least one use" % (len(ex), maxn)
    cap = ctx.n(11000, 36000)
    if len(ex) > cap:
        small = [b for b in ex if sum(1 for _ in walk(b)) <= maxn - 1]
        big = [b for b in ex if sum(1 for _ in walk(b)) == maxn]
        ctx.rng.shuffle(big)
        ex = small + big[:max(0, cap - len(small))]
        ctx.extra["exhaustive_part"] += "; the %d-statement layer sampled down by the seed to %d in total" % (maxn, len(ex))
    # scope kinds: the skeletons with <= 3 statements are instantiated for every kind; the larger ones get a kind
    # drawn by the seed (half plain locals, the rest parameters / global / nonlocal)
    for b in ex:
        prog = _renumber(_listify(b))
        if sum(1 for _ in walk(prog)) <= 3:
            cases += [with_kind(prog, k) for k in KINDS]
        else:
            cases.append(with_kind(prog, random_kind(ctx.rng)))
    nrand = ctx.n(5000, 22000)
    for i in range(nrand):
        r = ctx.rng.random()
        if r < 0.5:
            q = random_prog(ctx.rng, budget=10, depth=3)
        elif r < 0.85:
            q = random_prog(ctx.rng, budget=14, depth=4)
        else:
            q = random_prog(ctx.rng, budget=22, depth=4)
        cases.append(with_kind(q, random_kind(ctx.rng)))
    return cases


def random_kind(rng):
    r = rng.random()
    return "l" if r < 0.5 else "p" if r < 0.6 else "g" if r < 0.8 else "n"


def _fmt(s):
    return "{" + ",".join(str(x) for x in sorted(s, key=lambda t: (isinstance(t, str), t))) + "}"


PRIORITY = ["jumpThroughFinally", "jumpOutOfFinally", "loopJumpInSuppressing", "suppressingInFinally", "loopElse",
            "secondVisitSeed", "loopBreak", "nestedLoopJump"]


def pick_class(dcls):
    for c in PRIORITY:
        if c in dcls:
            return c
    return dcls[0] if dcls else None


def evaluate(ctx, cases, with_model=True, prop=True, stream="impl"):
    """prop=False: cases outside the property's domain (dead code): correspondence implementation == model only."""
    model = None
    futs = None
    if with_model:
        # the Lean driver runs in parallel chunks while pyanalyze works in this thread
        import concurrent.futures
        lines = [line_of(p) for p in cases]
        nchunk = max(1, min(8, len(lines) // 400))
        size = (len(lines) + nchunk - 1) // nchunk
        pool = concurrent.futures.ThreadPoolExecutor(max_workers=nchunk)
        futs = [pool.submit(lean.run_driver, "C09", lines[i:i + size]) for i in range(0, len(lines), size)]
    try:
        impl, other = pyanalyze_results(cases)
    except BaseException:
        if futs:
            pool.shutdown(wait=False, cancel_futures=True)
        raise
    if other:
        ctx.extra["other_codes"] = other
    if futs is not None:
        model = []
        try:
            for f in futs:
                model += [parse_driver(l) for l in f.result()]
        finally:
            pool.shutdown(wait=True)
    nbits = ctx.n(NBITS, NBITS + 1)
    for i, prog in enumerate(cases):
        kinds = set(s[0] for s in walk(prog))
        compound = kinds & {"if", "while", "for", "try", "with"}
        tags = {("has_" + k): 1 for k in kinds if k in ("if", "while", "for", "try", "with", "brk", "cont", "ret", "raise")}
        size = sum(1 for _ in walk(prog))
        tags["size_%s" % (size if size < 10 else "10+")] = 1
        tags["kind_" + {"l": "local", "p": "param", "g": "global", "n": "nonlocal"}[kind_of(prog)]] = 1
        ctx.count(1, **tags)
        src = text(prog)
        if compound and "asg" in kinds and "use" in kinds:
            ctx.nontriv(src)
        case = {"src": src, "prog": list(prog), "kind": kind_of(prog)}
        strict = cfg_reaching(prog, False)
        liberal = cfg_reaching(prog, True)
        observed = execute(prog, nbits if i % 3 == 0 else NBITS)
        rep = impl[i]
        m = model[i] if model is not None else None
        if i % 1499 == 0:
            ctx.sample({"src": src, "pyanalyze": {u: _fmt(v[0]) for u, v in rep.items()} if isinstance(rep, dict) else rep,
                        "strict": {u: _fmt(v) for u, v in strict.items()}, "liberal": {u: _fmt(v) for u, v in liberal.items()},
                        "model": m["raw"] if m else None})
        dcls = []
        conforms = True
        if m is not None:
            if "M" not in m:
                ctx.disagree("model", case, "driver: " + m["raw"], "-")
                continue
            dcls = m.get("D", [])
            for c in dcls:
                ctx.tag("D_" + c)
            # correspondence: implementation == model
            ctx.corr(stream)
            mm = m["M"]
            if not isinstance(rep, dict) or {u: (v[0], v[1]) for u, v in rep.items()} != mm:
                conforms = False
                ctx.disagree(stream, case,
                             {u: [_fmt(v[0]), v[1]] for u, v in rep.items()} if isinstance(rep, dict) else rep,
                             {u: [_fmt(v[0]), v[1]] for u, v in mm.items()})
            # spec validation: Lean spec == independent Python CFG analysis
            ctx.corr("cfg")
            if m["S"] != strict or m["L"] != liberal:
                ctx.disagree("cfg", case, {"strict": {u: _fmt(v) for u, v in strict.items()},
                                           "liberal": {u: _fmt(v) for u, v in liberal.items()}},
                             {"strict": {u: _fmt(v) for u, v in m["S"].items()},
                              "liberal": {u: _fmt(v) for u, v in m["L"].items()}})
            # spec validation: what really happens under CPython is a strict path
            ctx.corr("exec")
            for u, obs in observed.items():
                if not obs <= m["S"].get(u, frozenset()):
                    ctx.disagree("exec", dict(case, use=u), "observed " + _fmt(obs), "strict " + _fmt(m["S"].get(u, ())))
                    break
        if not isinstance(rep, dict) or not prop:
            continue
        cls = pick_class(dcls)
        for u, (vals, code) in sorted(rep.items()):
            s, l, o = strict.get(u, frozenset()), liberal.get(u, frozenset()), observed.get(u, frozenset())
            what = None
            if not o <= vals:
                what = "use %d: executed with %s but pyanalyze reports %s" % (u, _fmt(o - vals), _fmt(vals))
            elif not s <= vals:
                what = "use %d: %s reach it on a strict path but pyanalyze reports %s" % (u, _fmt(s - vals), _fmt(vals))
            elif l and not vals <= l:
                what = "use %d: pyanalyze reports %s which reach it on no path (liberal: %s)" % (u, _fmt(vals - l), _fmt(l))
            elif code is not None and code.startswith("?"):
                what = "use %d: inconsistent diagnostics %s for reported %s" % (u, code, _fmt(vals))
            elif (code is not None) != ("U" in vals):
                what = "use %d: diagnostic %s but unbound marker %s" % (u, code, "U" in vals)
            if what:
                if "U" in (o - vals) or "U" in (s - vals):
                    what += " [unbound use not reported]"
                ctx.candidate(dict(case, use=u), what, cls=cls, conforms=conforms, stream="impl")
                break


def dead_cases(ctx):
    """Skeletons WITH dead code: outside the property, but the model must still agree with pyanalyze on them."""
    out = []
    while len(out) < ctx.n(600, 4000):
        p = random_prog(ctx.rng, budget=12, depth=3, allow_dead=True)
        if has_dead_code(p):
            out.append(with_kind(p, random_kind(ctx.rng)))
    return out


def malformed(ctx):
    """The driver rejects what is not a skeleton."""
    bad = ["", "if [ a:0:1", "a:0", "try [ ] { [ ] [ ] nofin", "wh:1 [ ] ]", "u:x:1", "foo", "if [ ] [ ] ]"]
    good = ["a:0:1 u:0:1", "if [ ] [ ]"]
    res = lean.run_driver("C09", [b if b else " " for b in bad] + good)
    for line, r in zip(bad + good, res):
        ctx.corr("malformed")
        ctx.count(1, malformed=1)
        if (r == "bad-op") != (line in bad and line != ""):
            if line == "" and r != "bad-op":
                continue  # the empty skeleton is a valid (empty) program
            ctx.disagree("malformed", {"line": line}, "expected %s" % ("bad-op" if line in bad else "a result"), r)


def run(ctx):
    cases = corpus_cases() + gen_cases(ctx)
    evaluate(ctx, cases)
    evaluate(ctx, dead_cases(ctx), prop=False, stream="impl-deadcode")
    malformed(ctx)


def run_impl_only(ctx):
    evaluate(ctx, corpus_cases() + gen_cases(ctx), with_model=False)


def replay(ctx, data):
    case = data["case"]
    prog = with_kind(_from_json(case["prog"]), case.get("kind", "l"))
    evaluate(ctx, [prog])
    print(text(prog))
    print(json.dumps({"candidates": [{k: c[k] for k in ("what", "class", "conforms")} for c in ctx.candidates],
                      "broken": ctx.broken}, indent=1, default=str))
    return 1 if (ctx.candidates or ctx.broken) else 0
