"""C10 — diagnostics are deterministic and independent of prior checks.

Streams
  sites   : AST scan of the anchored files for set-iteration sites -> Generated/SetSites.lean (translate);
            obligation `sites_registered` (every scanned site has a modelled kind) is proved by `decide`
  site-*  : per order site, the real function (API level or through a checked program) against the Lean site
            function: the repaired sites (keyword names, format keys, protocol members, `or` constraints) must give
            exactly the model's text; the open sites (definition-node sets) are fed with the iteration order observed
            in this process (`perm=1`: a reordering of the expected set; `out=`: reproduced exactly)
  caches  : AST scan of the per-Checker classes for container attributes -> Generated/CacheSites.lean (translate);
            obligation `caches_registered` (every one has a kind in Lean `modelledCaches`)
  cache   : after every program of a history (and after every API query) every entry of the containers registered as
            memo / protoCache is rendered; an entry present earlier must render the same later (immutable after
            insertion), transient containers must be empty between checks
  procreg : AST scan of every non-test pyanalyze module for process-level state (module-level containers and instances
            of classes with container fields, class-level containers, memoising decorators) and for every `id(…)` used
            as a key / hash / membership test -> Generated/CacheSites.lean; obligations `proc_state_registered`,
            `id_keys_registered`
  procstate: pairs (history H, program P) that share a variable NAME narrowed in one branch and used after it (attribute,
            module global, closure variable) with different types, run in fresh interpreters: P alone / H then P with
            one Checker / H then P with a fresh Checker each, the AST of H dropped (gc) before P is parsed; the
            diagnostics of P must be equal, the process-level containers must keep their entries, and a key component
            that looks like an address must belong to a live object
  memokeys: every store `<memo table>[key] = value` with the parameters the value is computed from and those the key
            mentions -> Generated/CacheKeys.lean; obligation `memo_keys_cover_parameters` (waivers registered in Lean)
  routes  : one typeshed / stub member reached through a class-level route (override check, type[X] receiver, class
            object) and an instance-level route (protocol compatibility, attribute of an instance, call): P fresh vs P
            after one H of the other level with the same Checker, both directions
  memo-key: the methods that store into memo tables are wrapped in this process; two fresh computations stored under the
            same key with different arguments and different values are a candidate
  interp  : AST scan for reads of interpreter-global state (sys.*, os.environ) and import calls -> Generated/
            InterpreterState.lean; obligation `interpreter_state_reads_registered` (an equality)
  importstate: H imports a stdlib submodule at module level, P imports it lazily inside a function (dotted / as / from)
            and uses it; P alone vs after H, and the reverse order, in fresh interpreters
  unify   : value.py unify_bounds_maps against the pure Lean `unifyBM`; its arguments must be unchanged afterwards
            and the result must not share a list with them
  memo    : Checker.make_type_object / ArgSpecCache.get_argspec / _get_generic_bases_cached driven with query
            histories; hit/miss/bypass trace and table size against `memoStep`; answers against a fresh checker
  proto   : GenericValue(P, [int | str | T]).can_assign(C, checker) along histories of queries (normal /
            set_exclude_any) over generated protocol worlds (mutually recursive generic protocols, Any-typed members,
            type-variable slots) against `check`: verdict AND returned bounds map; after each answer the harness
            unifies it with another bound, as the call machinery does for `f(a: P[T], b: T)`
  protoE2E: the same worlds as library modules + generated programs (annotated assignments, @evaluated
            is_of_type), checked through NameCheckVisitor with one shared Checker
  spec    : fresh answers of the implementation against the greatest fixed point `gfpCompat` and, for
            well-founded worlds, `sem`; `isort` against Python's `sorted`
Property search (direct, oracle = the implementation compared with itself under a changed schedule / history):
  generated programs are checked (i) in fresh subprocesses under several PYTHONHASHSEED values, (ii) several
  times in one process, (iii) after histories of other generated programs with one shared Checker; rendered
  diagnostics (line, column, code, full text, module tokens normalised, sorted by position only) must be equal.
Classes still open in /repo: tryDefNodeOrder, defNodeSetOrder (order), cyclicBoundsOrder (history: member order of a
solved type variable in recursive generic protocols). Every other class has been repaired in /repo
(… typeObjectStr 99947e4, inSetLiteralOrder c06bd97, cacheUnderFailedAssumption 5ad1557) and is not accepted any more. The six
classes repaired by a944eb3, 24b231d, da6a3f3, 5fee81d, e01ac16 are no longer accepted: a re-appearance is a new
violation (their witnesses stay in corpus/C10.jsonl).
"""
import ast, hashlib, importlib, io, itertools, json, os, re, subprocess, sys, textwrap, contextlib

from harness.common import lean, pya

PROP = "C10"
LEAN_PROP = "PyaModel.Props.C10"
NAMESPACE = "Pya.C10"
LEAN_TARGETS = ["PyaModel.Spec.CacheSpec", "PyaModel.Generated.SetSites", "PyaModel.Generated.CacheSites",
                "PyaModel.Generated.CacheVariant", "PyaModel.Generated.CacheKeys", "PyaModel.Generated.InterpreterState"]
CACHE_FILES = ["pyanalyze/checker.py", "pyanalyze/arg_spec.py", "pyanalyze/type_object.py", "pyanalyze/typeshed.py",
               "pyanalyze/reexport.py", "pyanalyze/suggested_type.py"]
SCAN_FILES = [
    "pyanalyze/value.py", "pyanalyze/stacked_scopes.py", "pyanalyze/signature.py", "pyanalyze/type_object.py",
    "pyanalyze/checker.py", "pyanalyze/name_check_visitor.py", "pyanalyze/arg_spec.py", "pyanalyze/format_strings.py",
    "pyanalyze/predicates.py",
]
ANCHORS = [
    ("pyanalyze/type_object.py", "TypeObject.can_assign"),
    ("pyanalyze/type_object.py", "TypeObject._is_compatible_with_protocol"),
    ("pyanalyze/type_object.py", "TypeObject.__str__"),
    ("pyanalyze/checker.py", "Checker.make_type_object"),
    ("pyanalyze/checker.py", "Checker.can_assume_compatibility"),
    ("pyanalyze/checker.py", "Checker.assume_compatibility"),
    ("pyanalyze/checker.py", "Checker._get_recursive_typeshed_bases"),
    ("pyanalyze/arg_spec.py", "ArgSpecCache._cached_get_argspec"),
    ("pyanalyze/arg_spec.py", "ArgSpecCache._get_generic_bases_cached"),
    ("pyanalyze/stacked_scopes.py", "OrConstraint.apply"),
    ("pyanalyze/stacked_scopes.py", "Constraint.apply_to_value"),
    ("pyanalyze/stacked_scopes.py", "_constrain_value"),
    ("pyanalyze/stacked_scopes.py", "FunctionScope.suppressing_subscope"),
    ("pyanalyze/stacked_scopes.py", "FunctionScope._resolve_origin"),
    ("pyanalyze/signature.py", "Signature.bind_arguments"),
    ("pyanalyze/format_strings.py", "PercentFormatString.accept_mapping_args_no_mvv"),
    ("pyanalyze/value.py", "unite_values"),
    ("pyanalyze/value.py", "annotate_value"),
    ("pyanalyze/value.py", "intersect_bounds_maps"),
]
RULE = (
    "programs: modules of 2..5 functions, each one snippet whose diagnostic text contains a set, a union or a "
    "protocol (unexpected keyword arguments with 1..5 extra names; %-format with 1..5 missing keys; protocols with "
    "1..5 members against classes lacking / contradicting 0..all of them, as argument and as assignment; "
    "`isinstance … or …` chains of 2..5 tests over local class hierarchies and builtins on object / Any / declared "
    "unions, with reveal_type; 1..4 assignments inside try / `with contextlib.suppress` bodies with reveal_type "
    "afterwards; variables with 2..5 definitions (if/elif/else) narrowed and revealed) plus plain control snippets; "
    "one-query programs (annotated assignment = normal mode, @evaluated is_of_type = exclude-Any mode) over typeshed "
    "protocols x builtin values and over generated protocol worlds imported as a shared library module; calls of "
    "generic callables whose generic Protocol parameter is matched structurally while another parameter uses the same "
    "type variable, several times per callable and receiver with different other arguments, with reveal_type / "
    "wrong-return / wrong-argument probes (typeshed: pow, sum, max/min, sorted, divmod, round, abs, iter/next over "
    "Fraction / int / float / str / complex / list / dict receivers; generated: lib.f<i>(c, arg) with def f<i>(a: "
    "P<i>[T], b: T) -> T over the well-founded worlds); small "
    "parameter values enumerated first, then seeded random ones. Every program is checked fresh, again with the same "
    "Checker, under 4 (quick) / 8 (thorough) PYTHONHASHSEED values in fresh interpreters, and at a random position of "
    "3 (quick) / 10 (thorough) random orders of all programs of the run, each order sharing one Checker. Protocol "
    "worlds: 1..3 generic protocols P[T] x 1..3 classes, 1..2 members of 1..2 slots (int / T / P[T] / P[int] / P[str]) "
    "against (int / str / Any / class / missing); the 60 worlds of the smallest mutually recursive shape enumerated "
    "(12 sampled by the seed in the quick tier), then random ones; per world one history of 7..10 queries over both "
    "modes and both instantiations. For one-query programs only the head line of a diagnostic is compared (the detail "
    "lines are exercised by the protocol snippets). A case is non-trivial when its diagnostics are non-empty "
    "(programs) / the world has a nested or Any slot (worlds)"
)
ASSUMPTIONS = [
    "the AST scan is syntactic: it recognises set-typed expressions by constructor, annotation and local data flow, and "
    "records a set handed to another function as one site without following it into the callee; a set that reaches an "
    "iteration through an un-annotated parameter or attribute is not seen (the subprocess differential search is the "
    "back-stop; it is how the definition-node sites were found)",
    "hash seeds sampled: 4 (quick) / 8 (thorough) values per run; memory-layout variation = repeated checks in one "
    "process; a dependence that needs a rarer schedule is not found",
    "`unrelated earlier programs` = other generated programs of the same run; they may import the same generated "
    "library module and the same typeshed/builtin types (programs sharing a dependency), never each other",
    "Model B abstracts one slot check `expected.can_assign(actual)` to an atom (true / false / true-unless-Any-is-"
    "excluded / accepted-with-a-bound / nested protocol check); a positive answer is a bounds map of tokens (the kinds "
    "of bounds and the solving of type variables are not modelled); Lean values are immutable, so that no Python "
    "operation writes into a cached value is checked by the cache snapshots and the unify stream, not proved; "
    "process-level state is registered by a syntactic scan (module-level assignments, class bodies, decorators); "
    "state created otherwise (setattr, closures, C extensions) and the content of lru_cache tables are not seen; the "
    "liveness check of address-like key components uses gc.get_objects (objects not tracked by the gc would look dead; "
    "none are keyed today); large process-level memo tables are re-rendered in rotating parts; for typeshed protocols "
    "the atom of a pair is measured on fresh checkers (both modes) and only protocols whose verdict is the protocol "
    "check alone are used",
    "ArgSpecCache._cached_get_argspec keys its table by the object only although the computation also receives "
    "`impl` and `is_asynq`: the memo theorem has the explicit hypothesis that these do not change the result "
    "(KeyDetermines); the generated programs never vary them",
    "the model's fuel (number of (protocol, class) pairs + 2) stands for Python's unbounded recursion, which the "
    "recursion guard stops after at most that many nested calls",
    "which variant of the protocol cache the implementation has (/repo: key = value + mode + generic arguments, stored "
    "only while no assumption is in force) is read off the source of TypeObject.can_assign by translate "
    "(Generated/CacheVariant.lean; `check` follows the flag, `cache_variant_is_repaired` pins it); for any other "
    "variant the Lean driver runs the matching `check2`; no history class is accepted",
    "in recursive protocol worlds the bounds map (not the verdict) still depends on the history — the guard answers {} "
    "where a cache hit answers the stored map (`cyclic_bounds_map_depends_on_history_witness`); implementation and "
    "model agree on it (stream proto); the generated programs with reveal_type of a solved type variable stay in "
    "well-founded worlds, so whether it can surface in a diagnostic is not searched",
]
TRUSTED = [
    "Spec/CacheSpec.lean: `gfpCompat`/`sem` are validated against fresh answers of the implementation on every run (stream spec)",
    "the classification of a textual difference as order-only is computed in Lean (`orderClass`), the attribution to a site uses the message template and the feature of the generated snippet",
]

# ============================================================================================ set-site scan
SET_TYPE_NAMES = {"set", "frozenset", "Set", "FrozenSet", "AbstractSet", "MutableSet"}
SET_METHODS = {"union", "intersection", "difference", "symmetric_difference", "copy"}
ORDER_FREE_CALLS = {"any": "anyall", "all": "anyall", "set": "setbuild", "frozenset": "setbuild", "sorted": "sorted",
                    "min": "minmax", "max": "minmax", "sum": "sum", "len": "len"}
ORDER_CALLS = {"list": "list", "tuple": "tuple", "iter": "iter", "enumerate": "enumerate", "zip": "zip", "map": "map",
               "filter": "filter", "reversed": "reversed", "str": "str", "repr": "repr", "next": "next"}


# callees that do not iterate their set argument in an order-revealing way
PASS_OK = {"set", "frozenset", "len", "isinstance", "bool", "hash", "id", "type", "add", "update", "discard", "remove",
           "issubset", "issuperset", "isdisjoint", "union", "intersection", "difference", "symmetric_difference",
           "intersection_update", "difference_update", "setdefault", "get", "append", "field", "TypeObject",
           "_ConstrainedValue", "contains", "safe_in", "is_exactly", "replace", "print", "repr", "str",
           "any", "all", "sorted", "min", "max", "sum", "list", "tuple", "iter", "enumerate", "zip", "map", "filter",
           "reversed", "next", "join", "extend", "from_iterable", "pop", "copy"}


def _is_set_annotation(ann):
    if ann is None:
        return False
    if isinstance(ann, ast.Constant) and isinstance(ann.value, str):
        try:
            ann = ast.parse(ann.value, mode="eval").body
        except SyntaxError:
            return False
    if isinstance(ann, ast.Subscript):
        ann = ann.value
    if isinstance(ann, ast.Attribute):
        return ann.attr in SET_TYPE_NAMES and not (isinstance(ann.value, ast.Name) and ann.value.id == "ast")
    return isinstance(ann, ast.Name) and ann.id in SET_TYPE_NAMES


def _is_dict_of_sets_annotation(ann):
    if isinstance(ann, ast.Subscript) and isinstance(ann.value, ast.Name) and ann.value.id in ("dict", "Dict", "defaultdict"):
        sl = ann.slice
        if isinstance(sl, ast.Tuple) and len(sl.elts) == 2:
            return _is_set_annotation(sl.elts[1])
    return False


def _collect_globals(trees):
    """Attribute / function names that are set-typed (or dict-of-sets-typed) by annotation, over all scanned files."""
    attrs, funcs, dictsets = set(), set(), set()
    for tree in trees.values():
        for node in ast.walk(tree):
            if isinstance(node, ast.AnnAssign) and _is_dict_of_sets_annotation(node.annotation):
                t = node.target
                dictsets.add(t.id if isinstance(t, ast.Name) else t.attr if isinstance(t, ast.Attribute) else "")
            if isinstance(node, ast.AnnAssign) and _is_set_annotation(node.annotation):
                t = node.target
                if isinstance(t, ast.Name):
                    attrs.add(t.id)
                elif isinstance(t, ast.Attribute):
                    attrs.add(t.attr)
            elif isinstance(node, ast.Assign) and len(node.targets) == 1 and isinstance(node.targets[0], ast.Attribute):
                v = node.value
                if isinstance(v, (ast.Set, ast.SetComp)) or (isinstance(v, ast.Call) and isinstance(v.func, ast.Name)
                                                               and v.func.id in ("set", "frozenset")):
                    attrs.add(node.targets[0].attr)
            elif isinstance(node, (ast.FunctionDef, ast.AsyncFunctionDef)) and _is_set_annotation(node.returns):
                funcs.add(node.name)
    return attrs, funcs, dictsets


PAYLOAD_FIELDS = set()   # dataclass fields annotated as a collection of `object` / `Any` (filled by scan_sites)


class _FuncScan:
    def __init__(self, file, qual, fn, gattrs, gfuncs, gdictsets, module_sets):
        self.file, self.qual, self.fn = file, qual, fn
        self.gattrs, self.gfuncs, self.gdictsets = gattrs, gfuncs, gdictsets
        self.locals = set(module_sets)
        self.dictsets = set()
        self.sites = []
        self.parents = {}
        for p in ast.walk(fn):
            for c in ast.iter_child_nodes(p):
                self.parents[c] = p
        args = fn.args
        for a in args.posonlyargs + args.args + args.kwonlyargs:
            if _is_set_annotation(a.annotation):
                self.locals.add(a.arg)
        for _ in range(3):  # fixed point of the local data flow (assignment order is irrelevant for a syntactic scan)
            for node in self.own_nodes():
                if isinstance(node, ast.AnnAssign) and isinstance(node.target, ast.Name) and _is_dict_of_sets_annotation(node.annotation):
                    self.dictsets.add(node.target.id)
                if isinstance(node, ast.Assign) and isinstance(node.value, ast.DictComp) and self.is_set(node.value.value):
                    for t in node.targets:
                        if isinstance(t, ast.Name):
                            self.dictsets.add(t.id)
                if isinstance(node, (ast.For, ast.comprehension)) and isinstance(node.iter, ast.Call) \
                        and isinstance(node.iter.func, ast.Attribute) and self.is_dictset(node.iter.func.value):
                    if node.iter.func.attr == "items" and isinstance(node.target, ast.Tuple) and len(node.target.elts) == 2 \
                            and isinstance(node.target.elts[1], ast.Name):
                        self.locals.add(node.target.elts[1].id)
                    if node.iter.func.attr == "values" and isinstance(node.target, ast.Name):
                        self.locals.add(node.target.id)
                if isinstance(node, ast.AnnAssign) and isinstance(node.target, ast.Name) and (
                        _is_set_annotation(node.annotation) or (node.value is not None and self.is_set(node.value))):
                    self.locals.add(node.target.id)
                elif isinstance(node, ast.Assign) and self.is_set(node.value):
                    for t in node.targets:
                        if isinstance(t, ast.Name):
                            self.locals.add(t.id)
                elif isinstance(node, ast.AugAssign) and isinstance(node.target, ast.Name) and isinstance(
                        node.op, (ast.BitOr, ast.BitAnd, ast.Sub, ast.BitXor)) and self.is_set(node.value):
                    self.locals.add(node.target.id)
                elif isinstance(node, ast.NamedExpr) and self.is_set(node.value):
                    self.locals.add(node.target.id)

    def own_nodes(self):
        todo = list(ast.iter_child_nodes(self.fn))
        while todo:
            n = todo.pop()
            yield n
            if isinstance(n, (ast.FunctionDef, ast.AsyncFunctionDef, ast.ClassDef, ast.Lambda)):
                continue
            todo.extend(ast.iter_child_nodes(n))

    def is_dictset(self, e):
        if isinstance(e, ast.Name):
            return e.id in self.dictsets
        if isinstance(e, ast.Attribute):
            return e.attr in self.gdictsets
        return False

    def is_set(self, e):
        if isinstance(e, (ast.Set, ast.SetComp)):
            return True
        if isinstance(e, ast.Subscript) and self.is_dictset(e.value):
            return True
        if isinstance(e, ast.Call) and isinstance(e.func, ast.Attribute) and e.func.attr in ("get", "setdefault", "pop") and (
                self.is_dictset(e.func.value) or (len(e.args) == 2 and self.is_set(e.args[1]))):
            return True
        if isinstance(e, ast.Name):
            return e.id in self.locals
        if isinstance(e, ast.Attribute):
            return e.attr in self.gattrs
        if isinstance(e, ast.Call):
            f = e.func
            if isinstance(f, ast.Name):
                return f.id in ("set", "frozenset") or f.id in self.gfuncs
            if isinstance(f, ast.Attribute):
                if f.attr in self.gfuncs:
                    return True
                if f.attr in SET_METHODS and (self.is_set(f.value) or (isinstance(f.value, ast.Name) and f.value.id == "set")):
                    return True
            return False
        if isinstance(e, ast.BinOp) and isinstance(e.op, (ast.Sub, ast.BitOr, ast.BitAnd, ast.BitXor)):
            def keys(x):
                return isinstance(x, ast.Call) and isinstance(x.func, ast.Attribute) and x.func.attr in ("keys", "items") and not x.args
            return self.is_set(e.left) or self.is_set(e.right) or keys(e.left) or keys(e.right)
        if isinstance(e, ast.IfExp):
            return self.is_set(e.body) or self.is_set(e.orelse)
        return False

    @staticmethod
    def call_name(call):
        f = call.func
        if isinstance(f, ast.Name):
            return f.id
        if isinstance(f, ast.Attribute):
            return f.attr
        return None

    def comp_kind(self, comp):
        if isinstance(comp, ast.SetComp):
            return "setbuild"
        if isinstance(comp, ast.DictComp):
            return "dictbuild"
        par = self.parents.get(comp)
        if isinstance(comp, ast.GeneratorExp) and isinstance(par, ast.Call) and comp in par.args:
            n = self.call_name(par)
            if n in ORDER_FREE_CALLS:
                return ORDER_FREE_CALLS[n]
            if n == "join":
                return "join"
            if n == "from_iterable":
                gp = self.parents.get(par)
                if isinstance(gp, ast.Call) and self.call_name(gp) in ORDER_FREE_CALLS:
                    return ORDER_FREE_CALLS[self.call_name(gp)]
                return "chain"
            return "gen:" + str(n)
        return "listbuild" if isinstance(comp, ast.ListComp) else "gen"

    def add(self, kind, expr):
        self.sites.append((self.file, self.qual, "%s:%s" % (kind, ast.unparse(expr))))

    def payload_names(self):
        """Local names bound to the payload of a KnownValue (`<expr>.val`): an arbitrary runtime object, possibly a set."""
        names = set()
        a = self.fn.args
        for arg in a.posonlyargs + a.args + a.kwonlyargs:
            if isinstance(arg.annotation, ast.Name) and arg.annotation.id in ("Any", "object") and arg.arg.endswith("val"):
                names.add(arg.arg)   # e.g. `other_val: Any`: the caller hands over `rhs.val`
        for node in self.own_nodes():
            if isinstance(node, ast.Assign) and isinstance(node.value, ast.Attribute) and node.value.attr == "val":
                names |= {t.id for t in node.targets if isinstance(t, ast.Name)}
        return names

    def scan(self):
        payload = self.payload_names()
        if payload:
            for node in self.own_nodes():
                it = None
                if isinstance(node, (ast.For, ast.comprehension)):
                    it = node.iter
                elif isinstance(node, ast.Call) and isinstance(node.func, ast.Name) and node.func.id in ("list", "tuple") and node.args:
                    it = node.args[0]
                if isinstance(it, ast.Name) and it.id in payload:
                    self.add("payload-iter", it)
        for node in self.own_nodes():   # fields holding such a payload collection (`pattern_vals: Sequence[object]`)
            it = node.iter if isinstance(node, (ast.For, ast.comprehension)) else None
            if isinstance(it, ast.Attribute) and it.attr in PAYLOAD_FIELDS:
                self.add("payload-iter", it)
        for node in self.own_nodes():
            if isinstance(node, (ast.For, ast.AsyncFor)) and self.is_set(node.iter):
                self.add("for", node.iter)
            elif isinstance(node, (ast.ListComp, ast.SetComp, ast.DictComp, ast.GeneratorExp)):
                for g in node.generators:
                    if self.is_set(g.iter):
                        self.add(self.comp_kind(node), g.iter)
            elif isinstance(node, ast.Call):
                n = self.call_name(node)
                f = node.func
                if isinstance(f, ast.Attribute) and f.attr == "pop" and not node.args and self.is_set(f.value):
                    self.add("pop", f.value)
                elif isinstance(f, ast.Attribute) and f.attr == "join" and node.args and self.is_set(node.args[0]):
                    self.add("join", node.args[0])
                elif isinstance(f, ast.Attribute) and f.attr in ("extend", "from_iterable") and node.args and self.is_set(node.args[0]):
                    self.add("extend", node.args[0])
                elif isinstance(f, ast.Name) and (n in ORDER_FREE_CALLS or n in ORDER_CALLS):
                    for i, a in enumerate(node.args):
                        if n in ("set", "frozenset", "len"):
                            continue  # set(S) / len(S): no order involved
                        if n in ("map", "filter") and i == 0:
                            continue
                        if self.is_set(a):
                            kind = ORDER_FREE_CALLS.get(n) or ORDER_CALLS[n]
                            if n in ("map", "iter", "list", "tuple"):
                                par = self.parents.get(node)
                                if isinstance(par, ast.Call) and node in par.args:
                                    pn = self.call_name(par)
                                    if pn == "join":
                                        kind = "join"
                                    elif pn == "next":
                                        kind = "next-iter"
                                    elif pn in ORDER_FREE_CALLS:
                                        kind = ORDER_FREE_CALLS[pn]
                            self.add(kind, a)
                elif n not in PASS_OK:
                    # a set handed to another function: the callee may iterate it (not followed; one site per call)
                    for a in list(node.args) + [k.value for k in node.keywords]:
                        if self.is_set(a) and not isinstance(a, (ast.Set, ast.SetComp)):
                            self.add("passed-to-%s" % n, a)
            elif isinstance(node, ast.Starred) and isinstance(node.ctx, ast.Load) and self.is_set(node.value):
                self.add("star", node.value)
            elif isinstance(node, ast.FormattedValue) and self.is_set(node.value):
                self.add("fstring", node.value)
        return self.sites


def scan_sites(repo):
    """[(file, qualified function, fingerprint)] of every set-iteration site; fingerprints are line-independent."""
    trees = {f: ast.parse(open(os.path.join(repo, f)).read()) for f in SCAN_FILES}
    gattrs, gfuncs, gdictsets = _collect_globals(trees)
    PAYLOAD_FIELDS.clear()
    for tree in trees.values():
        for node in ast.walk(tree):
            if isinstance(node, ast.AnnAssign) and isinstance(node.target, ast.Name) and isinstance(node.annotation, ast.Subscript) \
                    and isinstance(node.annotation.value, ast.Name) and node.annotation.value.id in ("Sequence", "Iterable", "Collection", "Container") \
                    and isinstance(node.annotation.slice, ast.Name) and node.annotation.slice.id in ("object", "Any"):
                PAYLOAD_FIELDS.add(node.target.id)
    sites = []
    for f, tree in trees.items():
        module_sets = set()
        for node in tree.body:
            if isinstance(node, ast.Assign) and (isinstance(node.value, (ast.Set, ast.SetComp)) or (
                    isinstance(node.value, ast.Call) and isinstance(node.value.func, ast.Name)
                    and node.value.func.id in ("set", "frozenset"))):
                for t in node.targets:
                    if isinstance(t, ast.Name):
                        module_sets.add(t.id)

        def visit(node, prefix):
            for ch in ast.iter_child_nodes(node):
                if isinstance(ch, ast.ClassDef):
                    visit(ch, prefix + [ch.name])
                elif isinstance(ch, (ast.FunctionDef, ast.AsyncFunctionDef)):
                    q = ".".join(prefix + [ch.name])
                    sites.extend(_FuncScan(f, q, ch, gattrs, gfuncs, gdictsets, module_sets).scan())
                    visit(ch, prefix + [ch.name])
                elif not isinstance(ch, ast.expr):
                    visit(ch, prefix)
        visit(tree, [])
    out, seen = [], {}
    for s in sites:
        k = seen.get(s, 0)
        seen[s] = k + 1
        out.append(s if k == 0 else (s[0], s[1], s[2] + "#%d" % k))
    return sorted(out)


_CONTAINER_NAMES = {"dict", "Dict", "list", "List", "set", "Set", "defaultdict", "DefaultDict", "OrderedDict", "MutableMapping",
                    "MutableSequence", "MutableSet", "deque", "Counter"}


def _is_container_annotation(ann):
    if isinstance(ann, ast.Constant) and isinstance(ann.value, str):
        try:
            ann = ast.parse(ann.value, mode="eval").body
        except SyntaxError:
            return False
    if isinstance(ann, ast.Subscript):
        ann = ann.value
    if isinstance(ann, ast.Attribute):
        return ann.attr in _CONTAINER_NAMES
    return isinstance(ann, ast.Name) and ann.id in _CONTAINER_NAMES


def _is_container_value(v):
    if isinstance(v, (ast.Dict, ast.List, ast.Set, ast.DictComp, ast.ListComp, ast.SetComp)):
        return True
    if isinstance(v, ast.Call):
        f = v.func
        n = f.id if isinstance(f, ast.Name) else f.attr if isinstance(f, ast.Attribute) else None
        if n in ("dict", "list", "set", "defaultdict", "OrderedDict", "deque", "Counter"):
            return True
        if n == "field":   # dataclasses.field(default_factory=dict)
            for k in v.keywords:
                if k.arg == "default_factory" and isinstance(k.value, ast.Name) and k.value.id in ("dict", "list", "set"):
                    return True
    return False


def scan_caches(repo):
    """[(file, class, attribute)]: every container attribute (dict / list / set, by annotation or initial value) of the
    classes of the files whose instances live as long as a Checker."""
    out = set()
    for f in CACHE_FILES:
        tree = ast.parse(open(os.path.join(repo, f)).read())
        for cls in [n for n in ast.walk(tree) if isinstance(n, ast.ClassDef)]:
            for node in cls.body:
                if isinstance(node, ast.AnnAssign) and isinstance(node.target, ast.Name) and (
                        _is_container_annotation(node.annotation) or (node.value is not None and _is_container_value(node.value)
                                                                      and not (isinstance(node.value, ast.Call) and getattr(node.value.func, "id", "") == "field"))):
                    out.add((f, cls.name, node.target.id))
                elif isinstance(node, ast.Assign) and _is_container_value(node.value):
                    for t in node.targets:
                        if isinstance(t, ast.Name):
                            out.add((f, cls.name, t.id))
                elif isinstance(node, (ast.FunctionDef, ast.AsyncFunctionDef)):
                    for sub in ast.walk(node):
                        tgt = val = ann = None
                        if isinstance(sub, ast.Assign) and len(sub.targets) == 1:
                            tgt, val = sub.targets[0], sub.value
                        elif isinstance(sub, ast.AnnAssign):
                            tgt, val, ann = sub.target, sub.value, sub.annotation
                        if isinstance(tgt, ast.Attribute) and isinstance(tgt.value, ast.Name) and tgt.value.id == "self" and (
                                (val is not None and _is_container_value(val)) or (ann is not None and _is_container_annotation(ann))):
                            out.add((f, cls.name, tgt.attr))
    return sorted(out)


_CACHE_DECORATORS = {"lru_cache", "cache", "cached_per_instance", "memoize", "cached_property", "memoize_with_expiry"}


def _pyanalyze_trees(repo):
    import glob
    files = sorted(f for f in glob.glob(os.path.join(repo, "pyanalyze", "*.py")) if not os.path.basename(f).startswith("test_"))
    return {os.path.relpath(f, repo): ast.parse(open(f).read()) for f in files}


def _container_fields(cls):
    fields = []
    for node in cls.body:
        if isinstance(node, ast.AnnAssign) and isinstance(node.target, ast.Name) and (
                _is_container_annotation(node.annotation) or (node.value is not None and _is_container_value(node.value))):
            fields.append(node.target.id)
        elif isinstance(node, ast.Assign) and _is_container_value(node.value):
            fields += [t.id for t in node.targets if isinstance(t, ast.Name)]
    return fields


def scan_proc_state(repo):
    """[(file, name, tag)]: process-level state of every non-test pyanalyze module: module-level names bound to a
    mutable container or to an instance of a class with container fields, class-level mutable attributes, functions
    under a memoising decorator."""
    trees = _pyanalyze_trees(repo)
    cont_classes = {}
    for tree in trees.values():
        for cls in [n for n in ast.walk(tree) if isinstance(n, ast.ClassDef)]:
            fields = _container_fields(cls)
            if fields:
                cont_classes[cls.name] = fields
    out = set()
    for f, tree in trees.items():
        for node in tree.body:
            tgt = val = None
            if isinstance(node, ast.Assign) and len(node.targets) == 1 and isinstance(node.targets[0], ast.Name):
                tgt, val = node.targets[0].id, node.value
            elif isinstance(node, ast.AnnAssign) and isinstance(node.target, ast.Name) and node.value is not None:
                tgt, val = node.target.id, node.value
            if tgt is None:
                continue
            if _is_container_value(val):
                out.add((f, tgt, "container"))
            elif isinstance(val, ast.Call):
                fn = val.func
                n = fn.id if isinstance(fn, ast.Name) else fn.attr if isinstance(fn, ast.Attribute) else None
                if n in cont_classes:
                    out.add((f, tgt, "instance:%s(%s)" % (n, ",".join(cont_classes[n]))))
        for fn in [n for n in ast.walk(tree) if isinstance(n, (ast.FunctionDef, ast.AsyncFunctionDef))]:
            for d in fn.decorator_list:
                dd = d.func if isinstance(d, ast.Call) else d
                n = dd.id if isinstance(dd, ast.Name) else dd.attr if isinstance(dd, ast.Attribute) else None
                if n in _CACHE_DECORATORS:
                    out.add((f, fn.name, "decorated:" + n))
        for cls in [n for n in ast.walk(tree) if isinstance(n, ast.ClassDef)]:
            for node in cls.body:
                if isinstance(node, ast.Assign) and _is_container_value(node.value):
                    for t in node.targets:
                        if isinstance(t, ast.Name):
                            out.add((f, cls.name + "." + t.id, "classattr"))
                elif isinstance(node, ast.AnnAssign) and isinstance(node.target, ast.Name) and node.value is not None \
                        and _is_container_value(node.value) and not (isinstance(node.value, ast.Call) and getattr(node.value.func, "id", "") == "field"):
                    out.add((f, cls.name + "." + node.target.id, "classattr"))
    return sorted(out)


def scan_id_keys(repo):
    """[(file, qualified function, expression)]: every use of `id(…)` in the non-test pyanalyze modules, rendered as the
    smallest enclosing key / membership / hash / assignment expression."""
    out = []
    for f, tree in _pyanalyze_trees(repo).items():
        parents = {}
        for p in ast.walk(tree):
            for c in ast.iter_child_nodes(p):
                parents[c] = p

        def qual(n):
            names = []
            while n in parents:
                n = parents[n]
                if isinstance(n, (ast.FunctionDef, ast.AsyncFunctionDef, ast.ClassDef)):
                    names.append(n.name)
            return ".".join(reversed(names)) or "<module>"
        for n in ast.walk(tree):
            if isinstance(n, ast.Call) and isinstance(n.func, ast.Name) and n.func.id == "id" and len(n.args) == 1:
                e = parents.get(n)
                while isinstance(e, (ast.Tuple, ast.List, ast.Starred)):
                    e = parents.get(e)
                if isinstance(e, ast.Subscript) and isinstance(parents.get(e), (ast.Assign, ast.AugAssign)) and e in getattr(parents[e], "targets", [getattr(parents[e], "target", None)]):
                    pass
                out.append((f, qual(n), ast.unparse(e) if e is not None else ast.unparse(n)))
    res, seen = [], {}
    for o in sorted(out):
        k = seen.get(o, 0)
        seen[o] = k + 1
        if k == 0:
            res.append(o)
    return res


def _names_in(e):
    return {n.id for n in ast.walk(e) if isinstance(n, ast.Name)}

def memo_attr_names(repo):
    """Attribute / module-level names of the containers registered as memo tables (per-Checker and process-level)."""
    names = {k.split(".", 1)[1] for k, kind in cache_kinds().items() if kind in IMMUTABLE_KINDS}
    pk = proc_kinds()
    for f, name, tag in scan_proc_state(repo):
        if pk.get((f, name), "memo") == "memo":
            if tag.startswith("instance:"):
                names |= set(tag[tag.index("(") + 1:-1].split(","))
            elif tag == "container":
                names.add(name)
    return names


def scan_memo_keys(repo, memo_attrs=None):
    """[(file, function, cache attribute, container expression, key expression, parameters the stored value is computed
    from, parameters that occur in the key or in the container expression)] for every store `<memo table>[key] = value`."""
    if memo_attrs is None:
        memo_attrs = memo_attr_names(repo)
    out = []
    for f, tree in _pyanalyze_trees(repo).items():
        parents = {}
        for p in ast.walk(tree):
            for c in ast.iter_child_nodes(p):
                parents[c] = p
        for fn in [n for n in ast.walk(tree) if isinstance(n, (ast.FunctionDef, ast.AsyncFunctionDef))]:
            # qualified name
            q, n = [fn.name], fn
            while n in parents:
                n = parents[n]
                if isinstance(n, (ast.ClassDef, ast.FunctionDef, ast.AsyncFunctionDef)):
                    q.append(n.name)
            qual = ".".join(reversed(q))
            params = [a.arg for a in fn.args.posonlyargs + fn.args.args + fn.args.kwonlyargs]
            # own nodes only
            own = []
            todo = list(ast.iter_child_nodes(fn))
            while todo:
                x = todo.pop()
                own.append(x)
                if not isinstance(x, (ast.FunctionDef, ast.AsyncFunctionDef, ast.ClassDef, ast.Lambda)):
                    todo.extend(ast.iter_child_nodes(x))
            assigns = {}   # local name -> list of value expressions
            for x in own:
                if isinstance(x, ast.Assign):
                    for t in x.targets:
                        tg = [t] if isinstance(t, ast.Name) else list(t.elts) if isinstance(t, (ast.Tuple, ast.List)) else []
                        for nm in tg:
                            if isinstance(nm, ast.Name):
                                assigns.setdefault(nm.id, []).append(x.value)
                elif isinstance(x, ast.AnnAssign) and isinstance(x.target, ast.Name) and x.value is not None:
                    assigns.setdefault(x.target.id, []).append(x.value)
                elif isinstance(x, (ast.For, ast.comprehension)):
                    for nm in [e for e in ast.walk(x.target) if isinstance(e, ast.Name)]:
                        assigns.setdefault(nm.id, []).append(x.iter)
                elif isinstance(x, ast.withitem) and x.optional_vars is not None:
                    for nm in [e for e in ast.walk(x.optional_vars) if isinstance(e, ast.Name)]:
                        assigns.setdefault(nm.id, []).append(x.context_expr)

            def closure(expr):
                seen, todo = set(), list(_names_in(expr))
                while todo:
                    nm = todo.pop()
                    if nm in seen:
                        continue
                    seen.add(nm)
                    for v in assigns.get(nm, []):
                        todo.extend(_names_in(v))
                return seen
            for x in own:
                if isinstance(x, ast.Assign) and len(x.targets) == 1 and isinstance(x.targets[0], ast.Subscript):
                    sub = x.targets[0]
                    cont = sub.value
                    attr = cont.attr if isinstance(cont, ast.Attribute) else cont.id if isinstance(cont, ast.Name) else None
                    # a local alias of a registered cache: cache = self.visitor.checker.type_alias_cache
                    cexpr = cont
                    if isinstance(cont, ast.Name) and cont.id in assigns:
                        for v in assigns[cont.id]:
                            if isinstance(v, ast.Attribute) and v.attr in memo_attrs:
                                attr, cexpr = v.attr, v
                    if attr not in memo_attrs:
                        continue
                    keyn = closure(sub.slice) | _names_in(cexpr)
                    valn = closure(x.value)
                    vp = [p for p in params if p in valn and p not in ("self", "cls")]
                    kp = [p for p in params if p in keyn and p not in ("self", "cls")]
                    out.append((f, qual, attr, ast.unparse(cexpr), ast.unparse(sub.slice) if not (isinstance(sub.slice, ast.Name) and sub.slice.id in assigns) else
                                "%s = %s" % (sub.slice.id, " | ".join(ast.unparse(v) for v in assigns[sub.slice.id])), vp, kp))
    return sorted(set((a, b, c, d, e, tuple(f), tuple(g)) for a, b, c, d, e, f, g in out))



def scan_interpreter_reads(repo):
    """[(file, function, expression, kind)]: where pyanalyze reads or drives interpreter-global state: `sys.<attr>`,
    `os.environ`, `__import__` / `importlib.import_module` calls, and calls of pyanalyze's own functions that import
    (one level: a function whose body calls `__import__` / `import_module` is an importer)."""
    trees = _pyanalyze_trees(repo)
    importers = set()
    for tree in trees.values():
        for fn in [n for n in ast.walk(tree) if isinstance(n, (ast.FunctionDef, ast.AsyncFunctionDef))]:
            for c in ast.walk(fn):
                if isinstance(c, ast.Call):
                    f = c.func
                    n = f.id if isinstance(f, ast.Name) else f.attr if isinstance(f, ast.Attribute) else None
                    if n in ("__import__", "import_module"):
                        importers.add(fn.name)
    out = []
    for f, tree in trees.items():
        parents = {}
        for pn in ast.walk(tree):
            for c in ast.iter_child_nodes(pn):
                parents[c] = pn

        def qual(n):
            names = []
            while n in parents:
                n = parents[n]
                if isinstance(n, (ast.FunctionDef, ast.AsyncFunctionDef, ast.ClassDef)):
                    names.append(n.name)
            return ".".join(reversed(names)) or "<module>"
        for n in ast.walk(tree):
            if isinstance(n, ast.Attribute) and isinstance(n.value, ast.Name) and n.value.id == "sys" and isinstance(n.ctx, ast.Load):
                out.append((f, qual(n), "sys." + n.attr, "sysModules" if n.attr == "modules" else "sysPath" if n.attr in ("path", "meta_path", "path_hooks") else "sysOther"))
            elif isinstance(n, ast.Attribute) and isinstance(n.value, ast.Name) and n.value.id == "os" and n.attr in ("environ", "getenv"):
                out.append((f, qual(n), "os." + n.attr, "environ"))
            elif isinstance(n, ast.Call):
                fn = n.func
                nm = fn.id if isinstance(fn, ast.Name) else fn.attr if isinstance(fn, ast.Attribute) else None
                if nm in ("__import__", "import_module"):
                    out.append((f, qual(n), ast.unparse(n)[:80], "importCall"))
                elif nm in importers:
                    out.append((f, qual(n), ast.unparse(n)[:80], "importerCall"))
    res, seen = [], {}
    for o in sorted(out):
        k = seen.get(o[:3], 0)
        seen[o[:3]] = k + 1
        res.append(o if k == 0 else (o[0], o[1], o[2] + "#%d" % k, o[3]))
    return res


def _lean_str(s):
    return '"' + s.replace("\\", "\\\\").replace('"', '\\"') + '"'


def translate(ctx):
    """Generated/SetSites.lean: the set-iteration sites of the anchored files as the scan finds them in the live tree.
    Proofs/C10.lean proves `sites_registered` (each has a modelled kind) by `decide`."""
    sites = scan_sites(pya.REPO)
    ctx.extra["scanned_sites"] = len(sites)
    rows = ",\n".join("  (%s, %s, %s)" % tuple(_lean_str(x) for x in s) for s in sites)
    text = (
        "/-! Regenerated by harness/props/c10.py `translate` from the live pyanalyze (AST scan of\n"
        + "".join("`%s` " % f for f in SCAN_FILES) + "); do not edit. -/\n"
        "namespace Pya.C10.Gen\n\n"
        "/-- (file, function, fingerprint `kind:iterated expression`) of every place where a set is iterated,\n"
        "joined, popped or indexed. -/\n"
        "def scannedSites : List (String × String × String) := [\n" + rows + "\n]\n\n"
        "end Pya.C10.Gen\n"
    )
    lean.write_if_changed(os.path.join(lean.LEAN, "PyaModel", "Generated", "SetSites.lean"), text)
    caches = scan_caches(pya.REPO)
    ctx.extra["scanned_cache_sites"] = len(caches)
    rows = ",\n".join("  (%s, %s, %s)" % tuple(_lean_str(x) for x in c) for c in caches)
    text = (
        "/-! Regenerated by harness/props/c10.py `translate` from the live pyanalyze (AST scan of\n"
        + "".join("`%s` " % f for f in CACHE_FILES) + "); do not edit. -/\n"
        "namespace Pya.C10.Gen\n\n"
        "/-- (file, class, attribute) of every container attribute (dict / list / set) of the classes whose\n"
        "instances live as long as a Checker: the places where a cached value can be mutated. -/\n"
        "def scannedCaches : List (String × String × String) := [\n" + rows + "\n]\n\n"
        "/-- (file, name, what it is) of the process-level state: module-level mutable containers and instances of\n"
        "classes with container fields, class-level mutable attributes, functions under a memoising decorator. -/\n"
        "def scannedProcState : List (String × String × String) := [\n"
        + ",\n".join("  (%s, %s, %s)" % tuple(_lean_str(x) for x in c) for c in scan_proc_state(pya.REPO)) + "\n]\n\n"
        "/-- (file, function, expression) of every use of `id(…)` as (part of) a key, hash or membership test. -/\n"
        "def scannedIdKeys : List (String × String × String) := [\n"
        + ",\n".join("  (%s, %s, %s)" % tuple(_lean_str(x) for x in c) for c in scan_id_keys(pya.REPO)) + "\n]\n\n"
        "end Pya.C10.Gen\n"
    )
    lean.write_if_changed(os.path.join(lean.LEAN, "PyaModel", "Generated", "CacheSites.lean"), text)
    rows = []
    for f, fn, attr, cexpr, kexpr, vp, kp in scan_memo_keys(pya.REPO):
        rows.append("  (%s, %s, %s, %s, [%s], [%s])" % (_lean_str(f), _lean_str(fn), _lean_str(attr), _lean_str(cexpr + "[" + kexpr + "]"),
                                                     ", ".join(_lean_str(x) for x in vp), ", ".join(_lean_str(x) for x in kp)))
    text = (
        "/-! Regenerated by harness/props/c10.py `translate` from the live pyanalyze (every store into a container\n"
        "registered as a memo table); do not edit. -/\n"
        "namespace Pya.C10.Gen\n\n"
        "/-- (file, function, memo table, store target `container[key]`, parameters of the function the stored value is\n"
        "computed from, parameters that occur in the key or in the container expression). -/\n"
        "def scannedMemoKeys : List (String × String × String × String × List String × List String) := [\n"
        + ",\n".join(rows) + "\n]\n\nend Pya.C10.Gen\n"
    )
    lean.write_if_changed(os.path.join(lean.LEAN, "PyaModel", "Generated", "CacheKeys.lean"), text)
    text = (
        "/-! Regenerated by harness/props/c10.py `translate` from the live pyanalyze; do not edit. -/\n"
        "namespace Pya.C10.Gen\n\n"
        "/-- (file, function, expression, kind) of every read of interpreter-global state (`sys.*`, `os.environ`) and of\n"
        "every call that imports a module (`__import__`, `import_module`, pyanalyze's own importing functions). -/\n"
        "def scannedInterpreterReads : List (String × String × String × String) := [\n"
        + ",\n".join("  (%s, %s, %s, %s)" % tuple(_lean_str(x) for x in r) for r in scan_interpreter_reads(pya.REPO))
        + "\n]\n\nend Pya.C10.Gen\n"
    )
    lean.write_if_changed(os.path.join(lean.LEAN, "PyaModel", "Generated", "InterpreterState.lean"), text)
    v = impl_variant()
    text = (
        "/-! Regenerated by harness/props/c10.py `translate` from the live source of\n"
        "`pyanalyze/type_object.py` `TypeObject.can_assign`; do not edit. -/\n"
        "namespace Pya.C10.Gen\n\n"
        "/-- The cache key of `_protocol_positive_cache` contains `ctx.should_exclude_any()`. -/\n"
        "def cacheModeKey : Bool := %s\n\n"
        "/-- The cache key contains `self_val` (the generic arguments of the protocol). -/\n"
        "def cacheArgKey : Bool := %s\n\n"
        "/-- A positive answer is stored only when `not ctx.has_assumed_compatibilities()`. -/\n"
        "def cacheTopOnly : Bool := %s\n\n"
        "end Pya.C10.Gen\n" % tuple("true" if c == "1" else "false" for c in v)
    )
    lean.write_if_changed(os.path.join(lean.LEAN, "PyaModel", "Generated", "CacheVariant.lean"), text)


# ============================================================================================ running pyanalyze
def new_kwargs():
    """A fresh Checker (with the standard settings of the harness) wrapped in NameCheckVisitor constructor kwargs."""
    from pyanalyze.name_check_visitor import NameCheckVisitor
    return dict(NameCheckVisitor.prepare_constructor_kwargs({"settings": pya.default_settings()}))


def check_program(src, kwargs):
    """Rendered diagnostics of one module: [[line, col, code, text]] sorted by position only (stable: diagnostics at
    one position keep their emission order); module-name tokens normalised; a crash is rendered as one entry."""
    from pyanalyze.analysis_lib import make_module
    from pyanalyze.name_check_visitor import NameCheckVisitor
    try:
        tree = ast.parse(src)
        with contextlib.redirect_stderr(io.StringIO()), contextlib.redirect_stdout(io.StringIO()):
            mod = make_module(src)
            v = NameCheckVisitor(mod.__name__, src, tree, module=mod, **kwargs)
            res = v.check()
    except Exception as e:  # totality is C12's business; here a crash is just part of the rendering
        return [[0, 0, "EXC", type(e).__name__]]
    out = []
    for f in res:
        c = f.get("code")
        out.append([f.get("lineno") or 0, f.get("col_offset") or 0, c.name if c is not None else "None",
                    pya.norm(_message_text(f))])
    out.sort(key=lambda d: (d[0], d[1]))
    return out


_LOCATION = re.compile(r"\nIn .* at line \d+\n")


def _message_text(f):
    """The message as pyanalyze prints it (description, code, detail lines) without the source excerpt."""
    msg = f.get("message")
    if not msg:
        return f.get("description", "")
    m = _LOCATION.search(msg)
    return (msg[:m.start()] if m else msg).strip("\n")


SUBPROC_DRIVER = r'''
import json, sys
sys.path.insert(0, %(verif)r)
sys.path.insert(0, %(scratch)r)
from harness.props import c10
progs = json.load(open(sys.argv[1]))
out = []
for src in progs:
    out.append(c10.check_program(src, c10.new_kwargs()))
json.dump(out, open(sys.argv[2], "w"))
'''


def start_under_seed(ctx, programs, seed, tag):
    """Check all programs (fresh Checker each) in one fresh interpreter with PYTHONHASHSEED=seed (asynchronous)."""
    drv = os.path.join(ctx.scratch, "c10_subproc.py")
    if not os.path.exists(drv):
        with open(drv, "w") as f:
            f.write(SUBPROC_DRIVER % {"verif": lean.HERE, "scratch": ctx.scratch})
    pin = os.path.join(ctx.scratch, "progs-%s.json" % tag)
    pout = os.path.join(ctx.scratch, "out-%s-%s.json" % (tag, seed))
    if not os.path.exists(pin):
        json.dump(programs, open(pin, "w"))
    env = dict(os.environ, PYTHONHASHSEED=str(seed))
    env["VERIF_REPO"] = pya.REPO
    p = subprocess.Popen([sys.executable, drv, pin, pout], env=env, stdout=subprocess.DEVNULL, stderr=subprocess.PIPE, text=True)
    return p, pout, seed


def finish_under_seed(job):
    p, pout, seed = job
    _, err = p.communicate(timeout=3000)
    if p.returncode != 0:
        raise RuntimeError("subprocess under PYTHONHASHSEED=%s failed: %s" % (seed, err[-1500:]))
    return json.load(open(pout))


# ============================================================================================ cache snapshots
IMMUTABLE_KINDS = ("memo", "protoCache")


def cache_kinds():
    """{'Class.attr': kind} as registered in Lean (`modelledCaches` in Spec/CacheSpec.lean, read from the source so
    that it is available without a built driver)."""
    src = open(os.path.join(lean.LEAN, "PyaModel", "Spec", "CacheSpec.lean")).read()
    body = src[src.index("def modelledCaches"):]
    body = body[:body.index("\n]")]
    return {"%s.%s" % (m.group(1), m.group(2)): m.group(3)
            for m in re.finditer(r'\("[^"]*", "([^"]*)", "([^"]*)", \.(\w+)\)', body)}


def checker_objects(checker):
    """The objects that live as long as the Checker, by class name."""
    objs = [checker, checker.arg_spec_cache, checker.ts_finder, checker.reexport_tracker, checker.callable_tracker]
    objs += list(checker.type_object_cache.values())
    return objs


class CacheWatch:
    """Snapshots (repr at the time of the snapshot) of every entry of the per-Checker containers the scan found, for the
    kinds that must be immutable after insertion; `step` reports entries whose rendering changed since an earlier
    snapshot, and transient containers that are not empty between checks. Unregistered containers are watched too."""

    def __init__(self, sites, kinds, memo_every=1):
        self.memo_every = memo_every   # memo tables are rendered at every memo_every-th step only (they get large)
        self.attrs = {}
        for _, cls, attr in sites:
            self.attrs.setdefault(cls, []).append(attr)
        self.kinds = kinds
        self.snap = {}     # (site, key token) -> (rendering, step at which first seen)
        self.steps = 0

    def _containers(self, checker):
        for o in checker_objects(checker):
            cls = type(o).__name__
            for attr in self.attrs.get(cls, ()):
                kind = self.kinds.get("%s.%s" % (cls, attr), "memo")
                try:
                    c = getattr(o, attr)
                except Exception:
                    continue
                name = "%s.%s" % (cls, attr)
                if cls == "TypeObject":
                    name += "[%r]" % (o.typ,)
                yield name, kind, c

    def step(self, checker):
        """-> list of (site, key, before, after, first_seen_step) changes; advances the step counter."""
        changes = []
        for name, kind, c in self._containers(checker):
            if kind == "transient":
                if len(c):
                    changes.append((name, "<not empty between checks>", "[]", repr(c)[:300], self.steps))
                continue
            if kind not in IMMUTABLE_KINDS or not isinstance(c, dict):
                continue
            if kind == "memo" and self.steps % self.memo_every:
                continue
            for k, v in list(c.items()):
                try:
                    kt = (name, repr(k), hash(k))
                except Exception:
                    kt = (name, repr(k), id(k))
                try:
                    r = repr(v)
                except Exception as e:
                    r = "<repr failed: %s>" % type(e).__name__
                old = self.snap.get(kt)
                if old is None:
                    self.snap[kt] = (r, self.steps)
                elif old[0] != r:
                    changes.append((name, kt[1][:300], old[0][:600], r[:600], old[1]))
                    self.snap[kt] = (r, old[1])
        self.steps += 1
        return changes


# ============================================================================================ process-level state
def proc_kinds():
    """{(file, name): kind} of Lean `modelledProcState` (read from the source)."""
    src = open(os.path.join(lean.LEAN, "PyaModel", "Spec", "CacheSpec.lean")).read()
    body = src[src.index("def modelledProcState"):]
    body = body[:body.index("\n]")]
    return {(m.group(1), m.group(2)): m.group(3) for m in re.finditer(r'\("([^"]*)", "([^"]*)", \.(\w+)\)', body)}


class ProcWatch:
    """The process-level containers the scan found (module-level containers, container fields of module-level instances,
    class-level containers). Tables written at import time only (constTable / config) must render the same after every
    program; memo tables must keep their entries unchanged, and a key component that looks like an address must belong to
    a live object (an identity key is sound only while its object is alive). Unregistered containers count as memo."""

    def __init__(self, sites, kinds, budget=1500):
        self.items = []
        for f, name, tag in sites:
            if tag.startswith("decorated"):
                continue
            kind = kinds.get((f, name), "memo")
            if kind in ("registry", "accumulator", "memoFunction"):
                continue
            try:
                obj = importlib.import_module(f[:-3].replace("/", "."))
                for part in name.split("."):
                    obj = getattr(obj, part)
            except Exception:
                continue
            if tag.startswith("instance:"):
                for fld in tag[tag.index("(") + 1:-1].split(","):
                    c = getattr(obj, fld, None)
                    if isinstance(c, (dict, list, set)):
                        self.items.append(("%s:%s.%s" % (f, name, fld), kind, c))
            elif isinstance(obj, (dict, list, set, frozenset)) or hasattr(obj, "items"):
                self.items.append(("%s:%s" % (f, name), kind, obj))
        self.whole = {label: self._render(c) for label, kind, c in self.items if kind in ("constTable", "config")}
        self.entries = {}
        self.budget = budget
        self.turn = 0

    @staticmethod
    def _render(c):
        try:
            return repr(sorted(c, key=repr)) if isinstance(c, (set, frozenset)) else repr(c)
        except Exception as e:
            return "<repr failed: %s>" % type(e).__name__

    def step(self):
        """-> [(container, key, before, after)]"""
        import gc
        changes, suspects = [], []
        self.turn += 1
        for label, kind, c in self.items:
            if kind in ("constTable", "config"):
                r = self._render(c)
                if r != self.whole[label]:
                    changes.append((label, "<whole container>", self.whole[label][:400], r[:400]))
                    self.whole[label] = r
                continue
            if not isinstance(c, dict):
                continue
            snap = self.entries.setdefault(label, {})
            n = 0
            for k, v in list(c.items()):
                for comp in (k if isinstance(k, tuple) else (k,)):
                    if isinstance(comp, int) and not isinstance(comp, bool) and comp >= 1 << 24:
                        suspects.append((label, k, comp))
                try:
                    kt = (repr(k), hash(k))
                except Exception:
                    kt = (repr(k), id(k))
                old = snap.get(kt)
                if old is None:
                    if len(snap) < 20 * self.budget:
                        snap[kt] = self._render(v)
                elif n < self.budget and (hash(kt) + self.turn) % max(1, len(snap) // self.budget) == 0:
                    n += 1    # large tables: a rotating part of the old entries is re-rendered at every step
                    r = self._render(v)
                    if r != old:
                        changes.append((label, kt[0][:300], old[:400], r[:400]))
                        snap[kt] = r
        if suspects:
            live = {id(o) for o in gc.get_objects()}
            dead = [(label, k, a) for label, k, a in suspects if a not in live]
            if dead:
                label, k, a = dead[0]
                changes.append((label, repr(k)[:300], "a key that contains the address %d of an object" % a,
                                "no live object has that address any more (%d such keys): a later object can take the address "
                                "and inherit the entry" % len(dead)))
        return changes


PROC_JOB = r'''
import gc, json, sys
sys.path.insert(0, %(verif)r)
sys.path.insert(0, %(scratch)r)
from harness.props import c10
job = json.load(open(sys.argv[1]))
watch = c10.ProcWatch(c10.scan_proc_state(c10.pya.REPO), c10.proc_kinds()) if job.get("watch") else None
changes = []
kw = c10.new_kwargs()
for h in job["history"]:
    c10.check_program(h, kw if job["share"] else c10.new_kwargs())
    gc.collect()          # check_program keeps nothing: the AST of the history is freed here
    if watch:
        changes += watch.step()
r = c10.check_program(job["program"], kw if job["share"] else c10.new_kwargs())
if watch:
    changes += watch.step()
json.dump({"rendering": r, "changes": changes}, open(sys.argv[2], "w"), default=str)
'''

PROC_ROUTES = ("attr", "global", "closure")
PROC_TYPES = [("Union[int, str, None]", "Union[bytes, float, None]"), ("Union[list[int], None]", "Union[dict[str, int], None]"),
              ("Optional[str]", "Optional[float]"), ("Union[int, None]", "Union[str, bytes, None]")]


def procstate_program(route, name, types, n, uses, tag):
    """n classes / functions that narrow `name` (an attribute / a module global / a closure variable) in one branch only
    and use it `uses` times after the branch."""
    L = ["from typing import Union, Optional", "from typing_extensions import reveal_type"]
    args = ", ".join([("self.%s" % name) if route == "attr" else name] * uses)
    if route == "global":
        L.append("%s: %s = None" % (name, types))
    for i in range(n):
        if route == "attr":
            L += ["class %s%d:" % (tag, i), "    %s: %s" % (name, types), "    def m(self, strict: bool) -> None:", "        if strict:",
                  "            assert self.%s is not None" % name, "        reveal_type((%s,))" % args]
        elif route == "global":
            L += ["def %s%d(strict: bool) -> None:" % (tag.lower(), i), "    if strict:", "        assert %s is not None" % name,
                  "    reveal_type((%s,))" % args]
        else:
            L += ["def %s%d(%s: %s) -> None:" % (tag.lower(), i, name, types), "    def inner(strict: bool) -> None:", "        if strict:",
                  "            assert %s is not None" % name, "        reveal_type((%s,))" % args, "    inner(True)"]
    return "\n".join(L) + "\n"


def start_proc_job(ctx, job, tag):
    drv = os.path.join(ctx.scratch, "c10_procjob.py")
    if not os.path.exists(drv):
        with open(drv, "w") as f:
            f.write(PROC_JOB % {"verif": lean.HERE, "scratch": ctx.scratch})
    pin, pout = os.path.join(ctx.scratch, "pjob-%s.json" % tag), os.path.join(ctx.scratch, "pout-%s.json" % tag)
    json.dump(job, open(pin, "w"))
    env = dict(os.environ, PYTHONHASHSEED=str(job.get("seed", 0)), VERIF_REPO=pya.REPO)
    p = subprocess.Popen([sys.executable, drv, pin, pout], env=env, stdout=subprocess.DEVNULL, stderr=subprocess.PIPE, text=True)
    return p, pout, tag


def finish_proc_job(j):
    p, pout, tag = j
    _, err = p.communicate(timeout=3000)
    if p.returncode != 0:
        raise RuntimeError("process-history job %s failed: %s" % (tag, err[-1500:]))
    return json.load(open(pout))


def start_procstate(ctx):
    """Pairs (history H, program P) sharing a variable NAME (narrowed in one branch, used after it) with different types;
    each pair is run in fresh interpreters: P alone, H then P with one Checker, H then P with a fresh Checker each; the AST
    of H is dropped (gc) before P is parsed."""
    rng = ctx.rng
    ctx._c10_pruns = getattr(ctx, "_c10_pruns", 0) + 1
    names = ["value", "payload", "cursor", "state", "result", "owner", "limit", "handle", "buffer"]
    rng.shuffle(names)
    pairs = []
    for n in range(ctx.n(3, 9)):
        route = PROC_ROUTES[n % 3]
        th, tp = PROC_TYPES[rng.randrange(len(PROC_TYPES))]
        nh, uses, np_ = rng.randint(30, 45), rng.randint(18, 26), rng.randint(35, 50)
        hist = [procstate_program(route, names[n], th, nh, uses + j, "Item") for j in range(2)]
        prog = procstate_program(route, names[n], tp, np_, 4, "Record")
        jobs = {mode: start_proc_job(ctx, {"history": h, "program": prog, "share": share, "watch": mode == "shared", "seed": n},
                                     "%d-%d-%s" % (ctx._c10_pruns, n, mode))
                for mode, h, share in (("alone", [], True), ("shared", hist, True), ("fresh", hist, False))}
        pairs.append((route, names[n], hist, prog, jobs))
    return pairs


# stdlib submodules that neither pyanalyze nor this harness imports (checked in the job: `preloaded` is reported)
LAZY_SUBMODULES = [("xml.dom.minidom", "Document"), ("email.mime.text", "MIMEText"), ("concurrent.futures.thread", "ThreadPoolExecutor"),
                   ("xml.etree.ElementTree", "Element"), ("logging.handlers", "RotatingFileHandler"), ("http.cookies", "SimpleCookie"),
                   ("wsgiref.util", "FileWrapper"), ("email.mime.base", "MIMEBase"), ("xml.sax.handler", "ContentHandler"),
                   ("urllib.robotparser", "RobotFileParser"), ("multiprocessing.pool", "Pool"), ("html.parser", "HTMLParser"),
                   ("dbm.dumb", "error"), ("sqlite3.dbapi2", "Connection")]


def lazy_import_program(sub, attr, form, k):
    """P: the submodule is imported inside a function body (not executed when the module is loaded) and then used."""
    L = ["from typing_extensions import reveal_type", "def f%d() -> None:" % k]
    if form == "dotted":
        L += ["    import %s" % sub, "    reveal_type(%s.%s)" % (sub, attr)]
    elif form == "as":
        L += ["    import %s as m%d" % (sub, k), "    reveal_type(m%d.%s)" % (k, attr)]
    else:
        L += ["    from %s import %s" % (sub, attr), "    reveal_type(%s)" % attr]
    return "\n".join(L) + "\n"


def start_importstate(ctx):
    """The interpreter's module table as history: H imports a stdlib submodule at module level, P imports it lazily inside
    a function (dotted import without `as`, with the `as` / `from` forms as controls) and uses it; also the reverse
    order (P's lazy import before H: H fresh vs H after P). Fresh interpreters, one Checker per job."""
    rng = ctx.rng
    ctx._c10_iruns = getattr(ctx, "_c10_iruns", 0) + 1
    subs = rng.sample(LAZY_SUBMODULES, ctx.n(3, len(LAZY_SUBMODULES)))
    jobs = []
    for n, (sub, attr) in enumerate(subs):
        form = "dotted" if n < max(1, len(subs) - 2) else ("as" if n % 2 else "from")
        P = lazy_import_program(sub, attr, form, n)
        H = "import %s\nX%d = %s.%s\n" % (sub, n, sub, attr)
        tag = "imp%d-%d" % (ctx._c10_iruns, n)
        jobs.append((sub, form, H, P, start_proc_job(ctx, {"history": [], "program": P, "share": True, "seed": n}, tag + "a"),
                     start_proc_job(ctx, {"history": [H], "program": P, "share": True, "seed": n}, tag + "h"),
                     start_proc_job(ctx, {"history": [P], "program": H, "share": True, "seed": n}, tag + "r"),
                     start_proc_job(ctx, {"history": [], "program": H, "share": True, "seed": n}, tag + "b")))
    return jobs


def finish_importstate(ctx, jobs):
    for sub, form, H, P, ja, jh, jr, jb in jobs:
        ra, rh, rr, rb = (finish_proc_job(j)["rendering"] for j in (ja, jh, jr, jb))
        ctx.count(2, **{"import_" + form: 2})
        ctx.nontriv("import|%s|%s" % (sub, form))
        ctx.corr("importstate", 2)
        for hist, prog, fresh, after, what in ((H, P, ra, rh, "imported at module level by an earlier program"),
                                               (P, H, rb, rr, "imported lazily inside a function of an earlier program")):
            if fresh != after:
                ctx.candidate({"kind": "process-history", "history": [hist], "program": prog, "share": True, "fresh": fresh, "other": after},
                              "a program's diagnostics depend on whether the interpreter's sys.modules already holds %s (%s; `%s` form): "
                              "%r alone / %r after" % (sub, what, form, [d[3][:110] for d in fresh], [d[3][:110] for d in after]),
                              cls=None, conforms=True, stream="importstate")


def finish_procstate(ctx, pairs):
    for route, name, hist, prog, jobs in pairs:
        res = {mode: finish_proc_job(j) for mode, j in jobs.items()}
        alone = res["alone"]["rendering"]
        ctx.count(1, **{"procstate_" + route: 1})
        ctx.nontriv("procstate|" + prog[:200])
        for mode in ("shared", "fresh"):
            ctx.corr("procstate")
            r = res[mode]["rendering"]
            if r != alone:
                nd = sum(1 for a, b in zip(alone, r) if a != b) + abs(len(alone) - len(r))
                ex = next(((a, b) for a, b in zip(alone, r) if a != b), (None, None))
                ctx.candidate({"kind": "process-history", "history": hist, "program": prog, "share": mode == "shared",
                               "fresh": alone[:3], "other": r[:3]},
                              "%d of %d diagnostics of a program differ between a fresh process and the same process after "
                              "unrelated programs that use the same variable name `%s` (%s; %s Checker): %r / %r" % (
                                  nd, len(r), name, route, "one" if mode == "shared" else "a fresh", ex[0] and ex[0][3][:100], ex[1] and ex[1][3][:100]),
                              cls=None, conforms=True, stream="procstate")
            for ch in res[mode]["changes"][:2]:
                ctx.candidate({"kind": "process-history", "history": hist, "program": prog, "share": mode == "shared",
                               "container": ch[0], "key": ch[1], "before": ch[2], "after": ch[3]},
                              "process-level state %s: %s -> %s" % (ch[0], ch[2][:200], ch[3][:200]), cls=None, conforms=True,
                              stream="procstate")


# ============================================================================================ memo probes and lookup routes
_ADDR = re.compile(r"0x[0-9a-fA-F]+")


class MemoProbe:
    """Wraps, in this process, every method that stores into a registered memo table (scan_memo_keys). For each call that
    stored its own result (a fresh computation) it logs (arguments, key, stored value). Two fresh computations that end
    up under the same key with different arguments and different values mean the key does not determine the value."""

    def __init__(self, rows):
        self.rows = [r for r in rows if "." in r[1] and not r[1].endswith("__init__")]
        self.log = {}      # (function, table, key) -> {(args, value): label}
        self.label = None
        self.undo = []
        self.depth = 0
        self.pending = {}  # stores of the call chain under way: an outer call may overwrite what an inner one stored

    def __enter__(self):
        seen = set()
        for f, qual, attr, cexpr, kexpr, vp, kp in self.rows:
            if qual in seen:
                continue
            seen.add(qual)
            try:
                mod = importlib.import_module(f[:-3].replace("/", "."))
                clsname, fname = qual.rsplit(".", 1)
                cls = mod
                for part in clsname.split("."):
                    cls = getattr(cls, part)
                orig = cls.__dict__[fname]
            except Exception:
                continue
            if not callable(orig):
                continue
            setattr(cls, fname, self._wrap(orig, qual, compile(cexpr, "<container>", "eval"), cexpr.split(".")[0]))
            self.undo.append((cls, fname, orig))
        return self

    def __exit__(self, *a):
        for cls, fname, orig in self.undo:
            setattr(cls, fname, orig)
        self.undo = []

    def _wrap(self, orig, qual, cont_code, owner):
        import inspect
        names = [p for p in inspect.signature(orig).parameters]
        probe = self

        def wrapper(*args, **kw):
            env = dict(zip(names, args))
            env.update(kw)
            try:
                cont = eval(cont_code, {}, env)
                n0 = len(cont)
            except Exception:
                cont = None
            probe.depth += 1
            try:
                r = orig(*args, **kw)
            finally:
                probe.depth -= 1
            try:
                if cont is not None and (len(cont) > n0 or (len(cont) and cont.get(next(reversed(cont))) is r)):
                    key = next(reversed(cont))
                    if cont[key] is r:
                        def short(t, n):   # full text decides (its hash is kept), a prefix is shown
                            return t if len(t) <= n else t[:n] + "…#" + hashlib.sha256(t.encode()).hexdigest()[:10]
                        a = ", ".join("%s=%s" % (k, short(_ADDR.sub("0x", repr(v)), 120)) for k, v in env.items()
                                      if k not in ("self", "ctx", "visitor"))
                        # which table: one per Checker when it hangs off a per-Checker singleton (`self.…` of Checker,
                        # ArgSpecCache, TypeshedFinder: compared across Checkers), one per protocol for TypeObject, one per
                        # object when it hangs off an argument (`val.resolution_cache`)
                        o = env.get(owner)
                        tok = repr(getattr(o, "typ", "")) if owner == "self" else id(o)
                        if _ADDR.search(repr(key)):
                            tok = id(cont)   # a key that contains an object is comparable inside one table only
                        probe.pending[(qual, tok, short(repr(key), 300))] = ((a, short(_ADDR.sub("0x", repr(r)), 500)), probe.label)
            except Exception:
                pass
            if probe.depth == 0 and probe.pending:
                for k3, (av, lab) in probe.pending.items():
                    probe.log.setdefault(k3, {}).setdefault(av, lab)
                probe.pending = {}
            return r
        wrapper.__wrapped__ = orig
        return wrapper

    def conflicts(self):
        out = []
        for (qual, _tok, key), calls in self.log.items():
            items = list(calls.items())
            for i in range(len(items)):
                for j in range(i + 1, len(items)):
                    (a1, v1), l1 = items[i]
                    (a2, v2), l2 = items[j]
                    if a1 != a2 and v1 != v2:
                        out.append((qual, key, a1, v1, l1, a2, v2, l2))
                        break
                else:
                    continue
                break
        return out


# one stub member reached through different routes: (imports, receiver type, member, an overriding definition, call arguments)
ROUTE_MEMBERS = [
    ("from collections.abc import Sized", "Sized", "__len__", "def __len__(self) -> int: return 0", ""),
    ("from collections.abc import Iterable, Iterator", "Iterable[int]", "__iter__", "def __iter__(self) -> Iterator[int]: return iter([])", ""),
    ("from collections.abc import Container", "Container[int]", "__contains__", "def __contains__(self, x: object) -> bool: return True", "1"),
    ("from typing import SupportsAbs", "SupportsAbs[int]", "__abs__", "def __abs__(self) -> int: return 0", ""),
    ("from typing import SupportsIndex", "SupportsIndex", "__index__", "def __index__(self) -> int: return 0", ""),
    ("from collections.abc import Hashable", "Hashable", "__hash__", "def __hash__(self) -> int: return 0", ""),
    ("", "str", "upper", "def upper(self) -> str: return self", ""),
    ("", "list[int]", "append", "def append(self, x: int) -> None: pass", "1"),
    ("", "dict[str, int]", "get", None, "'k'"),
]
ROUTES_CLASS = ("override", "type-receiver", "class-object")
ROUTES_INSTANCE = ("protocol", "instance-attribute", "call")


def route_program(mi, route, k):
    imp, typ, member, override, cargs = ROUTE_MEMBERS[mi]
    base = typ.split("[")[0]
    L = ["from typing_extensions import reveal_type"] + ([imp] if imp else [])
    if route == "override":
        if override is None:
            return None
        L += ["class Sub%d(%s):" % (k, typ), "    " + override]
    elif route == "type-receiver":
        L += ["def f%d(t: type[%s]) -> None:" % (k, base), "    reveal_type(t.%s)" % member]
    elif route == "class-object":
        L += ["def f%d() -> None:" % k, "    reveal_type(%s.%s)" % (base, member)]
    elif route == "protocol":
        if override is None or not imp:
            return None
        L += ["class Impl%d:" % k, "    " + override, "def want%d(x: %s) -> None: ..." % (k, typ), "def f%d() -> None:" % k,
              "    want%d(Impl%d())" % (k, k), "    want%d(3.5)" % k]
    elif route == "instance-attribute":
        L += ["def f%d(x: %s) -> None:" % (k, typ), "    reveal_type(x.%s)" % member]
    else:
        L += ["def f%d(x: %s) -> None:" % (k, typ), "    reveal_type(x.%s(%s))" % (member, cargs)]
    return "\n".join(L) + "\n"


def routes_stream(ctx, probe):
    """P fresh vs P after one H with the same Checker, where H reaches the same stub member through a route of the other
    level (class-level: override check, type[X] receiver, class object; instance-level: protocol compatibility,
    attribute of an instance, call): both directions."""
    rng = ctx.rng
    pairs = []
    for mi in range(len(ROUTE_MEMBERS)):
        for rc in ROUTES_CLASS:
            for ri in ROUTES_INSTANCE:
                pairs += [(mi, rc, ri), (mi, ri, rc)]
    if not ctx.big():
        first = [(0, "override", "protocol")]       # the smallest known mix always runs
        pairs = first + rng.sample([p for p in pairs if p not in first], 23)
    fresh = {}
    k = itertools.count(500000)
    for mi, rh, rp in pairs:
        H, P = route_program(mi, rh, next(k)), route_program(mi, rp, mi * 10 + (ROUTES_CLASS + ROUTES_INSTANCE).index(rp))
        if H is None or P is None:
            continue
        probe.label = P
        if P not in fresh:
            fresh[P] = check_program(P, new_kwargs())
        kw = new_kwargs()
        probe.label = H
        check_program(H, kw)
        probe.label = P
        r = check_program(P, kw)
        ctx.count(1, **{"route_%s_then_%s" % (rh, rp): 1})
        ctx.corr("routes")
        if fresh[P]:
            ctx.nontriv("route|%d|%s|%s" % (mi, rh, rp))
        if r != fresh[P]:
            ctx.candidate({"program": P, "history": [H], "run": "history", "fresh": fresh[P], "other": r},
                          "diagnostics of a program differ after an unrelated program that reached %s.%s through another "
                          "route (%s before %s): %r / %r" % (ROUTE_MEMBERS[mi][1], ROUTE_MEMBERS[mi][2], rh, rp,
                                                             [d[3][:120] for d in fresh[P]], [d[3][:120] for d in r]),
                          cls=None, conforms=True, stream="routes")


def probe_candidates(ctx, probe):
    for qual, key, a1, v1, l1, a2, v2, l2 in probe.conflicts()[:3]:
        ctx.candidate({"kind": "memo-key", "function": qual, "key": key, "calls": [[a1, v1], [a2, v2]],
                       "program": l2 or "", "history": [], "programs": [l1, l2]},
                      "the key of a memo table does not determine the stored value: %s stored %s for (%s) and %s for (%s) "
                      "under the same key %s" % (qual, v1[:120], a1[:120], v2[:120], a2[:120], key[:120]),
                      cls=None, conforms=True, stream="memo-key")


# ============================================================================================ protocol worlds (Model B)
ARGS = ["int", "str", "T"]   # variant a of a generic protocol P[T]: T = ARGS[a]; "T" = the library's type variable itself
BOUND_TOKEN = {"int": 0, "str": 1, "Any": 2}   # bound tokens of the Lean model; 3 = a tuple; class C<k> = 10 + k; type variable T = 0


class World:
    """nP generic protocols `P<i>(Protocol[T])`, nC classes; protocol i: members {name: [slot]},
    slot = 'int' | 'T' | ('P', k, 'T' | 'int' | 'str') (= P<k>[T] / P<k>[int] / P<k>[str]);
    class j: members {name: [slot]} with slot = 'int' | 'str' | 'Any' | ('C', k). Member names are global (m0, m1, …)."""

    def __init__(self, protos, classes, name):
        self.protos, self.classes, self.name = protos, classes, name
        self.module = None

    def source(self):
        L = ["from typing import Any, Protocol, TypeVar", "", 'T = TypeVar("T")', ""]

        def ty(s):
            if isinstance(s, tuple):
                return '"P%d[%s]"' % (s[1], s[2]) if s[0] == "P" else '"C%d"' % s[1]
            return s

        def ret(slots):
            if len(slots) == 1:
                return ty(slots[0])
            return "tuple[%s]" % ", ".join(ty(s) for s in slots)
        for i, mem in enumerate(self.protos):
            L.append("class P%d(Protocol[T]):" % i)
            for m, slots in mem.items():
                L.append("    def %s(self) -> %s: ..." % (m, ret(slots)))
            L.append("")
        for j, mem in enumerate(self.classes):
            L.append("class C%d:" % j)
            if not mem:
                L.append("    pass")
            for m, slots in mem.items():
                L.append("    def %s(self) -> %s: raise NotImplementedError" % (m, ret(slots)))
            L.append("")
        # generic callables: a generic Protocol parameter matched structurally plus a parameter using the same type variable
        for i in range(len(self.protos)):
            L.append("def f%d(a: P%d[T], b: T) -> T: raise NotImplementedError" % (i, i))
        L.append("")
        return "\n".join(L) + "\n"

    def load(self, ctx):
        path = os.path.join(ctx.scratch, self.name + ".py")
        with open(path, "w") as f:
            f.write(self.source())
        if ctx.scratch not in sys.path:
            sys.path.insert(0, ctx.scratch)
        importlib.invalidate_caches()
        self.module = importlib.import_module(self.name)
        return self.module

    @staticmethod
    def slot_atom(e, t, a):
        if e == "T" and ARGS[a] == "T":
            # TypeVarValue(T).can_assign(actual): always accepted, with the bound `actual <= T`
            return "B0.%d" % (10 + t[1] if isinstance(t, tuple) else BOUND_TOKEN[t])
        if e == "T":
            e = ARGS[a]
        if e in ("int", "str"):
            if isinstance(t, tuple):
                return "F"
            return "A" if t == "Any" else "T" if t == e else "F"
        # e = ('P', k, mode)
        a2 = a if e[2] == "T" else ARGS.index(e[2])
        if isinstance(t, tuple):
            return "S%d.%d.%d" % (e[1], a2, t[1])
        return "A" if t == "Any" else "F"

    def req(self, i, a, j, member_order):
        """Members of protocol i (variant a) against class j, in the given iteration order: list of list of atoms."""
        out = []
        for m in member_order:
            es = self.protos[i][m]
            ts = self.classes[j].get(m)
            if ts is not None and es == ["T"] and ARGS[a] == "T":
                # a bare type variable accepts whatever the member returns and records it as a bound
                out.append(["B0.%d" % (3 if len(ts) != 1 else 10 + ts[0][1] if isinstance(ts[0], tuple) else BOUND_TOKEN[ts[0]])])
            elif ts == ["Any"]:
                out.append(["A"])  # the whole member is Any: accepted unless Any is excluded, whatever the shape
            elif ts is None or len(ts) != len(es):
                out.append(["F"])
            else:
                out.append([self.slot_atom(e, t, a) for e, t in zip(es, ts)])
        return out

    def reqs_text(self, orders):
        parts = []
        for i in range(len(self.protos)):
            for a in range(len(ARGS)):
                for j in range(len(self.classes)):
                    ms = self.req(i, a, j, orders[i])
                    parts.append("%d.%d.%d:%s" % (i, a, j, "/".join("+".join(m) for m in ms)))
        return ";".join(parts)

    def ranks(self, orders):
        """Longest-path rank of every (protocol, class) pair if the nested checks are well-founded, else None."""
        edges = {}
        for i in range(len(self.protos)):
            for j in range(len(self.classes)):
                e = []
                for a in range(len(ARGS)):
                    for m in self.req(i, a, j, orders[i]):
                        for at in m:
                            if at[0] == "S":
                                x = [int(z) for z in at[1:].split(".")]
                                e.append((x[0], x[2]))
                edges[(i, j)] = e
        rank, state = {}, {}

        def visit(n):
            if state.get(n) == 1:
                raise ValueError("cycle")
            if n in rank:
                return rank[n]
            state[n] = 1
            r = 0
            for s in edges[n]:
                r = max(r, visit(s) + 1)
            state[n] = 2
            rank[n] = r
            return r
        try:
            for n in edges:
                visit(n)
        except ValueError:
            return None
        return rank

    def nontrivial(self):
        return any(isinstance(s, tuple) or s == "Any" for c in self.classes for sl in c.values() for s in sl)

    def variant_preserving(self, orders):
        """Every nested protocol check uses the generic arguments of the enclosing one (P<k>[T] inside P<i>[T])."""
        for i in range(len(self.protos)):
            for a in range(len(ARGS)):
                for j in range(len(self.classes)):
                    for m in self.req(i, a, j, orders[i]):
                        for at in m:
                            if at[0] == "S" and int(at[1:].split(".")[1]) != a:
                                return False
        return True


def random_world(rng, name, np_max=3, nc_max=3):
    nP, nC = rng.randint(1, np_max), rng.randint(1, nc_max)
    names = ["m%d" % k for k in range(3)]
    protos = []
    for i in range(nP):
        mem = {}
        for m in rng.sample(names, rng.randint(1, 2)):
            mem[m] = [("P", rng.randrange(nP), rng.choice(["T", "T", "int", "str"])) if rng.random() < 0.5
                      else rng.choice(["int", "T", "T"]) for _ in range(rng.randint(1, 2))]
        protos.append(mem)
    classes = []
    for j in range(nC):
        mem = {}
        for m in names:
            if rng.random() < 0.8:
                # mostly shaped like some protocol's member so that checks get past the arity test
                shapes = [p[m] for p in protos if m in p]
                n = len(rng.choice(shapes)) if shapes and rng.random() < 0.9 else rng.randint(1, 2)
                mem[m] = [rng.choice(["int", "int", "str", "Any", ("C", rng.randrange(nC)), ("C", rng.randrange(nC))]) for _ in range(n)]
        classes.append(mem)
    return World(protos, classes, name)


def small_worlds(prefix):
    """The smallest interesting shape, enumerated: P0 {m0: [P1[T]|…, T]}, P1 {m0: [P0[T]]} against two classes whose m0
    slots range over int / str / Any / C0 / C1."""
    out = []
    ts = ["int", "str", "Any", ("C", 0), ("C", 1)]
    k = 0
    for a in ts:
        for b in ["int", "str", "Any"]:
            for c in [("C", 0), ("C", 1), "Any", "int"]:
                protos = [{"m0": [("P", 1, "T"), "T"]}, {"m0": [("P", 0, "T" if k % 3 else "int")]}]
                classes = [{"m0": [a, b]}, {"m0": [c]}]
                out.append(World(protos, classes, "%s_s%d" % (prefix, k)))
                k += 1
    return out


def member_orders(world, checker):
    """The order in which `_is_compatible_with_protocol` visits the members of every protocol of the world in this
    process: the iteration order of the `protocol_members` set, or the sorted order if the loop sorts them."""
    import inspect
    from pyanalyze.type_object import TypeObject
    srt = "sorted(self.protocol_members)" in inspect.getsource(TypeObject._is_compatible_with_protocol)
    out = []
    for i in range(len(world.protos)):
        ms = checker.make_type_object(getattr(world.module, "P%d" % i)).protocol_members
        out.append(sorted(ms) if srt else list(ms))
    return out


def render_bounds(world, bm):
    """A real bounds map in the notation of the Lean driver: {tv:tok.tok;…} (tokens: BOUND_TOKEN, class C<k> = 10+k)."""
    from pyanalyze.value import AnyValue, LowerBound, TypedValue
    parts = []
    for tv, bounds in bm.items():
        toks = []
        for b in bounds:
            v = b.value
            if not isinstance(b, LowerBound):
                toks.append("?%s" % type(b).__name__)
            elif isinstance(v, AnyValue):
                toks.append("2")
            elif isinstance(v, TypedValue) and v.typ is int:
                toks.append("0")
            elif isinstance(v, TypedValue) and v.typ is str:
                toks.append("1")
            elif type(v).__name__ == "SequenceValue":
                toks.append("3")
            elif isinstance(v, TypedValue) and getattr(v.typ, "__module__", None) == world.name and v.typ.__name__.startswith("C"):
                toks.append(str(10 + int(v.typ.__name__[1:])))
            else:
                toks.append("?%r" % (v,))
        parts.append("%s:%s" % ("0" if tv is world.module.T else "?%r" % (tv,), ".".join(toks)))
    return "{" + ";".join(parts) + "}"


def api_history(world, checker, queries, bounds=None, after=None):
    """Verdicts of GenericValue(P, [arg]).can_assign(TypedValue(C)) along a history; query = (ex, i, a, j). If `bounds`
    is a list, the rendered bounds maps ('-' for an error) are appended to it; `after(result)` runs after each query."""
    from pyanalyze.value import CanAssignError, GenericValue, TypedValue, TypeVarValue
    out = []
    for ex, i, a, j in queries:
        arg = TypeVarValue(world.module.T) if ARGS[a] == "T" else TypedValue(int if a == 0 else str)
        left = GenericValue(getattr(world.module, "P%d" % i), [arg])
        right = TypedValue(getattr(world.module, "C%d" % j))
        try:
            if ex:
                with checker.set_exclude_any():
                    r = left.can_assign(right, checker)
            else:
                r = left.can_assign(right, checker)
            out.append("0" if isinstance(r, CanAssignError) else "1")
            if bounds is not None:
                bounds.append("-" if isinstance(r, CanAssignError) else render_bounds(world, r))
            if after is not None:
                after(r)
        except Exception as e:
            out.append("EXC:%s" % type(e).__name__)
            if bounds is not None:
                bounds.append("EXC")
    return out


def qtext(q):
    return "%s%d.%d.%d" % ("x" if q[0] else "n", q[1], q[2], q[3])


def impl_variant():
    """Which repairs of the protocol cache key the implementation under check has, read off the source of
    TypeObject.can_assign: mode + generic arguments in the key / no caching while assumptions are in force. The Lean
    driver runs the matching variant of the model (`check` = 000, `check2` otherwise)."""
    import inspect
    from pyanalyze.type_object import TypeObject
    src = inspect.getsource(TypeObject.can_assign)
    mk = "should_exclude_any()" in src
    ak = bool(re.search(r"cache_key\s*=\s*\(\s*self_val", src))
    to = "has_assumed_compatibilities" in src
    return "%d%d%d" % (mk, ak, to)


def hist_line(world, orders, ranks, hist, q):
    nP, nC = len(world.protos), len(world.classes)
    rk = "" if ranks is None else ",".join("%d.%d=%d" % (p, c, r) for (p, c), r in sorted(ranks.items()))
    return "\t".join(["hist", world.reqs_text(orders), "", rk, str(nP * nC + 2), ",".join(qtext(x) for x in hist), qtext(q),
                      impl_variant()])


def parse_kv(line):
    return dict(x.split("=", 1) for x in line.split(" ") if "=" in x)


# ============================================================================================ generated programs
HEADER = ("from typing import Any, Protocol, Union\nfrom typing_extensions import reveal_type\nimport contextlib\n"
          "from fractions import Fraction\n"
          "from collections.abc import Hashable, Sized, Iterable, Container, Collection, Reversible\n"
          "from typing import SupportsInt, SupportsFloat, SupportsAbs, SupportsIndex, SupportsRound, SupportsComplex, SupportsBytes\n"
          "from pyanalyze.extensions import evaluated, is_of_type\n")
NAMEPOOL = ["alpha", "beta", "gamma", "delta", "eps", "zeta", "eta", "theta", "iota", "kappa", "lam", "mu", "nu", "xi"]
# Typeshed protocols whose verdict is the protocol check alone. (For Iterable[T] / Collection[T] / … and a value
# whose class lists them as nominal generic bases, GenericValue.can_assign also compares the generic arguments through
# the generic bases, outside the protocol check: the atom model of a pair would be too coarse.)
BUILTIN_PROTOS = ["Hashable", "Sized", "SupportsInt", "SupportsFloat", "SupportsIndex", "SupportsAbs[int]",
                  "SupportsAbs[str]", "SupportsAbs[float]", "SupportsRound[int]", "SupportsRound[str]", "SupportsComplex",
                  "SupportsBytes"]
BUILTIN_VALUES = ["dict[int, str]", "list[int]", "int", "str", "float", "bytes", "set[int]", "tuple[int, ...]", "object",
                  "bytearray", "complex", "range"]


class Snippet:
    """One function (plus the definitions it needs) whose diagnostics come from one modelled site."""

    def __init__(self, kind, lines, **info):
        self.kind, self.lines, self.info = kind, lines, info
        self.first = self.last = 0  # line range in the program


def snip_kwargs(k, names):
    L = ["def g%d(a: int = 0) -> None: ..." % k, "def f%d() -> None:" % k,
         "    g%d(1, %s)" % (k, ", ".join("%s=%d" % (n, i) for i, n in enumerate(names)))]
    return Snippet("kwargs", L, elems=list(names))


def snip_keys(k, keys, given):
    L = ["def f%d() -> None:" % k,
         "    print(%r %% {%s})" % (" ".join("%%(%s)s" % x for x in keys), ", ".join("%r: 1" % x for x in given))]
    return Snippet("keys", L, elems=[x for x in keys if x not in given], keys=list(keys), given=list(given))


def snip_proto(k, members, outcome, use):
    """outcome: member -> ok | missing | conflict."""
    L = ["class P%d(Protocol):" % k] + ["    def %s(self) -> int: ..." % m for m in members]
    L.append("class A%d:" % k)
    body = []
    for m in members:
        if outcome[m] == "ok":
            body.append("    def %s(self) -> int: return 0" % m)
        elif outcome[m] == "conflict":
            body.append("    def %s(self) -> str: return ''" % m)
    L += body or ["    pass"]
    if use == "arg":
        L += ["def want%d(p: P%d) -> None: ..." % (k, k), "def f%d(a: A%d) -> None:" % (k, k), "    want%d(a)" % k]
    else:
        L += ["def f%d(a: A%d) -> None:" % (k, k), "    x: P%d = a" % k, "    print(x)"]
    return Snippet("proto", L, elems=list(members), outcome=dict(outcome), k=k)


def snip_or(k, tests, declared, classes):
    """classes: list of (name, base or None) local classes; tests: names tested by isinstance (local or builtin);
    declared: 'object' | 'Any' | list of names (Union)."""
    L = ["class %s%s: pass" % (n, "(%s)" % b if b else "") for n, b in classes]
    ann = declared if isinstance(declared, str) else ("Union[%s]" % ", ".join(declared) if len(declared) > 1 else declared[0])
    L += ["def f%d(x: %s) -> None:" % (k, ann),
          "    if %s:" % " or ".join("isinstance(x, %s)" % t for t in tests), "        reveal_type(x)"]
    return Snippet("or", L, tests=list(tests), declared=declared, classes=list(classes))


def snip_try(k, n, how):
    L = ["class T%d_%d: pass" % (k, i) for i in range(n + 1)]
    L += ["def f%d() -> None:" % k, "    x = T%d_0()" % k]
    if how == "try":
        L += ["    try:"] + ["        x = T%d_%d()" % (k, i) for i in range(1, n + 1)] + ["    except Exception:", "        pass"]
    else:
        L += ["    with contextlib.suppress(Exception):"] + ["        x = T%d_%d()" % (k, i) for i in range(1, n + 1)]
    L += ["    reveal_type(x)"]
    return Snippet("try", L, n=n, k=k, how=how)


def snip_defnodes(k, n, test):
    """A variable with n+1 definitions (if / elif / else), then narrowed: the constraint's `definition_nodes` frozenset."""
    L = ["class D%d_%d: pass" % (k, i) for i in range(n + 1)]
    L += ["def f%d(c: int) -> None:" % k, "    if c == 0:", "        x = D%d_0()" % k]
    for i in range(1, n):
        L += ["    elif c == %d:" % i, "        x = D%d_%d()" % (k, i)]
    L += ["    else:", "        x = D%d_%d()" % (k, n)]
    L += ["    if %s:" % ("isinstance(x, object)" if test == 0 else "x is not None"), "        reveal_type(x)"]
    return Snippet("defnodes", L, n=n, k=k)


def snip_inset(k, names):
    """`x in {…}` with a set literal: the str variable is narrowed to the Literal union of the members."""
    L = ["def f%d(x: str) -> None:" % k, "    if x in {%s}:" % ", ".join("%r" % n for n in names), "        reveal_type(x)"]
    return Snippet("inset", L, elems=list(names))


# callables whose typeshed signature has a protocol-typed parameter: (import, reveal expression, a call of it)
SIGCALLS = [("", "len", "len([1])"), ("import operator", "operator.index", "operator.index(3)"), ("", "hash", "hash(1)"),
            ("", "iter", "iter([1])"), ("", "bytes", "bytes(3)"), ("", "int", "int('3')"), ("", "float", "float('3')"),
            ("", "reversed", "reversed([1])"), ("import operator", "operator.length_hint", "operator.length_hint([1])")]


def snip_sig(k, which, call):
    imp, fn, callexpr = SIGCALLS[which % len(SIGCALLS)]
    body = "print(%s)" % callexpr if call else "reveal_type(%s)" % fn
    return Snippet("sig", ([imp] if imp else []) + ["def f%d() -> None:" % k, "    " + body], fn=fn, call=call)


def snip_tvfail(k, n, constrained):
    """A generic function with n type variables, each made unsolvable in the same call: one incompatible_call whose
    message lists one sub-error per type variable (resolve_bounds_map goes over `all_typevars`, a set at the call site)."""
    tys = ["int", "str", "bytes", "float"]
    lits = ["'a'", "1", "2.0", "b'x'"]          # literal i conflicts with callback type i
    L = ["from typing import Callable, TypeVar"]
    if constrained:
        L += ["TV%d_%d = TypeVar('TV%d_%d', int, str)" % (k, i, k, i) for i in range(n)]
        params = ", ".join("a%d: TV%d_%d, b%d: TV%d_%d" % (i, k, i, i, k, i) for i in range(n))
        L += ["def g%d(%s) -> None: ..." % (k, params), "def f%d() -> None:" % k,
              "    g%d(%s)" % (k, ", ".join("1, 's'" if i % 2 == 0 else "'t', 2" for i in range(n)))]
    else:
        L += ["TV%d_%d = TypeVar('TV%d_%d')" % (k, i, k, i) for i in range(n)]
        L += ["def cb%d_%d(x: %s) -> None: ..." % (k, i, tys[i]) for i in range(n)]
        params = ", ".join("a%d: TV%d_%d, f%d: Callable[[TV%d_%d], None]" % (i, k, i, i, k, i) for i in range(n))
        L += ["def g%d(%s) -> None: ..." % (k, params), "def f%d() -> None:" % k,
              "    g%d(%s)" % (k, ", ".join("%s, cb%d_%d" % (lits[i], k, i) for i in range(n)))]
    return Snippet("tvfail", L, n=n)


def snip_control(k, which):
    body = ["a.nope", "print(a + 'x')", "b: str = a\n    print(b)", "reveal_type(a)", "len(a)", "a(1)"][which % 6]
    return Snippet("control", ["def f%d(a: int) -> None:" % k, "    " + body])


def snip_mode(k, proto, value, ex):
    """One protocol query on typeshed/builtin types: normal mode = annotated assignment, exclude-Any mode =
    is_of_type inside an @evaluated function (its default)."""
    if ex:
        L = ["@evaluated", "def ev%d(x: object):" % k, "    if is_of_type(x, %s):" % proto, "        return int",
             "    else:", "        return str", "def f%d(a: %s) -> None:" % (k, value), "    reveal_type(ev%d(a))" % k]
    else:
        L = ["def f%d(a: %s) -> None:" % (k, value), "    x: %s = a" % proto, "    print(x)"]
    return Snippet("mode", L, world="builtin", proto=proto, value=value, ex=ex)


def snip_world(k, world, i, a, j, ex):
    p, c = "%s.P%d[%s]" % (world.name, i, ARGS[a]), "%s.C%d" % (world.name, j)
    s = snip_mode(k, p, c, ex)
    s.info.update(world=world.name, i=i, a=a, j=j)
    return s


def _probe(k, params, expr, probe):
    """reveal_type / wrong-return / wrong-argument probe of one call expression."""
    if probe == 0:
        return ["def f%d(%s) -> None:" % (k, params), "    reveal_type(%s)" % expr]
    if probe == 1:
        return ["def f%d(%s) -> str:" % (k, params), "    return %s" % expr]
    return ["def want%d(s: str) -> None: ..." % k, "def f%d(%s) -> None:" % (k, params), "    want%d(%s)" % (k, expr)]


def snip_gcall(k, world, i, j, arg, probe):
    """`lib.f<i>(c, arg)` with `def f<i>(a: P<i>[T], b: T) -> T`: the protocol query (normal mode, variant T) whose bounds
    map the call machinery unifies with the bound `arg <= T`."""
    L = _probe(k, "c: %s.C%d" % (world.name, j), "%s.f%d(c, %s)" % (world.name, i, arg), probe)
    return Snippet("mode", L, world=world.name, proto="%s.P%d[T]" % (world.name, i), value="%s.C%d" % (world.name, j),
                   ex=False, i=i, a=ARGS.index("T"), j=j, gcall=True)


# typeshed callables with a generic Protocol parameter matched structurally plus another parameter using the same type
# variable: (parameter declaration, [call expressions with different other arguments])
TCALLS = [
    ("x: Fraction", ["pow(x, 2)", "pow(x, 0.5)", "pow(x, -1)", "pow(x, Fraction(1, 2))", "pow(x, 2, None)"]),
    ("x: int", ["pow(x, 2)", "pow(x, 0.5)", "pow(x, -1)", "pow(x, 2, 5)"]),
    ("x: float", ["pow(x, 2)", "pow(x, 0.5)", "pow(x, 1j)"]),
    ("xs: list[Fraction]", ["sum(xs)", "sum(xs, 0.5)", "sum(xs, Fraction(0))", "sum(xs, 1j)"]),
    ("xs: list[int]", ["sum(xs)", "sum(xs, 0.5)", "sum(xs, Fraction(0))", "sum(xs, start=1)"]),
    ("x: Fraction", ["max(x, 1)", "max(x, 0.5)", "min(x, Fraction(2))", "max(x, 1, 0.5)", "min(x, x)"]),
    ("x: int", ["max(x, 1)", "max(x, 0.5)", "min(x, True)", "max([x], default=0.5)", "max([x], default=None)"]),
    ("x: str", ["max(x, 'a')", "min(x, 'b', 'c')", "max([x], key=len)", "max([x], default=1)"]),
    ("xs: list[str]", ["sorted(xs)", "sorted(xs, key=len)", "sorted(xs, reverse=True)", "sorted(xs, key=lambda s: 0.5)"]),
    ("xs: list[Fraction]", ["sorted(xs)", "sorted(xs, key=float)", "sorted(xs, key=abs)"]),
    ("x: Fraction", ["divmod(x, 2)", "divmod(x, 0.5)", "divmod(x, Fraction(1, 3))", "divmod(2, x)"]),
    ("x: int", ["divmod(x, 2)", "divmod(x, 0.5)", "divmod(x, True)"]),
    ("x: Fraction", ["round(x)", "round(x, 2)", "round(x, None)"]),
    ("x: float", ["round(x)", "round(x, 2)", "round(x, True)"]),
    ("x: Fraction", ["abs(x)", "abs(-x)"]),
    ("x: complex", ["abs(x)", "abs(x * 2)"]),
    ("xs: list[int]", ["next(iter(xs))", "next(iter(xs), None)", "next(iter(xs), 0.5)", "next(iter(xs), 'a')"]),
    ("xs: dict[str, Fraction]", ["next(iter(xs))", "next(iter(xs.values()), 0.5)", "next(iter(xs.items()), None)"]),
]


def snip_tcall(k, decl, expr, probe):
    return Snippet("tcall", _probe(k, decl, expr, probe), decl=decl, expr=expr)


class Program:
    def __init__(self, snippets, imports=()):
        self.snippets = snippets
        lines = HEADER.split("\n")[:-1] + ["import %s" % m for m in imports]
        for s in snippets:
            s.first = len(lines) + 1
            lines += [x for l in s.lines for x in l.split("\n")]
            s.last = len(lines)
        self.src = "\n".join(lines) + "\n"

    def snippet_at(self, line):
        for s in self.snippets:
            if s.first <= line <= s.last:
                return s
        return None


def gen_programs(ctx, worlds):
    """Exhaustive small parameter values first, then seeded random ones."""
    rng = ctx.rng
    snips = []
    k = itertools.count()
    # --- small cases, enumerated
    for n in (1, 2, 3):
        snips.append(snip_kwargs(next(k), NAMEPOOL[:n]))
        snips.append(snip_keys(next(k), NAMEPOOL[3:3 + n], []))
        snips.append(snip_try(next(k), n, "try"))
    for outs in itertools.product(["ok", "missing", "conflict"], repeat=2):
        ms = ["alpha", "beta"]
        snips.append(snip_proto(next(k), ms, dict(zip(ms, outs)), "arg" if outs[0] != "ok" else "assign"))
    for decl in ("object", "Any", ["OA", "OB"]):
        snips.append(snip_or(next(k), ["OA", "OB"], decl, [("OA", None), ("OB", None)]))
    snips.append(snip_or(next(k), ["int", "str", "bytes"], "object", []))
    snips.append(snip_try(next(k), 2, "with"))
    for n in (1, 2):
        snips.append(snip_defnodes(next(k), n, n % 2))
    for w in range(3):
        snips.append(snip_control(next(k), w))
    for n in (1, 2, 4):
        snips.append(snip_inset(next(k), NAMEPOOL[:n]))
    for n in (2, 3, 4):
        snips.append(snip_tvfail(next(k), n, False))
    snips.append(snip_tvfail(next(k), 2, True))
    # --- seeded random
    n_rand = ctx.n(60, 900)
    for _ in range(n_rand):
        r = rng.random()
        kk = next(k)
        if r < 0.17:
            snips.append(snip_kwargs(kk, rng.sample(NAMEPOOL, rng.randint(1, 5))))
        elif r < 0.32:
            keys = rng.sample(NAMEPOOL, rng.randint(1, 5))
            snips.append(snip_keys(kk, keys, rng.sample(keys, rng.randint(0, len(keys) - 1))))
        elif r < 0.54:
            ms = rng.sample(NAMEPOOL, rng.randint(1, 5))
            outs = {m: rng.choice(["ok", "ok", "missing", "conflict"]) for m in ms}
            snips.append(snip_proto(kk, ms, outs, rng.choice(["arg", "assign"])))
        elif r < 0.76:
            nc = rng.randint(2, 5)
            classes = []
            for i in range(nc):
                classes.append(("O%d_%d" % (kk, i), rng.choice([c[0] for c in classes]) if classes and rng.random() < 0.3 else None))
            pool = [c[0] for c in classes] + (["int", "str"] if rng.random() < 0.3 else [])
            d = rng.random()
            decl = "object" if d < 0.5 else "Any" if d < 0.65 else rng.sample([c[0] for c in classes], rng.randint(1, nc))
            tests = rng.sample(pool, rng.randint(2, min(5 if isinstance(decl, str) else 3, len(pool))))
            snips.append(snip_or(kk, tests, decl, classes))
        elif r < 0.86:
            snips.append(snip_try(kk, rng.randint(1, 4), rng.choice(["try", "try", "with"])))
        elif r < 0.93:
            snips.append(snip_defnodes(kk, rng.randint(1, 4), rng.randrange(2)))
        elif r < 0.96:
            snips.append(snip_inset(kk, rng.sample(NAMEPOOL, rng.randint(1, 5))))
        elif r < 0.985:
            snips.append(snip_tvfail(kk, rng.randint(2, 4), rng.random() < 0.3))
        else:
            snips.append(snip_control(kk, rng.randrange(6)))
    rng.shuffle(snips)
    programs = []
    i = 0
    while i < len(snips):
        n = rng.randint(2, 5)
        programs.append(Program(snips[i:i + n]))
        i += n
    # --- history-sensitive programs: one protocol query each, over typeshed types and over the generated worlds
    kk = itertools.count(100000)
    mode_pairs = [("Hashable", "dict[int, str]"), ("SupportsAbs[int]", "int"), ("SupportsAbs[str]", "int"), ("Sized", "list[int]")]
    for _ in range(ctx.n(4, 40)):
        mode_pairs.append((rng.choice(BUILTIN_PROTOS), rng.choice(BUILTIN_VALUES)))
    for p, v in mode_pairs:
        for ex in (False, True):
            programs.append(Program([snip_mode(next(kk), p, v, ex)]))
    for w in worlds:
        nq = ctx.n(4, 6)
        for _ in range(nq):
            i, j = rng.randrange(len(w.protos)), rng.randrange(len(w.classes))
            programs.append(Program([snip_world(next(kk), w, i, int(rng.random() < 0.3), j, rng.random() < 0.35)], imports=[w.name]))
        # generic calls f<i>(c, arg) with different other arguments (in recursive worlds the model predicts the open
        # class cyclicBoundsOrder: the solved type variable can list its members in another order)
        if True:
            for _ in range(ctx.n(3, 5)):
                i, j = rng.randrange(len(w.protos)), rng.randrange(len(w.classes))
                programs.append(Program([snip_gcall(next(kk), w, i, j, rng.choice(["1", "'s'", "0.5", "None", "c"]), rng.randrange(3))],
                                        imports=[w.name]))
    # typeshed generic callables, each family several times with different other arguments, every kind of probe
    fams = list(range(len(TCALLS)))
    rng.shuffle(fams)
    for fi in fams[:ctx.n(6, len(fams))]:
        decl, exprs = TCALLS[fi]
        for e in rng.sample(exprs, min(len(exprs), ctx.n(3, 5))):
            programs.append(Program([snip_tcall(next(kk), decl, e, rng.randrange(3))], imports=[]))
    # signatures kept by the ArgSpecCache: one program reveals the signature, another one calls the callable
    for which in rng.sample(range(len(SIGCALLS)), ctx.n(4, len(SIGCALLS))):
        programs.append(Program([snip_sig(next(kk), which, False)]))
        programs.append(Program([snip_sig(next(kk), which, True)]))
    # the pair of the seeded regression: the same callable and receiver, another second argument
    programs.append(Program([snip_tcall(next(kk), "x: Fraction", "pow(x, 0.5)", 1)]))
    programs.append(Program([snip_tcall(next(kk), "x: Fraction", "pow(x, 2)", 0)]))
    return programs


# ============================================================================================ explaining a rendering
BUILTIN_IDS = {"object": 0, "int": 1, "str": 2, "bytes": 3}
_QUOTED = re.compile(r"'([^']*)'")


class Batch:
    """Driver lines collected first, run once."""

    def __init__(self):
        self.lines, self.out = [], None

    def add(self, *fields):
        self.lines.append("\t".join(str(f).replace("\t", " ").replace("\n", " ") for f in fields))
        return len(self.lines) - 1

    def run(self):
        self.out = lean.run_driver("C10", self.lines) if self.lines else []

    def kv(self, i):
        line = self.out[i]
        if line.startswith("out="):
            return {"out": line[4:]}
        if " out=" in line:
            head, out = line.split(" out=", 1)
            d = parse_kv(head)
            d["out"] = out
            return d
        return parse_kv(line)


def or_universe(s):
    ids = dict(BUILTIN_IDS)
    for n, _ in s.info["classes"]:
        ids[n] = len(ids) + 10
    subs = set()
    base = dict(s.info["classes"])
    for n in ids:
        if n != "object":
            subs.add((ids[n], 0))
        b = base.get(n)
        while b:
            subs.add((ids[n], ids[b]))
            b = base.get(b)
    return ids, subs


def explain_requests(s, text, B):
    """Driver requests that decide whether `text` (one diagnostic of snippet s) is a possible output of the site model
    for some iteration order. Returns a function (to be called after B.run()) -> (explained, note)."""
    first = text.split("\n")[0]
    detail = [l.strip() for l in text.split("\n")[1:] if l.strip()]
    if s.kind == "kwargs":
        m = re.search(r"Got (?:an unexpected keyword argument|unexpected keyword arguments) (.*) \(code: incompatible_call\)$", first)
        if not m:
            return lambda: (False, "unexpected message shape")
        i = B.add("kwargs", ",".join(s.info["elems"]), "")   # every keyword of the call is extra: nothing consumed
        want = first[first.index("Got "):first.rindex(" (code:")]
        return lambda: (B.kv(i)["out"] == want, B.out[i])
    if s.kind == "keys":
        m = re.search(r"No value specified for keys (.*) \(code: bad_format_string\)$", first)
        if not m:
            return lambda: (False, "unexpected message shape")
        i = B.add("keys", ",".join(s.info["keys"]), ",".join(s.info["given"]), "0")
        return lambda: (B.kv(i)["out"] == "No value specified for keys " + m.group(1), B.out[i])
    if s.kind == "proto":
        # since 99947e4 the head names the protocol only; the detail line names the first failing member of the
        # sorted member loop (TypeObject.__str__ with the member list is compared at the API level, stream site-pstr)
        k = s.info["k"]
        if "expected <mod>.P%d" % k not in first or "(Protocol with members" in first:
            return lambda: (False, "unexpected message shape")
        j = B.add("pff", "<mod>.A%d" % k, ",".join(s.info["elems"]),
                  ",".join("%s=%s" % (a, b) for a, b in s.info["outcome"].items()))
        d0 = detail[0] if detail else "-"
        return lambda: (B.kv(j)["out"] == d0, B.out[j])
    if s.kind == "or":
        m = re.search(r"Revealed type is '(.*)' \(code: reveal_type\)$", first)
        if not m:
            return lambda: (False, "unexpected message shape")
        ids, subs = or_universe(s)
        names = {v: (k if k in BUILTIN_IDS else "<mod>." + k) for k, v in ids.items()}
        decl = s.info["declared"]
        tests = [ids[t] for t in s.info["tests"]]
        subtxt = ",".join("%d<%d" % p for p in sorted(subs))
        issub = lambda a, b: a == b or (a, b) in subs
        if isinstance(decl, str):
            node_vals = {(): "0" if decl == "object" else "any"}   # every definition node has the same single member
        else:
            # visit_BoolOp leaves one definition node per operand: the declared union narrowed by the negation of the
            # operands to its left; the `if` constrains the frozenset of these nodes (site `siteDefNodes`)
            nodes = [[ids[n] for n in decl if not any(issub(ids[n], tests[j]) for j in range(i))] for i in range(len(tests))]
            node_vals = {}
            for perm in itertools.permutations(range(len(nodes))):
                node_vals.setdefault(",".join(str(x) for i in perm for x in nodes[i]), perm)
            node_vals = {v: k for k, v in node_vals.items()}
        # the constraints come in operand order (list(dict.fromkeys(...))); only the definition nodes are a set
        idxs = [(np, B.add("ornarrow", subtxt, vals, ",".join(map(str, tests)))) for np, vals in node_vals.items()]

        def done():
            hits = set()
            for np, i in idxs:
                kv = B.kv(i)
                out = " | ".join(names[int(x)] if x != "any" else "Any" for x in kv["out"].split(",")) if kv["out"] else "Never"
                if out == m.group(1):
                    hits.add(np)
            if hits:
                return True, "explained", hits
            return False, "no order of the definition nodes gives %r" % m.group(1)
        return done
    if s.kind == "inset":
        m = re.search(r"Revealed type is '(.*)' \(code: reveal_type\)$", first)
        if not m:
            return lambda: (False, "unexpected message shape")
        i = B.add("inset", ",".join(s.info["elems"]))   # the set payload is sorted (c06bd97): one possible text
        return lambda: (B.kv(i)["out"] == m.group(1), B.out[i])
    if s.kind == "defnodes":
        m = re.search(r"Revealed type is '(.*)' \(code: reveal_type\)$", first)
        pat = re.compile(r"<mod>\.D%d_(\d+)$" % s.info["k"])
        parts = m.group(1).split(" | ") if m else []
        if not m or not all(pat.match(x) for x in parts):
            return lambda: (False, "unexpected message shape")
        got = [int(pat.match(x).group(1)) for x in parts]
        i = B.add("defnodes", ",".join(map(str, got)), ",".join(map(str, range(s.info["n"] + 1))))
        return lambda: (B.kv(i)["perm"] == "1" and B.kv(i)["out"] == ",".join(map(str, got)), B.out[i])
    if s.kind == "try":
        m = re.search(r"Revealed type is '(.*)' \(code: reveal_type\)$", first)
        pat = re.compile(r"<mod>\.T%d_(\d+)$" % s.info["k"])
        parts = m.group(1).split(" | ") if m else []
        if not m or not all(pat.match(x) for x in parts):
            return lambda: (False, "unexpected message shape")
        got = [int(pat.match(x).group(1)) for x in parts]
        n = s.info["n"]
        # `with`: the value before the block, then the block's assignments in set order (suppressing_subscope);
        # `try`: visit_Try puts the end of the try body (the last assignment) in front of that
        if s.info["how"] == "try":
            pre, order = [n, 0], got[2:] + [n]   # where the set put n is not observable: a later duplicate is dropped
            if got[:2] != pre:
                return lambda: (False, "the union does not start with the last assignment and the value before the block")
        else:
            pre, order = [0], got[1:]
        i = B.add("try", ",".join(map(str, pre)), ",".join(map(str, order)), ",".join(map(str, range(1, n + 1))))
        return lambda: (B.kv(i)["perm"] == "1" and B.kv(i)["out"] == ",".join(map(str, got)), B.out[i])
    return None


# snippet kinds whose diagnostics a Lean site function must reproduce
MODELLED = ("kwargs", "keys", "proto", "or", "try", "defnodes", "inset")
# the order classes still open in /repo, by the hint handed to Lean `orderClass`
ORDER_CLASS = {"try": "tryDefNodeOrder", "defnodes": "defNodeSetOrder", "bounds": "cyclicBoundsOrder"}


def answer_bit(prog, rendering):
    """The protocol answer a one-query program (kind mode) reports: '1' compatible, '0' not, '?' unreadable."""
    s = prog.snippets[0]
    texts = [d for d in rendering if s.first <= d[0] <= s.last]
    if s.info["ex"]:
        r = [d[3] for d in texts if d[2] == "reveal_type"]
        if len(r) == 1 and "Revealed type is 'int'" in r[0]:
            return "1"
        if len(r) == 1 and "Revealed type is 'str'" in r[0]:
            return "0"
        return "?"
    if any(d[2] == "EXC" for d in rendering):
        return "?"
    if s.info.get("gcall"):
        return "0" if any(d[2] == "incompatible_argument" and "for a:" in d[3] for d in texts) else "1"
    return "0" if any(d[2] == "incompatible_assignment" for d in texts) else "1"


# ============================================================================================ API-level site streams
def api_sites(ctx, B, post):
    """Order sites driven directly; `post` collects closures run after the driver."""
    from pyanalyze.stacked_scopes import (Constraint, ConstraintType, OrConstraint, VarnameWithOrigin, _constrain_value)
    from pyanalyze.value import (AnySource, AnyValue, MultiValuedValue, TypedValue, LowerBound, UpperBound, OrBound,
                                 intersect_bounds_maps, flatten_values)
    rng = ctx.rng
    # --- OrConstraint.apply + one_of + unite_values on a small class hierarchy
    ns = {}
    exec("class K0: pass\nclass K1(K0): pass\nclass K2: pass\nclass K3(K2): pass\nclass K4(K1): pass\nclass K5: pass\n", ns)
    cls = [object] + [ns["K%d" % i] for i in range(6)]
    ids = {c: i for i, c in enumerate(cls)}
    subtxt = ",".join("%d<%d" % (i, j) for i, a in enumerate(cls) for j, b in enumerate(cls) if i != j and issubclass(a, b))
    vn = VarnameWithOrigin("x")
    for _ in range(ctx.n(150, 1500)):
        tests = rng.sample(cls[1:], rng.randint(1, 4))
        members = [AnyValue(AnySource.explicit) if rng.random() < 0.15 else TypedValue(rng.choice(cls)) for _ in range(rng.randint(1, 3))]
        value = members[0] if len(members) == 1 else MultiValuedValue(members)
        orc = OrConstraint(tuple(Constraint(vn, ConstraintType.is_instance, True, t) for t in tests))
        cons = list(orc.apply())
        order = [ids[c.value] for c in cons[0].value]   # list(dict.fromkeys(constraints)): must be the operand order
        res = _constrain_value([value], cons)
        got = ",".join("any" if isinstance(v, AnyValue) else str(ids[v.typ]) for v in flatten_values(res))
        if order != [ids[t] for t in tests]:
            got = "constraints reordered: %s" % order
        vals = ",".join("any" if isinstance(v, AnyValue) else str(ids[v.typ]) for v in flatten_values(value))
        i = B.add("ornarrow", subtxt, vals, ",".join(str(ids[t]) for t in tests))
        case = {"site": "OrConstraint.apply", "tests": [t.__name__ for t in tests], "value": str(value), "order": order}
        ctx.count(1, site_ornarrow=1)
        if len(tests) > 1:
            ctx.nontriv("ornarrow|%s|%s" % (vals, order))

        def chk(i=i, got=got, case=case):
            kv = B.kv(i)
            ctx.corr("site-ornarrow")
            if kv.get("out") != got:
                ctx.disagree("site-ornarrow", case, got, B.out[i])
        post.append(chk)
    # --- intersect_bounds_maps: the set of bound tuples per type variable
    from typing import TypeVar
    T = TypeVar("T")
    pool = [TypedValue(int), TypedValue(str), TypedValue(float), TypedValue(bytes)]
    for _ in range(ctx.n(40, 400)):
        maps = []
        for _ in range(rng.randint(1, 3)):
            bs = [rng.choice([LowerBound, UpperBound])(T, rng.choice(pool)) for _ in range(rng.randint(1, 2))]
            maps.append({T: bs})
        res = intersect_bounds_maps(maps)[T]
        # the same insertions into a fresh set give the same iteration order in this process
        st = set()
        for bm in maps:
            st.add(tuple(bm[T]))
        code = lambda b: (0 if isinstance(b, LowerBound) else 1) * 10 + pool.index(b.value)
        order = [".".join(str(code(b)) for b in tup) for tup in st]
        elems = []
        for bm in maps:
            e = ".".join(str(code(b)) for b in bm[T])
            if e not in elems:
                elems.append(e)
        if len(res) == 1 and isinstance(res[0], OrBound):
            got = ";".join(",".join(str(code(b)) for b in alt) for alt in res[0].bounds)
        else:
            got = "|".join(str(code(b)) for b in res)
        i = B.add("orbound", ",".join(order), ",".join(elems))
        ctx.count(1, site_orbound=1)

        def chk2(i=i, got=got, order=order):
            kv = B.kv(i)
            ctx.corr("site-orbound")
            if kv.get("perm") != "1" or kv.get("out") != got:
                ctx.disagree("site-orbound", {"site": "intersect_bounds_maps", "order": order}, got, B.out[i])
        post.append(chk2)
    # --- worklist closure: _get_recursive_typeshed_bases against closureRun under random pop orders
    import collections
    chk_ = pya.make_checker()
    for typ in [list, dict, int, str, collections.OrderedDict, collections.defaultdict, bytearray, frozenset, range, bool][:ctx.n(5, 10)]:
        names, edges, todo = {}, [], [typ]
        def nid(t):
            return names.setdefault(t, len(names))
        nid(typ)
        while todo:
            t = todo.pop()
            for b in sorted(chk_._get_typeshed_bases(t), key=repr):
                if b not in names:
                    todo.append(b)
                edges.append("%d>%d" % (nid(t), nid(b)))
        impl = ",".join(map(str, sorted(names[b] for b in chk_._get_recursive_typeshed_bases(typ))))
        for _ in range(3):
            choices = [rng.randrange(50) for _ in range(3 * len(names) + 4)]
            i = B.add("closure", ",".join(edges), "0", ",".join(map(str, choices)))
            ctx.count(1, site_closure=1)

            def chk3(i=i, impl=impl, typ=typ):
                kv = B.kv(i)
                ctx.corr("site-closure")
                if kv.get("done") != "1" or kv.get("result") != impl:
                    ctx.disagree("site-closure", {"site": "_get_recursive_typeshed_bases", "type": repr(typ)}, impl, B.out[i])
            post.append(chk3)
    # --- TypeObject.__str__ (still printed inside CanAssignError details): sorted member list
    for _ in range(ctx.n(10, 60)):
        ms = rng.sample(NAMEPOOL, rng.randint(1, 5))
        ns2 = {}
        exec("from typing import Protocol\nclass PS(Protocol):\n" + "".join("    def %s(self) -> int: ...\n" % m for m in ms), ns2)
        got = str(chk_.make_type_object(ns2["PS"]))
        base = got.split(" (Protocol")[0]
        i = B.add("pstr", base, ",".join(ms))
        ctx.count(1, site_pstr=1)

        def chk5(i=i, got=got, ms=ms):
            ctx.corr("site-pstr")
            if B.kv(i).get("out") != got:
                ctx.disagree("site-pstr", {"site": "TypeObject.__str__", "members": ms}, got, B.out[i])
        post.append(chk5)
    # --- isort against sorted (spec validation)
    for _ in range(ctx.n(20, 200)):
        xs = [rng.randrange(128) for _ in range(rng.randint(0, 6))]
        i = B.add("sorted", ",".join(map(str, xs)))

        def chk4(i=i, xs=xs):
            ctx.corr("spec")
            if B.kv(i).get("out", "") != ",".join(map(str, sorted(xs))):
                ctx.disagree("spec", {"sorted": xs}, sorted(xs), B.out[i])
        post.append(chk4)


def api_unify(ctx, B, post):
    """value.py unify_bounds_maps against the pure `unifyBM`; it must neither change its arguments nor hand back one of
    their lists (a caller extending the result would then write into a cached bounds map)."""
    from typing import TypeVar
    from pyanalyze.value import KnownValue, LowerBound, unify_bounds_maps
    rng = ctx.rng
    tvs = [TypeVar("U%d" % i) for i in range(3)]
    for _ in range(ctx.n(60, 600)):
        maps, model = [], []
        for _ in range(rng.randint(0, 4)):
            m, mm = {}, []
            for ti in rng.sample(range(3), rng.randint(0, 3)):
                toks = [rng.randrange(20) for _ in range(rng.randint(0, 3))]
                m[tvs[ti]] = [LowerBound(tvs[ti], KnownValue(t)) for t in toks]
                mm.append("%d:%s" % (ti, ".".join(map(str, toks))))
            maps.append(m)
            model.append(";".join(mm))
        before = [repr(m) for m in maps]
        res = unify_bounds_maps(maps)
        got = ";".join("%d:%s" % (tvs.index(tv), ".".join(str(b.value.val) for b in bs)) for tv, bs in res.items())
        after_call = [repr(m) for m in maps]
        changed = after_call != before
        for bs in res.values():
            if isinstance(bs, list):
                bs.append(None)      # what a caller may do with a map it was handed as new
        aliased = [repr(m) for m in maps] != before and not changed
        i = B.add("unify", "|".join(model))
        case = {"function": "unify_bounds_maps", "maps": model}
        ctx.count(1, unify=1)
        if len(maps) > 1:
            ctx.nontriv("unify|" + "|".join(model))
        if changed:
            ctx.candidate(case, "unify_bounds_maps changed one of its arguments in place: %s -> %s" % (before, after_call),
                          cls=None, conforms=True, stream="unify")

        def chk(i=i, got=got, case=case, aliased=aliased):
            ctx.corr("unify")
            if B.kv(i).get("out") != got:
                ctx.disagree("unify", case, got, B.out[i])
            elif aliased:
                ctx.disagree("unify", case, "the result shares a list with an argument", "unifyBM returns a new map")
        post.append(chk)


def api_memo(ctx, B, post):
    """Memo tables: trace of hits / misses / bypasses and transparency against a fresh checker."""
    import collections
    rng = ctx.rng
    def f0(a: int) -> int: return a
    def f1(*a: str) -> None: pass
    class Cm:
        def m(self) -> int: return 0
    type_keys = [int, str, list, dict, Cm, collections.OrderedDict, "typing.Sized", "collections.abc.Hashable", object, float]
    obj_keys = [f0, f1, len, Cm, Cm.m, int, [1], {"a": 1}, 3, "s", print, dict.get]   # [1], {...}: unhashable keys
    for rep in range(ctx.n(3, 12)):
        chk = pya.make_checker()
        fresh = pya.make_checker()
        # make_type_object
        qs = [rng.randrange(len(type_keys)) for _ in range(rng.randint(3, 12))]
        trace, size0 = [], len(chk.type_object_cache)
        for q in qs:
            key = type_keys[q]
            hit = key in chk.type_object_cache
            a = chk.make_type_object(key)
            trace.append("hit" if hit else "miss")
            b = fresh.make_type_object(key)
            ctx.count(1, memo_type_object=1)
            if (a.typ, a.base_classes, a.is_protocol, a.protocol_members, a.artificial_bases) != (
                    b.typ, b.base_classes, b.is_protocol, b.protocol_members, b.artificial_bases):
                ctx.candidate({"table": "type_object_cache", "history": [repr(type_keys[x]) for x in qs], "key": repr(key)},
                              "make_type_object answers differently after a history than on a fresh checker", cls=None, stream="memo")
        i = B.add("memo", ",".join(map(str, range(len(type_keys)))), "", ",".join(map(str, qs)), "")
        sz = len(chk.type_object_cache) - size0

        def c1(i=i, trace=trace, sz=sz, qs=qs):
            kv = B.kv(i)
            ctx.corr("memo")
            # entries created as a side effect of building another TypeObject may already be present: hits are upper-bounded
            if kv.get("trace") != ",".join(trace) and size0 == 0:
                ctx.disagree("memo", {"table": "type_object_cache", "queries": qs}, ",".join(trace), B.out[i])
        post.append(c1)
        # _cached_get_argspec
        asc = chk.arg_spec_cache
        qs = [rng.randrange(len(obj_keys)) for _ in range(rng.randint(3, 12))]
        trace = []
        nones = set()
        hashable, initial = [], []
        for x, o in enumerate(obj_keys):
            try:
                hash(o)
                hashable.append(x)
                if o in asc.known_argspecs:
                    initial.append(x)   # signatures registered when the ArgSpecCache is built
            except TypeError:
                pass
        for q in qs:
            o = obj_keys[q]
            try:
                hit = o in asc.known_argspecs
                tag = "hit" if hit else "miss"
            except Exception:
                tag = "bypass"
            a = asc.get_argspec(o)
            if a is None and tag == "miss":
                tag = "nocache"
                nones.add(q)
            trace.append(tag)
            b = fresh.arg_spec_cache.get_argspec(o)
            ctx.count(1, memo_argspec=1)
            if str(a) != str(b):
                ctx.candidate({"table": "known_argspecs", "history": [repr(obj_keys[x]) for x in qs], "key": repr(o)},
                              "get_argspec answers differently after a history than on a fresh checker (%s / %s)" % (a, b),
                              cls=None, stream="memo")
        i = B.add("memo", ",".join(map(str, hashable)), ",".join(map(str, sorted(nones))), ",".join(map(str, qs)), ",".join(map(str, initial)))

        def c2(i=i, trace=trace, qs=qs):
            kv = B.kv(i)
            ctx.corr("memo")
            if kv.get("trace") != ",".join(trace):
                ctx.disagree("memo", {"table": "known_argspecs", "queries": [repr(obj_keys[x]) for x in qs]}, ",".join(trace), B.out[i])
        post.append(c2)
        # generic bases
        for q in [rng.randrange(len(type_keys)) for _ in range(6)]:
            key = type_keys[q]
            a = asc._get_generic_bases_cached(key)
            b = fresh.arg_spec_cache._get_generic_bases_cached(key)
            ctx.count(1, memo_generic_bases=1)
            if repr(a) != repr(b):   # typeshed TypeVars are per-TypeshedFinder objects: compare the rendering
                ctx.candidate({"table": "generic_bases_cache", "key": repr(key)},
                              "generic bases differ after a history", cls=None, stream="memo")


# ============================================================================================ protocol worlds, API level
def reset_protocol_caches(world, checker):
    for i in range(len(world.protos)):
        checker.make_type_object(getattr(world.module, "P%d" % i))._protocol_positive_cache.clear()
    del checker.assumed_compatibilities[:]


def api_worlds(ctx, B, post, worlds, watch_sites=(), kinds=None):
    from pyanalyze.value import CanAssignError, KnownValue, LowerBound, unify_bounds_maps
    rng = ctx.rng
    for w in worlds:
        chk = pya.make_checker()
        orders = member_orders(w, chk)
        ranks = w.ranks(orders)
        L = ctx.n(7, 10)
        qs = [(rng.random() < 0.35, rng.randrange(len(w.protos)), rng.choice([0, 0, 1, 2, 2]), rng.randrange(len(w.classes)))
              for _ in range(L)]
        # after every positive answer do what the call machinery does with it — unify it with the bounds the other
        # argument of `f(a: P[T], b: T)` contributes — and watch the cache entries: they must not change
        watch = CacheWatch(watch_sites, kinds or {})
        mutated = []

        def after(r, chk=chk, watch=watch, mutated=mutated, w=w):
            if not isinstance(r, CanAssignError):
                unify_bounds_maps([r, {w.module.T: [LowerBound(w.module.T, KnownValue(len(mutated) + watch.steps))]}])
            mutated.extend(watch.step(chk))
        got_b = []
        got = api_history(w, chk, qs, bounds=got_b, after=after)
        for site, key, before, aft, first in mutated[:2]:
            ctx.candidate({"kind": "proto-api-cache", "world": w.source(), "history": [qtext(q) for q in qs], "site": site,
                           "key": key, "before": before, "after": aft},
                          "a bounds map stored in %s changed after it was inserted (query %d of the history put it there)" % (site, first),
                          cls=None, conforms=True, stream="cache")
        # answers of a checker whose protocol caches are emptied before every query (cheap stand-in for a fresh one;
        # every history dependence found is re-confirmed below with a really fresh Checker)
        fr = pya.make_checker()
        fresh, fresh_b = [], []
        for q in qs:
            reset_protocol_caches(w, fr)
            fresh += api_history(w, fr, [q], bounds=fresh_b)
        i = B.add(*hist_line(w, orders, ranks, qs[:-1], qs[-1]).split("\t"))
        case0 = {"world": w.source(), "member_orders": orders, "history": [qtext(q) for q in qs]}
        ctx.count(len(qs), proto_queries=len(qs), **{"world_cyclic" if ranks is None else "world_wellfounded": 1})
        if w.nontrivial():
            ctx.nontriv("world|" + w.reqs_text(orders) + "|" + ",".join(qtext(q) for q in qs))
        if len(ctx.samples) < 3:
            ctx.sample({"world_reqs": w.reqs_text(orders), "history": [qtext(q) for q in qs], "answers": "".join(got), "fresh": "".join(fresh)})
        deps = [n for n in range(len(qs)) if got[n] != fresh[n]]
        if ranks is not None:
            # well-founded world: the bounds map, too, must be the one a fresh checker returns
            for n in range(len(qs)):
                if got[n] == fresh[n] and got_b[n] != fresh_b[n]:
                    ctx.candidate(dict(case0, history=[qtext(q) for q in qs[:n]], query=qtext(qs[n]), kind="proto-api"),
                                  "the bounds map of P%d[%s].can_assign(C%d) is %s after the history but %s on a fresh checker" % (
                                      qs[n][1], ARGS[qs[n][2]], qs[n][3], got_b[n], fresh_b[n]), cls=None, conforms=True, stream="proto")
                    break
        dep_idx = {}
        for n in deps[:3]:
            dep_idx[n] = B.add(*hist_line(w, orders, ranks, qs[:n], qs[n]).split("\t"))

        def chk1(i=i, w=w, qs=qs, got=got, fresh=fresh, case0=case0, deps=deps, dep_idx=dep_idx, ranks=ranks, got_b=got_b, fresh_b=fresh_b):
            kv = B.kv(i)
            ctx.corr("proto", len(qs))
            conforms = kv.get("ans") == "".join(got) and kv.get("bm") == "/".join(got_b)
            if not conforms:
                ctx.disagree("proto", case0, "".join(got) + " " + "/".join(got_b), B.out[i])
            ctx.corr("spec", len(qs))
            if kv.get("freshAll") != "".join(fresh) or kv.get("bmFresh") != "/".join(fresh_b):
                ctx.disagree("spec", dict(case0, what="fresh answers"), "".join(fresh) + " " + "/".join(fresh_b), B.out[i])
            for n in deps[:3]:
                kvn = B.kv(dep_idx[n])
                # confirm with a really fresh Checker
                really = api_history(w, pya.make_checker(), [qs[n]])[0]
                if really == got[n]:
                    continue
                cls = kvn.get("D")
                ctx.candidate(dict(case0, history=[qtext(q) for q in qs[:n]], query=qtext(qs[n]), kind="proto-api"),
                              "P%d[%s].can_assign(C%d)%s answers %s after the history but %s on a fresh checker" % (
                                  qs[n][1], ARGS[qs[n][2]], qs[n][3], " under set_exclude_any" if qs[n][0] else "", got[n], really),
                              cls=cls if cls not in (None, "-") else None, conforms=conforms, stream="proto")
        post.append(chk1)
        # spec: fresh answer = greatest fixed point (and = sem when well-founded), per pair and mode
        for ex in (False, True):
            for pi in range(len(w.protos)):
              for aa in range(len(ARGS)):
                for cj in range(len(w.classes)):
                    q = (ex, pi, aa, cj)
                    if q not in qs:
                        continue
                    j = B.add(*hist_line(w, orders, ranks, [], q).split("\t"))
                    f = fresh[qs.index(q)]

                    def chk2(j=j, f=f, q=q, case0=case0, ranks=ranks, vp=w.variant_preserving(orders)):
                        kv = B.kv(j)
                        ctx.corr("spec")
                        # the recursion guard is keyed by (protocol class, class): it equates P[str] nested in P[T] with
                        # P[T]; the per-variant greatest fixed point is the reference only where nesting keeps the variant
                        if (vp and kv.get("gfp") != f) or (ranks is not None and kv.get("sem") != f):
                            ctx.disagree("spec", dict(case0, what="gfp/sem of " + qtext(q)), f, B.out[j])
                    post.append(chk2)


# ============================================================================================ programs end to end
def diff_positions(a, b):
    """Group two renderings by position; returns (same_shape, [(line, col, text_a, text_b)] for differing groups)."""
    def groups(r):
        g = {}
        for d in r:
            g.setdefault((d[0], d[1]), []).append(d)
        return g
    ga, gb = groups(a), groups(b)
    if set(ga) != set(gb) or any(sorted(x[2] for x in ga[k]) != sorted(x[2] for x in gb[k]) for k in ga):
        return False, []
    out = []
    for k in sorted(ga):
        ta, tb = " ; ".join(x[3] for x in ga[k]), " ; ".join(x[3] for x in gb[k])
        if ta != tb:
            out.append((k[0], k[1], ta, tb))
    return True, out


def e2e(ctx, B, post, worlds, with_model, watch_sites=(), kinds=None):
    rng = ctx.rng
    cache_changes = []   # (label, program index, index of the program after which the entry was first seen, change)
    programs = gen_programs(ctx, worlds)
    srcs = [p.src for p in programs]
    seeds = [0] + [rng.randrange(1, 2 ** 32) for _ in range(ctx.n(3, 7))]
    ctx.extra["hash_seeds"] = seeds
    ctx._c10_runs = getattr(ctx, "_c10_runs", 0) + 1   # run() is called again for the widened search
    jobs = [start_under_seed(ctx, srcs, s, "e2e%d" % ctx._c10_runs) for s in seeds]
    # (ii) fresh in this process, and immediately again with the same Checker
    base, runs = [], []   # runs: (label, program index, rendering, history info)
    for n, p in enumerate(programs):
        kw = new_kwargs()
        watch = CacheWatch(watch_sites, kinds or {})
        r0 = check_program(p.src, kw)
        watch.step(kw["checker"])
        base.append(r0)
        runs.append(("repeat", n, check_program(p.src, kw), None))
        for ch in watch.step(kw["checker"]):
            cache_changes.append(("repeat", n, n, ch))
    # (iii) histories: random orders of all programs, one shared Checker per order
    orders = []
    for h in range(ctx.n(3, 10)):
        order = list(range(len(programs)))
        rng.shuffle(order)
        orders.append(order)
        kw = new_kwargs()
        # the protocol caches after every program; the (large) memo tables after every 8th program in the thorough tier
        watch = CacheWatch(watch_sites, kinds or {}, memo_every=ctx.n(1, 8))
        for pos, n in enumerate(order):
            runs.append(("history%d" % h, n, check_program(programs[n].src, kw), (h, pos)))
            for ch in watch.step(kw["checker"]):
                cache_changes.append(("history%d" % h, n, order[ch[4]], ch))
    for job in jobs:
        res = finish_under_seed(job)
        for n, r in enumerate(res):
            runs.append(("seed%d" % job[2], n, r, None))
    ctx.extra["programs"] = len(programs)
    ctx.extra["renderings_compared"] = len(runs)
    ctx.extra["cache_snapshots"] = len(runs)
    ctx.corr("cache", len(runs))
    seen_sites = set()
    for label, n, first, (site, key, before, after, _) in cache_changes:
        if (site.split("[")[0], label[:4]) in seen_sites:
            continue
        seen_sites.add((site.split("[")[0], label[:4]))
        ctx.candidate({"kind": "cache-mutation", "program": programs[n].src,
                       "history": [programs[first].src] if first != n else [], "run": label, "site": site, "key": key,
                       "before": before, "after": after},
                      "a value stored in the per-Checker cache %s changed while a later program was checked (entries must be "
                      "immutable after insertion): %s -> %s" % (site, before[:160], after[:160]),
                      cls=None, conforms=True, stream="cache")
    # one-query programs over protocol worlds / typeshed protocols: the detail lines (which member fails first) are
    # the business of the `proto` snippets; here only the head line of every diagnostic is compared
    head = lambda r: [[d[0], d[1], d[2], d[3].split("\n")[0]] for d in r]
    for n, p in enumerate(programs):
        if p.snippets[0].kind == "mode":
            base[n] = head(base[n])
    runs = [(label, n, head(r) if programs[n].snippets[0].kind == "mode" else r, h) for label, n, r, h in runs]

    # ---- explain every distinct (snippet, text) with the site models
    explained = {}
    if with_model:
        for label, n, r, _ in [("base", n, base[n], None) for n in range(len(programs))] + runs:
            for d in r:
                s = programs[n].snippet_at(d[0])
                if s is None or s.kind not in MODELLED:
                    continue
                if s.kind in ("or", "try", "defnodes", "inset") and d[2] != "reveal_type":
                    continue
                if s.kind in ("kwargs",) and d[2] != "incompatible_call":
                    continue
                if s.kind in ("keys",) and d[2] != "bad_format_string":
                    continue
                if s.kind == "proto" and d[2] not in ("incompatible_argument", "incompatible_assignment"):
                    continue
                key = (n, id(s), d[3])
                if key not in explained:
                    explained[key] = [explain_requests(s, d[3], B), s.kind, d[3], label]

    # ---- world / typeshed query programs: facts and histories
    mode_progs = [n for n, p in enumerate(programs) if p.snippets[0].kind == "mode"]
    by_world = {}
    for n in mode_progs:
        by_world.setdefault(programs[n].snippets[0].info["world"], []).append(n)
    wmap = {w.name: w for w in worlds}
    chk0 = pya.make_checker()
    facts = {}   # world name -> (reqs text, ranks text, fuel, query text per program)
    for name, ns in by_world.items():
        if name == "builtin":
            pairs = sorted({(programs[n].snippets[0].info["proto"], programs[n].snippets[0].info["value"]) for n in ns})
            split = lambda p: (p.split("[")[0], p[len(p.split("[")[0]):])
            pid = {b: i for i, b in enumerate(sorted({split(p)[0] for p, _ in pairs}))}
            aid = {}
            for p, _ in pairs:
                b, arg = split(p)
                aid.setdefault(b, {}).setdefault(arg, len(aid[b]))
            vid = {v: i for i, v in enumerate(sorted({v for _, v in pairs}))}
            key = lambda p, v: "%d.%d.%d" % (pid[split(p)[0]], aid[split(p)[0]][split(p)[1]], vid[v])
            reqs, ok = [], {}
            for p, v in pairs:
                fn = {programs[n].snippets[0].info["ex"]: answer_bit(programs[n], base[n]) for n in ns
                      if (programs[n].snippets[0].info["proto"], programs[n].snippets[0].info["value"]) == (p, v)}
                atom = {("1", "1"): "T", ("1", "0"): "A", ("0", "0"): "F"}.get((fn.get(False), fn.get(True)))
                ok[(p, v)] = atom is not None
                reqs.append("%s:%s" % (key(p, v), atom or "F"))
            q = {n: ("x" if programs[n].snippets[0].info["ex"] else "n") + key(programs[n].snippets[0].info["proto"],
                                                                             programs[n].snippets[0].info["value"]) for n in ns}
            rk = ",".join("%d.%d=0" % (pid[split(p)[0]], vid[v]) for p, v in pairs)
            facts[name] = (";".join(reqs), rk, 3, q, {n: ok[(programs[n].snippets[0].info["proto"], programs[n].snippets[0].info["value"])] for n in ns})
        else:
            w = wmap[name]
            mo = member_orders(w, chk0)
            ranks = w.ranks(mo)
            rk = "" if ranks is None else ",".join("%d.%d=%d" % (p, c, r) for (p, c), r in sorted(ranks.items()))
            q = {n: qtext((programs[n].snippets[0].info["ex"], programs[n].snippets[0].info["i"], programs[n].snippets[0].info["a"],
                           programs[n].snippets[0].info["j"])) for n in ns}
            facts[name] = (w.reqs_text(mo), rk, len(w.protos) * len(w.classes) + 2, q, {n: True for n in ns})
    hist_req = {}
    if with_model:
        for label, n, r, hinfo in runs:
            if n not in mode_progs or (hinfo is None and label != "repeat"):
                continue
            name = programs[n].snippets[0].info["world"]
            reqs, rk, fuel, q, _ = facts[name]
            if label == "repeat":
                hist = [q[n]]
            else:
                h, pos = hinfo
                hist = [q[m] for m in orders[h][:pos] if m in q]
            hist_req[(label, n)] = (B.add("hist", reqs, "", rk, fuel, ",".join(hist), q[n], impl_variant()), hist)

    def evaluate():
        # correspondence of the site models on every distinct observed text
        ok_text, ok_nodes = {}, {}
        for key, (fn, kind, text, label) in explained.items():
            res = fn() if fn is not None else (False, "no model")
            good, note = res[0], res[1]
            ok_text[key] = good
            ok_nodes[key] = res[2] if len(res) > 2 else None
            ctx.corr("site-" + kind)
            if not good:
                ctx.disagree("site-" + kind, {"program": programs[key[0]].src, "text": text, "run": label}, text, note)
        seen_cand = set()
        for n, p in enumerate(programs):
            ctx.count(1, **{"prog_" + "+".join(sorted({s.kind for s in p.snippets})): 1})
            if base[n]:
                ctx.nontriv(p.src)
            if n % 17 == 0:
                ctx.sample({"program": p.src, "diagnostics": base[n]}, limit=5)
        for label, n, r, hinfo in runs:
            p = programs[n]
            ctx.count(1, **{"run_" + re.sub(r"\d+$", "", label): 1})
            is_mode = p.snippets[0].kind == "mode"
            predicted = None
            if is_mode and (label, n) in hist_req and with_model:
                idx, hist = hist_req[(label, n)]
                kv = B.kv(idx)
                predicted = kv.get("ans", "?")[-1:]
                obs = answer_bit(p, r)
                if facts[p.snippets[0].info["world"]][4][n]:
                    ctx.corr("protoE2E")
                    if obs != predicted:
                        ctx.disagree("protoE2E", {"program": p.src, "run": label, "history_queries": hist}, obs, B.out[idx])
            if r == base[n]:
                continue
            same, diffs = diff_positions(base[n], r)
            what = "diagnostics differ between a fresh check and %s" % (
                "a check under PYTHONHASHSEED=%s" % label[4:] if label.startswith("seed") else
                "a repeated check in the same process" if label == "repeat" else "a check after a history of other programs")
            case = {"program": p.src, "run": label, "fresh": base[n], "other": r}
            if hinfo is not None:
                h, pos = hinfo
                case["history"] = [programs[m].src for m in orders[h][:pos]]
            if is_mode and (not same or any(answer_bit(p, r) != answer_bit(p, base[n]) for _ in [0])):
                cls, conforms = None, True
                if (label, n) in hist_req and with_model:
                    idx, hist = hist_req[(label, n)]
                    kv = B.kv(idx)
                    cls = kv.get("D") if kv.get("D") not in (None, "-") else None
                    conforms = answer_bit(p, r) == kv.get("ans", "?")[-1:] and answer_bit(p, base[n]) == kv.get("fresh")
                    case["history_queries"], case["query"] = hist, facts[p.snippets[0].info["world"]][3][n]
                    case["world"] = p.snippets[0].info["world"]
                    if label != "repeat":
                        # keep only the earlier programs that touch the same protocol world
                        h, pos = hinfo
                        case["history"] = [programs[m].src for m in orders[h][:pos] if m in facts[p.snippets[0].info["world"]][3]]
                key = (cls, "mode", label[:4])
                if cls is None or key not in seen_cand:
                    seen_cand.add(key)
                    ctx.candidate(case, what + ": the protocol query answers %s instead of %s" % (answer_bit(p, r), answer_bit(p, base[n])),
                                  cls=cls, conforms=conforms, stream="e2e")
                continue
            if not same:
                ctx.candidate(case, what + ": different codes or positions", cls=None, conforms=True, stream="e2e")
                continue
            for line, col, ta, tb in diffs:
                s = p.snippet_at(line)
                cls, conforms = None, True
                # Only the definition-node sites still let an order through: try / defnodes snippets, and `or` snippets
                # over a declared union (visit_BoolOp leaves several definition nodes). Both texts must be possible
                # outputs of the site model, and the difference order-only (Lean). Anything else is outside every class.
                open_site = s is not None and (s.kind in ORDER_CLASS or (s.kind == "or" and not isinstance(s.info["declared"], str)))
                if open_site and with_model:
                    ka = [k for k in explained if k[0] == n and k[1] == id(s) and k[2] in ta]
                    kb = [k for k in explained if k[0] == n and k[1] == id(s) and k[2] in tb]
                    conforms = bool(ka) and bool(kb) and all(ok_text[k] for k in ka + kb)
                    cls = ("pending", "defnodes" if s.kind == "or" else s.kind, ta, tb)
                if cls is None and with_model and s is not None and s.kind == "mode" and s.info.get("gcall") and (label, n) in hist_req:
                    # same verdict, another text: the Lean history model must predict another bounds map in a recursive
                    # world (D = cyclicBoundsOrder) and the difference must be order-only (Lean `orderClass`)
                    kvh = B.kv(hist_req[(label, n)][0])
                    if kvh.get("D") == "cyclicBoundsOrder":
                        cls = ("pending", "bounds", ta, tb)
                key = (s.kind if s else None, label[:4])
                if key in seen_cand and cls is not None:
                    continue
                seen_cand.add(key)
                pending.append((dict(case, line=line, col=col, text_fresh=ta, text_other=tb), what, cls, conforms))

    pending = []
    post.append(evaluate)
    return pending


# ============================================================================================ corpus, run, replay
def world_from_source(ctx, src, name):
    """A World wrapper around a library source stored in a replay / corpus entry (only what api_history needs)."""
    w = World([], [], name)
    w.source = lambda: src
    w.load(ctx)
    w.protos = [None] * len(re.findall(r"^class P\d+\(", src, re.M))
    w.classes = [None] * len(re.findall(r"^class C\d+:", src, re.M))
    return w


def parse_q(t):
    a, b, c = t[1:].split(".")
    return (t[0] == "x", int(a), int(b), int(c))


def replay_proto_api(ctx, case, name="c10replay"):
    w = world_from_source(ctx, case["world"], "%s_%s" % (name, hashlib.sha256(case["world"].encode()).hexdigest()[:8]))
    hist = [parse_q(t) for t in case["history"]]
    q = parse_q(case["query"])
    from pyanalyze.value import CanAssignError, KnownValue, LowerBound, unify_bounds_maps
    ba, bf = [], []

    def call_layer(r):
        # what api_worlds does after every answer: the call machinery unifies it with the other argument's bound
        if not isinstance(r, CanAssignError) and hasattr(w.module, "T"):
            unify_bounds_maps([r, {w.module.T: [LowerBound(w.module.T, KnownValue(len(ba)))]}])
    after = api_history(w, pya.make_checker(), hist + [q], bounds=ba, after=call_layer)[-1]
    fresh = api_history(w, pya.make_checker(), [q], bounds=bf)[0]
    if after == fresh and ba[-1] != bf[-1]:
        return after + " " + ba[-1], fresh + " " + bf[-1]   # same verdict, another bounds map
    return after, fresh


def check_with_history(history, src, times=1):
    kw = new_kwargs()
    for h in history:
        check_program(h, kw)
    return [check_program(src, kw) for _ in range(times)]


def run_corpus(ctx, B, post, with_model):
    """corpus/C10.jsonl: witnesses of the listed classes and past disagreements.
    kind proto-api: {world (library source), reqs, ranks, fuel, history, query}: replayed on the API, classified by the
      Lean history model;
    kind program: {src, history: [src…], lib: {name, src}?, hint?, times?, seeds?, model: {reqs, ranks, fuel, history,
      query}?}: checked fresh, after the history / repeatedly (times) / under three hash seeds (seeds); an order-only
      difference is classified by Lean `orderClass`, a history difference by the Lean history model on `model`."""
    path = os.path.join(lean.HERE, "corpus", "C10.jsonl")
    if not os.path.exists(path):
        return
    entries = [json.loads(l) for l in open(path) if l.strip()]
    for e in entries:
        if e.get("lib"):
            with open(os.path.join(ctx.scratch, e["lib"]["name"] + ".py"), "w") as f:
                f.write(e["lib"]["src"])
            if ctx.scratch not in sys.path:
                sys.path.insert(0, ctx.scratch)
            importlib.invalidate_caches()
    pjobs = []
    for n, e in enumerate(entries):
        if e["kind"] == "process-history":
            hist = [procstate_program(e["route"], e["name"], e["history_types"], e["n"], e["uses"] + j, "Item") for j in range(2)]
            prog = procstate_program(e["route"], e["name"], e["program_types"], e["n"], 4, "Record")
            tag = "corpus%d-%d" % (getattr(ctx, "_c10_runs", 0) + 1, n)
            pjobs.append((e, hist, prog, start_proc_job(ctx, {"history": [], "program": prog, "share": True}, tag + "a"),
                          start_proc_job(ctx, {"history": hist, "program": prog, "share": True, "watch": True}, tag + "h")))
    seeded = [e for e in entries if e["kind"] == "program" and e.get("seeds")]
    jobs = [start_under_seed(ctx, [e["src"] for e in seeded], s, "corpus%d" % (getattr(ctx, "_c10_runs", 0) + 1))
            for s in (1, 2, 3)] if seeded else []
    for n, e in enumerate(entries):
        ctx.count(1, corpus=1)
        ctx.nontriv("corpus|%d" % n)
        if e["kind"] == "proto-api":
            after, fresh = replay_proto_api(ctx, e, "c10corpus%d" % n)
            if after != fresh:
                i = B.add("hist", e["reqs"], "", e.get("ranks", ""), e.get("fuel", 8), ",".join(e["history"]), e["query"],
                          impl_variant()) if with_model else None

                def c(i=i, e=e, after=after, fresh=fresh):
                    cls, conforms = None, True
                    if i is not None:
                        kv = B.kv(i)
                        cls = kv.get("D") if kv.get("D") not in (None, "-") else None
                        conforms = kv.get("ans", "?")[-1:] == after and kv.get("fresh") == fresh
                    ctx.candidate({k: e[k] for k in ("world", "history", "query")} | {"kind": "proto-api"},
                                  "corpus: the protocol query answers %s after the history but %s on a fresh checker" % (after, fresh),
                                  cls=cls, conforms=conforms, stream="corpus")
                post.append(c)
        elif e["kind"] == "program":
            fresh = check_program(e["src"], new_kwargs())
            others = [("history" if e.get("history") else "repeat", r)
                      for r in check_with_history(e.get("history", []), e["src"], times=e.get("times", 1))]
            e["_fresh"], e["_others"] = fresh, others
    for job in jobs:
        res = finish_under_seed(job)
        for e, r in zip(seeded, res):
            e["_others"].append(("seed%d" % job[2], r))
    for e, hist, prog, ja, jh in pjobs:
        ra, rh = finish_proc_job(ja), finish_proc_job(jh)
        if ra["rendering"] != rh["rendering"] or rh["changes"]:
            ctx.candidate({"kind": "process-history", "history": hist, "program": prog, "share": True},
                          "corpus: a program's diagnostics / the process-level state depend on unrelated programs checked earlier "
                          "in the process (%d diagnostics differ; %s)" % (
                              sum(1 for a, b in zip(ra["rendering"], rh["rendering"]) if a != b), (rh["changes"] or [[""] * 4])[0][3][:120]),
                          cls=None, conforms=True, stream="corpus")
    for e in entries:
        if e["kind"] != "program":
            continue
        fresh = e["_fresh"]
        for label, r in e["_others"]:
            if r == fresh:
                continue
            same, diffs = diff_positions(fresh, r)
            i = j = None
            if with_model:
                if same and diffs:
                    i = B.add("cls", e.get("hint", ""), diffs[0][2], diffs[0][3])
                if e.get("model"):
                    m = e["model"]
                    j = B.add("hist", m["reqs"], "", m.get("ranks", ""), m.get("fuel", 8), ",".join(m["history"]), m["query"],
                              impl_variant())

            def c(i=i, j=j, e=e, fresh=fresh, r=r, label=label):
                cls, conforms = None, True
                if i is not None and B.kv(i).get("D") not in (None, "-"):
                    cls = B.kv(i).get("D")
                elif j is not None and label == "history":
                    kv = B.kv(j)
                    cls = kv.get("D") if kv.get("D") not in (None, "-") else None
                    conforms = kv.get("ans", "?")[-1:] != kv.get("fresh")   # the model shows the same dependence
                ctx.candidate({"program": e["src"], "history": e.get("history", []), "fresh": fresh, "other": r, "run": label},
                              "corpus: diagnostics differ from those of a fresh check (%s)" % label, cls=cls,
                              conforms=conforms, stream="corpus")
            post.append(c)
            break


def _run(ctx, with_model):
    B, post = Batch(), []
    tag = "c10w%d%s" % (ctx.seed, "w" if ctx.widened else "")
    run_corpus(ctx, B, post, with_model)
    rng = ctx.rng
    sm = small_worlds(tag)
    ctx.extra["exhaustive_part"] = ("%d protocol worlds of the smallest recursive shape (all slot fillings), sampled to %d by the "
                                    "seed in the quick tier; small parameter values of every snippet kind" % (len(sm), ctx.n(12, len(sm))))
    if not ctx.big():
        sm = rng.sample(sm, 12)
    worlds = sm + [random_world(rng, "%s_r%d" % (tag, i)) for i in range(ctx.n(18, 240))]
    for w in worlds:
        w.load(ctx)
    watch_sites, kinds = scan_caches(pya.REPO), cache_kinds()
    proc_pairs = start_procstate(ctx)      # fresh interpreters, in the background
    import_jobs = start_importstate(ctx)
    probe = MemoProbe(scan_memo_keys(pya.REPO))
    api_sites(ctx, B, post)
    api_unify(ctx, B, post)
    api_memo(ctx, B, post)
    api_worlds(ctx, B, post, worlds, watch_sites, kinds)
    e2e_worlds = rng.sample(worlds, ctx.n(4, 16))
    chk0 = pya.make_checker()
    for w in e2e_worlds:
        w.wellfounded = w.ranks(member_orders(w, chk0)) is not None
    with probe:
        routes_stream(ctx, probe)
        probe.label = None
        pending = e2e(ctx, B, post, e2e_worlds, with_model, watch_sites, kinds)
    probe_candidates(ctx, probe)
    finish_procstate(ctx, proc_pairs)
    finish_importstate(ctx, import_jobs)
    if with_model:
        B.run()
        for f in post:
            f()
        B2 = Batch()
        idx = []
        for case, what, cls, conforms in pending:
            if cls is not None:
                idx.append(B2.add("cls", cls[1], cls[2], cls[3]))
            else:
                idx.append(None)
        B2.run()
        for (case, what, cls, conforms), i in zip(pending, idx):
            c = None
            if i is not None:
                d = B2.kv(i).get("D")
                c = d if d not in (None, "-") else None
                if c is not None and c != ORDER_CLASS.get(cls[1]):
                    c = None
            ctx.candidate(case, what + ": %r / %r" % (case["text_fresh"][:120], case["text_other"][:120]), cls=c,
                          conforms=conforms, stream="e2e")
    else:
        post[-1]()  # the end-to-end evaluation alone (no model: every difference is a candidate outside every class)
        for case, what, cls, conforms in pending:
            ctx.candidate(case, what, cls=None, conforms=True, stream="e2e")


def run(ctx):
    _run(ctx, True)


def run_impl_only(ctx):
    _run(ctx, False)


def replay(ctx, data):
    case = data["case"]
    out = {"case": {k: v for k, v in case.items() if k in ("run", "query", "history_queries", "line", "col")}}
    differs = False
    if case.get("kind") == "memo-key":
        probe = MemoProbe(scan_memo_keys(pya.REPO))
        with probe:
            for src in case.get("programs", []):
                if src:
                    probe.label = src
                    check_program(src, new_kwargs())
        conf = [c for c in probe.conflicts() if c[0] == case["function"]]
        out.update(conflicts=[[c[0], c[1], c[2], c[3][:200], c[5], c[6][:200]] for c in conf[:3]])
        differs = bool(conf)
    elif case.get("kind") == "process-history":
        jobs = {"alone": start_proc_job(ctx, {"history": [], "program": case["program"], "share": True, "watch": False}, "rp-alone"),
                "after": start_proc_job(ctx, {"history": case["history"], "program": case["program"], "share": case.get("share", True),
                                              "watch": True}, "rp-after")}
        res = {k: finish_proc_job(j) for k, j in jobs.items()}
        nd = sum(1 for a, b in zip(res["alone"]["rendering"], res["after"]["rendering"]) if a != b)
        out.update(diagnostics=len(res["alone"]["rendering"]), differing=nd, process_state_changes=res["after"]["changes"][:3],
                   example=next(((a, b) for a, b in zip(res["alone"]["rendering"], res["after"]["rendering"]) if a != b), None))
        differs = nd > 0 or bool(res["after"]["changes"])
    elif case.get("function") == "unify_bounds_maps":
        from typing import TypeVar
        from pyanalyze.value import KnownValue, LowerBound, unify_bounds_maps
        tvs = [TypeVar("U%d" % i) for i in range(3)]
        maps = [{tvs[int(e.split(":")[0])]: [LowerBound(tvs[int(e.split(":")[0])], KnownValue(int(t))) for t in e.split(":")[1].split(".") if t]
                 for e in m.split(";") if e} for m in case["maps"]]
        before = [repr(m) for m in maps]
        unify_bounds_maps(maps)
        out.update(arguments_before=before, arguments_after=[repr(m) for m in maps])
        differs = out["arguments_before"] != out["arguments_after"]
    elif case.get("kind") == "proto-api-cache":
        from pyanalyze.value import CanAssignError, KnownValue, LowerBound, unify_bounds_maps
        w = world_from_source(ctx, case["world"], "c10replay_%s" % hashlib.sha256(case["world"].encode()).hexdigest()[:8])
        chk = pya.make_checker()
        watch = CacheWatch(scan_caches(pya.REPO), cache_kinds())
        changes = []

        def after(r):
            if not isinstance(r, CanAssignError):
                unify_bounds_maps([r, {w.module.T: [LowerBound(w.module.T, KnownValue(watch.steps))]}])
            changes.extend(watch.step(chk))
        api_history(w, chk, [parse_q(t) for t in case["history"]], after=after)
        out.update(cache_entries_changed=[c[:4] for c in changes])
        differs = bool(changes)
    elif case.get("kind") == "proto-api":
        after, fresh = replay_proto_api(ctx, case)
        out.update(after_history=after, fresh=fresh)
        differs = after != fresh
    else:
        src = case["program"]
        fresh = check_program(src, new_kwargs())
        label = case.get("run", "repeat")
        results = {}
        if label.startswith("seed"):
            seeds = [int(label[4:])] + [1, 2, 3]
            for s in seeds:
                results["seed%d" % s] = finish_under_seed(start_under_seed(ctx, [src], s, "replay"))[0]
        elif label.startswith("history") or case.get("history"):
            results["after-history"] = check_with_history(case.get("history", []), src)[0]
        if case.get("kind") == "cache-mutation":
            kw = new_kwargs()
            watch = CacheWatch(scan_caches(pya.REPO), cache_kinds())
            changes = []
            for h in case.get("history", []) + [src, src]:
                check_program(h, kw)
                changes += watch.step(kw["checker"])
            out["cache_entries_changed"] = [c[:4] for c in changes]
            differs = differs or bool(changes)
        for n, r in enumerate(check_with_history([], src, times=6)):
            results["repeat%d" % n] = r
        bad = {k: r for k, r in results.items() if r != fresh}
        out.update(fresh=fresh, differing=bad)
        differs = differs or bool(bad)
    print(json.dumps(out, indent=1, default=str))
    return 1 if differs else 0
