"""C11 — suppression and enabling are a pure projection of the diagnostics.

Streams
  e2e-disable : generated program P, subsets S of its codes disabled (command-line route = the settings dict
                `main()` builds from -d; config-file option; per-module override against a top-level "on"; an
                override for another package as negative control; a few true `python -m pyanalyze -d …`
                subprocess runs)                    property: D(P, S) == [d in D(P): code(d) not in S]
  e2e-comment : P + one ignore comment: trailing form on every code line, own-line form before every line and
                after the last one, x {bare, code of a diagnostic there, second code there, foreign code}
  e2e-multi   : P + several random comments (overlapping ones, leading blocks included)
                property (both): D(P + comments) == D(P) minus the targeted diagnostics, plus one unused_ignore per
                comment that targets nothing and one bare_ignore per bare comment (oracle: `expected()` below, pure
                Python over D(P) and the comment placements, no pyanalyze code involved)
  unit        : synthetic (file lines, disabled codes, sequence of show_error calls) fed to the *real*
                NameCheckVisitor.show_error / show_errors_for_unused_ignores / show_errors_for_bare_ignores
  options     : synthetic option-instance lists -> real Options.is_error_code_enabled
  lines       : random small sources -> the real _lines() and the positions CPython's parser assigns
  layers      : every combination of routes on the same code: config top level, extended config, per-module overrides
                (module / parent / grandparent / unrelated package, extended file), -e / -d, --enable-all / --disable-all,
                through prepare_constructor_kwargs (settings dict + config_file) and through the real parser + main()
                in-process; property: D(P, stack) == [d in D(P, all on) : documented precedence(code d)]
  model       : lake env lean --run Driver/C11.lean  (C11.check, C11.specCheck, C11.pyLines / tokLines, the D11
                classes, C11.isErrorCodeEnabled)
Correspondence: every real run records the raw stream of show_error calls (a recording subclass of
NameCheckVisitor); the Lean model is fed (the visitor's own _lines() of the source, disabled codes, raw stream) and must
reproduce the failure list in order and the set used_ignores; C11.pyLines must reproduce _lines() (stream splitlines).
unit/options compare directly. Spec validation: Lean specCheck == Python oracle on the single-comment cases (stream spec); Lean tokLines == CPython's line numbering (stream spec-toklines); Lean model ==
Lean spec on the well-formed unit cases (stream model-vs-spec; this is theorem check_eq_spec).
No exception class is left: the two former ones (lineOneWrap, splitlinesMismatch) were repaired in /repo (0cba813,
ba62f49), any difference in those regions is a new violation; their witnesses stay in corpus/C11.jsonl.
"""
import ast, contextlib, io, itertools, json, os, re, subprocess, sys, types

from harness.common import lean, pya

WIDEN_FACTOR = 3  # the anchor-/obligation-widened quick run stays well inside the time limit
PROP = "C11"
LEAN_PROP = "PyaModel.Props.C11"
NAMESPACE = "Pya.C11"
LEAN_TARGETS = ["PyaModel.Spec.Suppress"]
ANCHORS = [
    ("pyanalyze/node_visitor.py", "BaseNodeVisitor.show_error"),
    ("pyanalyze/node_visitor.py", "BaseNodeVisitor.has_file_level_ignore"),
    ("pyanalyze/node_visitor.py", "BaseNodeVisitor.get_unused_ignores"),
    ("pyanalyze/node_visitor.py", "BaseNodeVisitor.show_errors_for_unused_ignores"),
    ("pyanalyze/node_visitor.py", "BaseNodeVisitor.show_errors_for_bare_ignores"),
    ("pyanalyze/node_visitor.py", "BaseNodeVisitor.catch_errors"),
    ("pyanalyze/node_visitor.py", "BaseNodeVisitor._lines"),
    ("pyanalyze/name_check_visitor.py", "NameCheckVisitor.is_enabled"),
    ("pyanalyze/name_check_visitor.py", "NameCheckVisitor.check"),
    ("pyanalyze/name_check_visitor.py", "NameCheckVisitor.prepare_constructor_kwargs"),
    ("pyanalyze/options.py", "Options.is_error_code_enabled"),
    ("pyanalyze/options.py", "Options.from_option_list"),
    ("pyanalyze/options.py", "ConfigOption.sort_key"),
    ("pyanalyze/options.py", "ConfigOption.is_applicable_to"),
    ("pyanalyze/options.py", "ConfigOption.get_value_from_instances"),
]
RULE = (
    "programs: header (optional leading comment lines / docstring, a line-1 diagnostic or not), 1-3 functions and an "
    "optional class whose bodies are drawn from ~25 statement templates producing undefined_name, incompatible_call, "
    "incompatible_argument, unsupported_operation, undefined_attribute, incompatible_assignment, incompatible_return_value, "
    "not_callable, bad_unpack, duplicate_dict_key, … (several per line, multi-line statements, nested blocks); every "
    "program executes and has a non-empty D(P). disable: all subsets of the occurring codes (<=5 codes: all; more: "
    "singletons, co-singletons, all, random). comments: every line x both forms x {bare, matching, foreign}, first and "
    "last line included; then random multi-comment variants. unit: all files of <=2 lines over 12 line kinds x all "
    "single calls, then random files (<=6 lines over 27 kinds) x random call sequences (<=6 calls: duplicates, None / "
    "positionless / _FakeNode nodes, code None, obey_ignore / save off, captured calls, line numbers outside the file); "
    "programs with a form feed line / a splitlines()-only line boundary inside a string or comment; a profile with "
    "every error code switched on. "
    "non-trivial = a case in which a comment or a disabled code removes at least one diagnostic or an unused/bare "
    "report is produced"
)
ASSUMPTIONS = [
    "raw-stream independence (DESIGN C11): the sequence of show_error calls the visitor makes does not depend on the "
    "settings or on comments (up to the line shift of an inserted comment line); not proved, checked here on every "
    "real run (the property search compares real outputs, the tag raw_stream_differs counts differing call sequences)",
    "diagnostics are identified by (code, lineno, col_offset, first line of the message); their order is compared "
    "only between implementation and model of the same run (the order of some calls follows set iteration, C10)",
    "comments are inserted into programs that contain no ignore-comment text of their own (also not inside string "
    "literals); a coded comment in the leading block is read as whole-file ignore for that code (the code's behaviour; "
    "README says codes do not work for whole-file ignores)",
    "with overlapping comments (two comments targeting one diagnostic) the oracle accepts either as the used one",
]
TRUSTED = [
    "Python oracle `expected()` in harness/props/c11.py (position arithmetic over D(P)); Lean Spec/Suppress.lean is "
    "cross-checked against it on every run (stream spec)",
]

IC = "# static analysis: ignore"
A, B, C = "undefined_name", "incompatible_call", "bad_unpack"
FOREIGN = "duplicate_yield"  # a real code no template produces


# ------------------------------------------------------------------ constants regenerated from the live source
def _lean_str(x):
    return '"' + x.replace("\\", "\\\\").replace('"', '\\"') + '"'


# ---- mutable state / caches / in-place mutation sites of pyanalyze/options.py (obligation options_state_registered)
MUT_METHODS = {"append", "extend", "update", "add", "setdefault", "pop", "clear", "insert", "remove", "sort", "popitem", "discard", "appendleft"}
CACHE_DECOS = {"lru_cache", "cache", "cached_property", "cached_per_instance", "memoize", "cached"}
MUT_TYPES = {"dict", "list", "set", "Dict", "List", "Set", "defaultdict", "MutableMapping", "MutableSequence", "MutableSet", "deque", "OrderedDict"}

def _name_of(n):
    if isinstance(n, ast.Name): return n.id
    if isinstance(n, ast.Attribute): return _name_of(n.value) + "." + n.attr
    if isinstance(n, ast.Call): return _name_of(n.func) + "()"
    if isinstance(n, ast.Subscript): return _name_of(n.value) + "[]"
    return type(n).__name__

def _is_mut_type(ann):
    for n in ast.walk(ann):
        if isinstance(n, ast.Name) and n.id in MUT_TYPES: return True
        if isinstance(n, ast.Attribute) and n.attr in MUT_TYPES: return True
    return False

def _is_mut_value(v):
    if isinstance(v, (ast.Dict, ast.List, ast.Set, ast.DictComp, ast.ListComp, ast.SetComp)): return True
    if isinstance(v, ast.Call):
        f = _name_of(v.func).split(".")[-1]
        if f in ("dict", "list", "set", "defaultdict", "deque", "OrderedDict"): return True
        if f == "field":
            return any(k.arg == "default_factory" for k in v.keywords)
    return False

def scan_state(src):
    tree = ast.parse(src)
    out = []
    def in_scope(qual, node):
        for ch in ast.iter_child_nodes(node):
            if isinstance(ch, ast.ClassDef):
                q = (qual + "." if qual else "") + ch.name
                for st in ch.body:
                    if isinstance(st, ast.AnnAssign) and isinstance(st.target, ast.Name):
                        if (st.value is not None and _is_mut_value(st.value)) or (_is_mut_type(st.annotation) and "ClassVar" not in ast.dump(st.annotation) and st.value is not None):
                            out.append("state %s.%s" % (q, st.target.id))
                        elif st.value is not None and _is_mut_value(st.value):
                            out.append("state %s.%s" % (q, st.target.id))
                        elif "ClassVar" in ast.dump(st.annotation) and _is_mut_type(st.annotation):
                            out.append("state %s.%s" % (q, st.target.id))
                    elif isinstance(st, ast.Assign) and _is_mut_value(st.value):
                        for t in st.targets:
                            out.append("state %s.%s" % (q, _name_of(t)))
                in_scope(q, ch)
            elif isinstance(ch, (ast.FunctionDef, ast.AsyncFunctionDef)):
                q = (qual + "." if qual else "") + ch.name
                for d in ch.decorator_list:
                    dn = _name_of(d).replace("()", "").split(".")[-1]
                    if dn in CACHE_DECOS:
                        out.append("cache %s @%s" % (q, dn))
                for n in ast.walk(ch):
                    # in-place mutation of something reachable from an object (attribute / subscript of attribute)
                    if isinstance(n, ast.AugAssign) and isinstance(n.target, (ast.Attribute, ast.Subscript)):
                        out.append("mutate %s: %s %s=" % (q, _name_of(n.target), type(n.op).__name__))
                    elif isinstance(n, (ast.Assign, ast.AnnAssign)):
                        ts = n.targets if isinstance(n, ast.Assign) else [n.target]
                        for t in ts:
                            if isinstance(t, ast.Subscript) and isinstance(t.value, ast.Attribute):
                                out.append("mutate %s: %s[...] =" % (q, _name_of(t.value)))
                            if isinstance(t, ast.Attribute) and not (isinstance(t.value, ast.Name) and t.value.id == "self" and ch.name in ("__init__", "__post_init__")):
                                out.append("mutate %s: %s =" % (q, _name_of(t)))
                    elif isinstance(n, ast.Call):
                        f = n.func
                        if isinstance(f, ast.Attribute) and f.attr in MUT_METHODS and isinstance(f.value, (ast.Attribute, ast.Subscript)):
                            out.append("mutate %s: %s.%s()" % (q, _name_of(f.value), f.attr))
                        fn = _name_of(f)
                        if fn.split(".")[-1] in ("iadd", "ior", "iconcat", "setattr", "__setattr__", "__iadd__"):
                            out.append("mutate %s: %s()" % (q, fn))
                        if fn.split(".")[-1] == "reduce" and len(n.args) < 3 and not any(k.arg == "initial" for k in n.keywords):
                            out.append("mutate? %s: reduce without initial value" % q)
                        for arg in n.args:
                            if isinstance(arg, (ast.Attribute, ast.Name)) and _name_of(arg).split(".")[-1] in ("iadd", "ior", "iconcat", "__iadd__"):
                                out.append("mutate %s: %s passed to %s" % (q, _name_of(arg), fn))
                        if fn.split(".")[-1] == "replace" and fn in ("replace", "dataclasses.replace"):
                            out.append("copy %s: dataclasses.replace" % q)
                in_scope(q, ch)
    in_scope("", tree)
    for st in tree.body:   # module-level mutable globals
        if isinstance(st, ast.Assign) and _is_mut_value(st.value):
            for t in st.targets: out.append("state <module>.%s" % _name_of(t))
        if isinstance(st, ast.AnnAssign) and st.value is not None and _is_mut_value(st.value):
            out.append("state <module>.%s" % _name_of(st.target))
    return sorted(set(out))



def translate(ctx):
    """Generated/EmitConsts.lean: the comment text, the look-ahead of the trailing-comment regex, and the codes the
    end-of-file passes are called with, read from the live pyanalyze. Proofs/C11.lean proves they are the ones the
    model uses (`decide`)."""
    import inspect, textwrap
    from pyanalyze import node_visitor
    from pyanalyze.name_check_visitor import NameCheckVisitor
    ic = node_visitor.IGNORE_COMMENT
    tree = ast.parse(textwrap.dedent(inspect.getsource(node_visitor.BaseNodeVisitor.show_error)))
    suffixes = []
    for n in ast.walk(tree):
        if isinstance(n, ast.Call) and isinstance(n.func, ast.Attribute) and n.func.attr == "search" and n.args \
                and isinstance(n.args[0], ast.JoinedStr):
            suffixes.append("".join(v.value for v in n.args[0].values if isinstance(v, ast.Constant)))
    if len(suffixes) != 1:
        raise ValueError("show_error: expected exactly one re.search(f\"…\") on the line text, found %r" % suffixes)
    tree = ast.parse(textwrap.dedent(inspect.getsource(NameCheckVisitor.check)))
    codes = {}
    for n in ast.walk(tree):
        if isinstance(n, ast.Call) and isinstance(n.func, ast.Attribute) and n.func.attr in (
                "show_errors_for_unused_ignores", "show_errors_for_bare_ignores"):
            a = n.args[0]
            codes[n.func.attr] = a.attr if isinstance(a, ast.Attribute) else ast.dump(a)
    if set(codes) != {"show_errors_for_unused_ignores", "show_errors_for_bare_ignores"}:
        raise ValueError("NameCheckVisitor.check no longer calls both end-of-file passes: %r" % codes)
    # the regex _lines() splits the contents with (ba62f49)
    ftree = ast.parse(open(os.path.join(pya.REPO, "pyanalyze", "node_visitor.py")).read())
    splits = []
    for cls in ast.walk(ftree):
        if isinstance(cls, ast.ClassDef) and cls.name == "BaseNodeVisitor":
            for fn in cls.body:
                if isinstance(fn, ast.FunctionDef) and fn.name == "_lines":
                    for n in ast.walk(fn):
                        if isinstance(n, ast.Call) and isinstance(n.func, ast.Attribute) and n.func.attr == "split" \
                                and isinstance(n.func.value, ast.Name) and n.func.value.id == "re" and n.args \
                                and isinstance(n.args[0], ast.Constant):
                            splits.append(n.args[0].value)
    if len(splits) != 1:
        raise ValueError("BaseNodeVisitor._lines: expected exactly one re.split(<constant>, …), found %r" % splits)
    text = (
        "/-! Regenerated by harness/props/c11.py `translate` from the live pyanalyze; do not edit. -/\n"
        "namespace Pya.C11.Gen\n\n"
        "/-- `pyanalyze.node_visitor.IGNORE_COMMENT` -/\n"
        "def ignoreComment : String := %s\n\n"
        "/-- constant part of the f-string regex `show_error` searches the line with, after `re.escape(ignore_comment)` -/\n"
        "def bareRegexSuffix : String := %s\n\n"
        "/-- error code `NameCheckVisitor.check` passes to `show_errors_for_unused_ignores` -/\n"
        "def unusedIgnoreCode : String := %s\n\n"
        "/-- error code `NameCheckVisitor.check` passes to `show_errors_for_bare_ignores` -/\n"
        "def bareIgnoreCode : String := %s\n\n"
        "/-- the regex `BaseNodeVisitor._lines` splits the file contents with -/\n"
        "def linesSplitRegex : String := %s\n\n"
        "/-- AST scan of pyanalyze/options.py: class attributes / dataclass fields holding a mutable container, caching\n"
        "decorators, in-place mutation sites (subscript / attribute assignment, augmented assignment, mutating method\n"
        "calls on attributes, in-place operators, reduce without an initial value), dataclasses.replace copies -/\n"
        "def optionsState : List String := [%s]\n\n"
        "end Pya.C11.Gen\n"
    ) % (_lean_str(ic), _lean_str(suffixes[0]), _lean_str(codes["show_errors_for_unused_ignores"]),
         _lean_str(codes["show_errors_for_bare_ignores"]), _lean_str(splits[0]),
         ",\n  ".join(_lean_str(x) for x in scan_state(open(os.path.join(pya.REPO, "pyanalyze", "options.py")).read())))
    lean.write_if_changed(os.path.join(lean.LEAN, "PyaModel", "Generated", "EmitConsts.lean"), text)


# ------------------------------------------------------------------ running the real thing
def _classes():
    from pyanalyze.name_check_visitor import NameCheckVisitor

    class Rec(NameCheckVisitor):
        """NameCheckVisitor that records every show_error call (the raw stream)."""

        _rec = None
        _last = []     # visitors created by main() (the argv route of the layers stream)

        def check(self, *a, **kw):
            if self._rec is None:
                self._rec = []
                type(self)._last.append(self)
            return super().check(*a, **kw)

        def show_error(self, node, e=None, error_code=None, **kw):
            if self._rec is not None:
                self._rec.append((
                    self.caught_errors is not None, node, error_code, e,
                    kw.get("obey_ignore", True), kw.get("save", True), kw.get("ignore_comment", IC)))
            return super().show_error(node, e, error_code, **kw)

        def show_errors_for_unused_ignores(self, error_code):
            # the raw stream is the visitor's calls; the end-of-file passes are part of the model
            self._rec_visit_end = len(self._rec) if self._rec is not None else 0
            return super().show_errors_for_unused_ignores(error_code)

    return NameCheckVisitor, Rec


_NCV = _REC = None
_KW = {}
_MODN = [0]
_PKG = re.compile(r"c11pkg2?(?:\.(?:sub|subx|deep))*\.m\d+b?")


def norm(text):
    return _PKG.sub("<mod>", pya.norm(text))


PROFILE = ["std"]   # "std": harness defaults (lint codes of pya.NOISY off); "wide": every code on


def settings_for(off, drop=()):
    if PROFILE[0] == "wide":
        st = {c: True for c in pya.ErrorCode}
    else:
        st = pya.default_settings(extra_on=("unused_ignore", "bare_ignore"))
    for c in off:
        st[getattr(pya.ErrorCode, c)] = False
    for c in drop:
        st.pop(getattr(pya.ErrorCode, c), None)
    return st


def model_off(off):
    """Every code that is off in the run: the harness defaults (pya.NOISY) plus the ones under test."""
    return sorted(c.name for c, on in settings_for(off).items() if not on)


def get_kwargs(ctx, route, off):
    """Constructor kwargs (incl. the Checker) for a set of disabled codes, by route; cached: one Checker serves many
    files, as in a normal pyanalyze run."""
    global _NCV, _REC
    if _NCV is None:
        _NCV, _REC = _classes()
    key = (PROFILE[0], route, tuple(sorted(off)))
    if key in _KW:
        return _KW[key]
    if route == "cmd":
        kw = _NCV.prepare_constructor_kwargs({"settings": settings_for(off)})
    else:
        from pathlib import Path
        path = os.path.join(ctx.scratch, "cfg-%s-%d.toml" % (route, len(_KW)))
        body = "".join("%s = false\n" % c for c in sorted(off))
        top = "".join("%s = true\n" % c for c in sorted(off))
        with open(path, "w") as f:
            if route == "cfg":
                f.write("[tool.pyanalyze]\n" + body)
            elif route == "ovr":
                # top level says on, the override for the package prefix of the generated module says off
                f.write("[tool.pyanalyze]\n" + top + "[[tool.pyanalyze.overrides]]\nmodule = \"c11pkg.sub\"\n" + body)
            elif route == "ovr-other":
                # negative control: the override is for a different package, so the codes stay on
                f.write("[tool.pyanalyze]\n" + top + "[[tool.pyanalyze.overrides]]\nmodule = \"c11pkg.subx\"\n" + body)
        kw = _NCV.prepare_constructor_kwargs({"settings": settings_for((), drop=off), "config_file": Path(path)})
    while len(_KW) >= 100:          # a Checker holds ~9 MB of caches; keep the most recent ones
        _KW.pop(next(iter(_KW)))
    _KW[key] = kw
    return kw


def real_run(ctx, src, off=(), route="cmd", kwargs=None, want_visitor=False, modname=None):
    """Check `src` with real pyanalyze. Returns (failures, raw stream, used_ignores, lines).
    failures: (code, lineno, col, message); raw: dicts; node identities renumbered by first appearance;
    lines: what the visitor's own _lines() yields for the source (without the "\n" it appends)."""
    from pyanalyze.analysis_lib import make_module
    if kwargs is None:
        kwargs = get_kwargs(ctx, route, off)
    _MODN[0] += 1
    name = modname or "c11pkg.sub.m%d" % _MODN[0]
    tree = ast.parse(src)
    mod = make_module(src, {"__name__": name})
    sys.modules[name] = mod
    try:
        with contextlib.redirect_stderr(io.StringIO()), contextlib.redirect_stdout(io.StringIO()):
            v = _REC(mod.__name__, src, tree, module=mod, **kwargs)
            v._rec = []
            res = v.check()
    finally:
        sys.modules.pop(name, None)
        for k in [k for k, m in sys.modules.items() if m is mod]:
            sys.modules.pop(k, None)
    fails = [(f["code"].name if f.get("code") is not None else None, f.get("lineno"), f.get("col_offset"),
              norm(f.get("description", "")).split("\n")[0]) for f in res]
    out = (fails, encode_raw(v._rec[:getattr(v, "_rec_visit_end", len(v._rec))]), sorted(v.used_ignores),
           real_lines(v))
    return out + (v,) if want_visitor else out


def real_lines(v):
    return [l[:-1] if l.endswith("\n") else l for l in v._lines()]


def lines_of_source(ctx, src):
    """BaseNodeVisitor._lines() of the real code for a source text."""
    global _NCV, _REC
    if _NCV is None:
        _NCV, _REC = _classes()
    v = _NCV("<lines>", src, ast.parse(""), module=types.ModuleType("c11lines"), **get_kwargs(ctx, "cmd", ()))
    return real_lines(v)


def encode_raw(rec):
    ids, msgs, out = {}, {}, []
    for cap, node, code, e, obey, save, ic in rec:
        fake = type(node).__name__ == "_FakeNode"
        if node is None:
            nk = "-"
        elif fake:
            nk = "f%d.%d" % (node.lineno, node.col_offset)
        else:
            nk = "n%d" % ids.setdefault(id(node), len(ids))
        has_pos = bool(node) and hasattr(node, "lineno") and hasattr(node, "col_offset")
        out.append({
            "cap": int(cap), "node": nk, "code": code.name if code is not None else None,
            "msg": "m%d" % msgs.setdefault(e, len(msgs)) if code is None else None,
            "line": node.lineno if has_pos else None, "col": node.col_offset if has_pos else None,
            "obey": int(obey), "save": int(save), "ic": ic})
    return out


# ------------------------------------------------------------------ driver protocol
def enc_line(l):
    return ".".join(str(ord(c)) for c in l) if l else "-"


def enc_raw(r):
    t = lambda x: "-" if x is None else str(x)
    return ",".join([str(r["cap"]), r["node"], t(r["code"]), t(r["msg"]), t(r["line"]), t(r["col"]),
                     str(r["obey"]), str(r["save"])])


def driver_line(off, lines, raw, src=None):
    base = "E|%s|%s|%s" % (",".join(sorted(off)) or "-", " ".join(enc_line(l) for l in lines),
                           " ".join(enc_raw(r) for r in raw))
    return base if src is None else base + "|" + enc_line(src)


def dec_lines(s):
    return ["" if t == "-" else "".join(chr(int(x)) for x in t.split(".")) for t in s.split(" ") if t != ""]


def parse_out(s):
    if s == "bad-op":
        return {"model": "bad-op", "used": "bad-op", "spec": "bad-op", "D": None, "sl": None}
    d = dict(x.split("=", 1) for x in s.split(" "))
    d["D"] = None if d.get("D") in (None, "-") else d["D"]
    d.setdefault("sl", None)
    return d


def show_fails(fails):
    t = lambda x: "-" if x is None else str(x)
    return ";".join("%s@%s" % (t(f[0]), "-" if f[1] is None else "%s.%s" % (f[1], t(f[2]))) for f in fails) or "-"


def show_used(used):
    return ",".join(str(u) for u in sorted(set(used))) or "-"


# ------------------------------------------------------------------ program generator
HEAD = ["import os", "def f(a: int, b: str = \"\") -> int:", "    return a"]
# (lines relative to the body indent, may be several; {n} = fresh number)
STMTS = [
    ["x{n} = undefined_{n}"],
    ["f(\"s\")"],
    ["f(1, 2, 3)"],
    ["y{n} = 1 + \"a\""],
    ["f(1)[0]"],
    ["os.nope{n}"],
    ["print(1,", "      undefined_{n})"],
    ["f(", "    undefined_{n},", "    2, 3)"],
    ["a{n}, b{n} = 1, 2, 3"],
    ["x{n}: int = \"s\""],
    ["[1, 2].nope{n}"],
    ["len(1, 2)"],
    ["nc{n} = 1", "nc{n}()"],
    ["if a:", "    pu{n} = 1", "print(pu{n})"],
    ["def inner{n}(z):", "    return z"],
    ["if f:", "    pass"],
    ["d{n} = {{1: 2, 1: 3}}"],
    ["f(undefined_{n}, 2, 3)"],
    ["f(\"s\", undefined_{n})"],
    ["print(undefined_{n}, undefined_{n}x)"],
    ["print(\"%d\" % \"x\")"],
    ["v{n} = 1"],
    ["pass"],
    ["print(f(1))"],
    [""],
    ["# an ordinary comment"],
    ["if a:", "    f(1, 2, 3)", "else:", "    undefined_{n}"],
    ["for i in range(3):", "    print(i + \"a\")"],
    ["while a:", "    a = undefined_{n}", "    break"],
]
LINE1 = [
    ["def g(): return undefined_z"],
    ["w: int = \"s\""],
    [],
    ["\"\"\"Docstring.\"\"\""],
    ["# leading comment"],
    ["#!/usr/bin/env python", "# second leading comment"],
    ["# leading comment", "", "# not leading any more"],
]
TAIL = [[], ["w2: int = \"s\""], ["def g2(): return undefined_y"], ["k = f(1)"], ["def g3() -> int: return \"s\""]]


def gen_program(rng, small=False):
    n = [0]

    def inst(t, ind):
        n[0] += 1
        return [(" " * ind + l.format(n=n[0])) if l else "" for l in t]

    lines = list(rng.choice(LINE1)) + HEAD
    for k in range(rng.randint(1, 2 if small else 3)):
        lines.append("def h%d(a: int) -> None:" % k)
        for _ in range(rng.randint(1, 3 if small else 5)):
            lines += inst(rng.choice(STMTS), 4)
        lines.append("    return None")
    if rng.random() < 0.4:
        lines += ["class K:", "    def m(self, a: int) -> int:"]
        for _ in range(rng.randint(1, 3)):
            lines += inst(rng.choice(STMTS), 8)
        lines.append("        return \"s\"")
    lines += rng.choice(TAIL)
    return lines


BREAKS = ["\x0c", "\x0b", "\x1c", "\x1d", "\x1e", "\x85", "\u2028", "\u2029"]


def inject_breaks(rng, lines):
    """Put characters that only str.splitlines() treats as line boundaries into a program: a form feed on a line of
    its own (the page break of GNU-style sources), or any of them inside a string literal or an ordinary comment."""
    lines = list(lines)
    for _ in range(rng.randint(1, 2)):
        kind = rng.random()
        at = rng.randint(1, len(lines))
        if kind < 0.4:
            lines.insert(at, "\x0c")
        elif kind < 0.7:
            ind = " " * (len(lines[at - 1]) - len(lines[at - 1].lstrip())) if lines[at - 1].strip() else ""
            if lines[at - 1].rstrip().endswith(":") or lines[at - 1].rstrip().endswith(","):
                continue
            lines.insert(at, "%ssb%d = \"a%sb\"" % (ind, at, rng.choice(BREAKS)))
        else:
            lines.insert(at, "# page%sbreak" % rng.choice(BREAKS))
    return lines


CORPUS_PROGRAMS = [
    # the design-time probe: a diagnostic on line 1, comment after the last line
    ["def g(): return undefined_z", "x = 1"],
    ["w: int = \"s\""],
    ["# leading", "def g(): return undefined_z", "def g2() -> int: return \"s\""],
]


# ------------------------------------------------------------------ variants and the oracle
def sel_text(sel):
    return IC if sel is None else "%s[%s]" % (IC, sel)


def apply_edits(base, edits):
    """edits: list of ("t", L, sel) trailing comment on 1-based base line L; ("o", L, indent, sel) own-line comment
    inserted before base line L (L = len+1: after the last line). Returns (new lines, newno: base lineno -> new
    lineno, comments: [(new lineno, col, form, sel)])."""
    ins = {}
    for e in edits:
        if e[0] == "o":
            ins.setdefault(e[1], []).append(e)
    trailing = {e[1]: e for e in edits if e[0] == "t"}
    out, newno, comments = [], {}, []
    for L in range(1, len(base) + 2):
        for e in ins.get(L, []):
            out.append(" " * e[2] + sel_text(e[3]))
            comments.append((len(out), e[2], "o", e[3]))
        if L <= len(base):
            l = base[L - 1]
            if L in trailing:
                comments.append((len(out) + 1, len(l) + 2, "t", trailing[L][2]))
                l = l + "  " + sel_text(trailing[L][2])
            out.append(l)
            newno[L] = len(out)
    return out, newno, comments


def matches(sel, code):
    return sel is None or sel == code


def expected(base_D, new_lines, newno, comments):
    """The property's right-hand side, from D(P) and the comment placements only.
    Returns (visible, must_unused, may_unused, bare) — all with new line numbers."""
    lead = 0
    while lead < len(new_lines) and new_lines[lead].startswith("#"):
        lead += 1
    D = [(c, newno.get(l, l), col, msg) for (c, l, col, msg) in base_D]

    def targets(cm, d):
        ln, col, form, sel = cm
        if not matches(sel, d[0]):
            return False
        if form == "o" and ln <= lead and col == 0:
            return True                       # leading file-level comment: the whole file
        if form == "t":
            return d[1] == ln                 # its own line
        return d[1] == ln + 1                 # the next line

    tby = [[cm for cm in comments if targets(cm, d)] for d in D]
    visible = [d for d, t in zip(D, tby) if not t]
    must_unused = [cm for cm in comments if not any(cm in t for t in tby)]
    may_unused = [cm for cm in comments if cm not in must_unused and all(len(t) > 1 for t in tby if cm in t)]
    bare = [cm for cm in comments if cm[3] is None]
    if any(cm[2] == "o" and cm[0] <= lead and cm[1] == 0 and cm[3] is None for cm in comments):
        # a bare file-level ignore also silences the reports about comments
        return visible, [], [], []
    # file-level comments naming unused_ignore / bare_ignore are not generated
    return visible, must_unused, may_unused, bare


def check_variant(ctx, stream, base, base_D, edits, got, extra_case=None):
    """Property check of one real run of P + comments. Returns a `what` string or None."""
    new_lines, newno, comments = apply_edits(base, edits)
    visible, must_unused, may_unused, bare = expected(base_D, new_lines, newno, comments)
    main = [g for g in got if g[0] not in ("unused_ignore", "bare_ignore")]
    un = [(g[1], g[2]) for g in got if g[0] == "unused_ignore"]
    br = [(g[1], g[2]) for g in got if g[0] == "bare_ignore"]
    what = []
    if sorted(main, key=repr) != sorted(visible, key=repr):
        gone = [d for d in visible if d not in main]
        extra = [d for d in main if d not in visible]
        if gone:
            what.append("diagnostic(s) no comment targets are suppressed: %s" % (gone[:3],))
        if extra:
            what.append("targeted diagnostic(s) still reported / new diagnostics: %s" % (extra[:3],))
    must = sorted((cm[0], cm[1]) for cm in must_unused)
    may = sorted((cm[0], cm[1]) for cm in may_unused)
    if not (all(m in un for m in must) and all(u in must or u in may for u in un) and len(un) == len(set(un))):
        what.append("unused_ignore reports %s, expected %s%s" % (sorted(un), must, " (optional %s)" % may if may else ""))
    if sorted(br) != sorted((cm[0], cm[1]) for cm in bare):
        what.append("bare_ignore reports %s, expected %s" % (sorted(br), sorted((cm[0], cm[1]) for cm in bare)))
    return "; ".join(what) or None


# ------------------------------------------------------------------ e2e evaluation
class Batch:
    """Collects real runs, then asks the Lean driver about all of them at once."""

    def __init__(self, ctx, with_model=True):
        self.ctx, self.with_model, self.items = ctx, with_model, []

    def add(self, stream, case, lines, off, fails, raw, used, what, spec_expect=None, nontriv=False, seen=None):
        # `lines` are the generator's lines (separated by "\n" = the tokenizer's lines); the model is fed `seen`,
        # what the visitor's own _lines() produced in that run, and the source itself
        src = "".join(l + "\n" for l in lines)
        self.items.append(dict(stream=stream, case=case, lines=list(lines) if seen is None else seen, src=src, off=off,
                               fails=fails, raw=raw, used=used, what=what, spec_expect=spec_expect, nontriv=nontriv))

    def flush(self):
        ctx, items = self.ctx, self.items
        self.items = []
        if not items:
            return
        outs = [None] * len(items)
        if self.with_model:
            outs = [parse_out(o) for o in lean.run_driver("C11", [driver_line(model_off(i["off"]), i["lines"], i["raw"], i["src"]) for i in items])]
        for it, mo in zip(items, outs):
            ctx.count(1, **{it["stream"].replace("-", "_"): 1})
            if it["nontriv"]:
                ctx.nontriv(json.dumps(it["case"], sort_keys=True, default=str))
            impl = show_fails(it["fails"])
            conforms = True
            cls = None
            if mo is not None:
                cls = mo["D"]
                ctx.corr(it["stream"])
                ctx.corr("splitlines")
                if mo["sl"] != "ok":
                    ctx.disagree("splitlines", it["case"], "_lines(): %r" % (it["lines"],), "C11.pyLines differs")
                got = "%s used=%s" % (impl, show_used(it["used"]))
                want = "%s used=%s" % (mo["model"], mo["used"])
                conforms = impl == mo["model"]
                if got != want:
                    if cls and impl == mo["spec"]:
                        # inside an exception class the implementation may also do what the spec says (repaired)
                        ctx.tag("repaired_in_class_" + cls)
                        conforms = False
                    else:
                        ctx.disagree(it["stream"], it["case"], got, want)
                if any(r["ic"] != IC for r in it["raw"]):
                    ctx.disagree(it["stream"], it["case"], "show_error called with a non-default ignore_comment", "not modelled")
                if it["spec_expect"] is not None and cls is None:
                    ctx.corr("spec")
                    if sorted(mo["spec"].split(";")) != sorted(it["spec_expect"].split(";")):
                        ctx.disagree("spec", it["case"], "python oracle: " + it["spec_expect"], "lean specCheck: " + mo["spec"])
                if cls:
                    ctx.tag("class_" + cls)
            if it["what"]:
                ctx.candidate(it["case"], it["what"], cls=cls, conforms=conforms, stream=it["stream"])


def spec_expectation(base_D, base, edits):
    """What the Lean spec should print for a single-comment variant (no overlap, so no ambiguity)."""
    new_lines, newno, comments = apply_edits(base, edits)
    visible, must_unused, may_unused, bare = expected(base_D, new_lines, newno, comments)
    if may_unused:
        return None
    return show_fails([(d[0], d[1], d[2]) for d in visible]
                      + [("unused_ignore", cm[0], cm[1]) for cm in must_unused]
                      + [("bare_ignore", cm[0], cm[1]) for cm in bare])


def raw_sig(raw, newno=None):
    """The raw stream as a multiset of calls (the order of some calls follows set iteration order, which varies
    from run to run — C10's subject — and node identities are renumbered per run)."""
    f = lambda l: newno.get(l, l) if (newno and l is not None) else l
    return sorted(((r["cap"], r["code"] or "", f(r["line"]) or 0, r["col"] or 0, r["obey"], r["save"]) for r in raw))


def program_case(ctx, batch, base, budget):
    """All streams for one base program. budget: dict of sizes."""
    rng = ctx.rng
    src = "\n".join(base) + "\n"
    try:
        D, raw0, used0, lines0 = real_run(ctx, src)
    except Exception as e:  # a generated program that does not run is a generator bug, not a finding
        ctx.tag("generator_rejects")
        ctx.notes.append("program rejected (%s: %s): %r" % (type(e).__name__, e, base[:6]))
        return
    if not D:
        ctx.tag("program_without_diagnostics")
        return
    ctx.tag("programs")
    ctx.tag("base_diagnostics", len(D))
    ctx.sample({"program": base, "D": [list(d[:3]) for d in D]}, limit=3)
    ctx.tag("profile_" + PROFILE[0])
    batch.add("e2e-base", {"program": base, "edits": [], "off": [], "profile": PROFILE[0]}, base, [], D, raw0, used0,
              None if not any(d[0] in ("unused_ignore", "bare_ignore") for d in D) else "unused/bare report on a program without comments",
              seen=lines0)
    codes = sorted({d[0] for d in D})
    sig0 = raw_sig(raw0)

    # ---- disabling codes
    if len(codes) <= budget["max_codes_all"]:
        subsets = [S for r in range(1, len(codes) + 1) for S in itertools.combinations(codes, r)]
    else:
        subsets = [(c,) for c in codes] + [tuple(x for x in codes if x != c) for c in codes] + [tuple(codes)]
        if len(codes) >= 4:
            subsets += [tuple(sorted(rng.sample(codes, rng.randint(2, len(codes) - 2)))) for _ in range(budget["extra_subsets"])]
        subsets = list(dict.fromkeys(subsets))
    routes = [("cmd", S) for S in subsets]
    for S in rng.sample(subsets, min(len(subsets), budget["cfg_routes"])):
        routes += [("cfg", S), ("ovr", S), ("ovr-other", S)]
    for route, S in routes:
        D2, raw2, used2, lines2 = real_run(ctx, src, off=S, route=route)
        exp = D if route == "ovr-other" else [d for d in D if d[0] not in S]
        what = None
        if sorted(D2, key=repr) != sorted(exp, key=repr):
            what = "disabling %s (%s): got %s, projection of D(P) is %s" % (
                list(S), route, [d[:3] for d in D2 if d not in exp][:3] or "fewer", [d[:3] for d in exp if d not in D2][:3] or "the rest")
        keep = lambda sig: [x for x in sig if x[1] not in S]
        if route != "ovr-other" and keep(raw_sig(raw2)) != keep(sig0):   # calls of other codes must be unaffected
            ctx.tag("raw_stream_differs_disable")
            ctx.notes.append("raw stream (codes outside S) differs when disabling %s in %r" % (list(S), base[:40]))
        ctx.tag("route_" + route.replace("-", "_"))
        batch.add("e2e-disable", {"program": base, "edits": [], "off": list(S), "route": route, "profile": PROFILE[0]}, base,
                  [] if route == "ovr-other" else list(S), D2, raw2, used2, what, nontriv=len(exp) < len(D), seen=lines2)

    # ---- one comment
    n = len(base)
    edits_list = []
    for L in range(1, n + 1):
        if base[L - 1].strip() and not base[L - 1].lstrip().startswith("#"):
            here = sorted({d[0] for d in D if d[1] == L})
            sels = [None, rng.choice(here) if here else rng.choice(codes), FOREIGN]
            if len(here) > 1:
                sels.append([c for c in here if c != sels[1]][0])
            edits_list += [[("t", L, s)] for s in sels]
    for L in range(1, n + 2):
        here = sorted({d[0] for d in D if d[1] == L})
        ind = len(base[L - 1]) - len(base[L - 1].lstrip()) if L <= n else 0
        if L <= n and not base[L - 1].strip():
            ind = rng.choice([0, 4])
        sels = [None, rng.choice(here) if here else rng.choice(codes), FOREIGN]
        edits_list += [[("o", L, ind, s)] for s in sels]
        if L == 1:
            edits_list += [[("o", 1, 2, s)] for s in sels[:2]]   # indented: not a file-level comment
    if len(edits_list) > budget["single"]:
        # always keep first-line and last-line placements
        keep = [e for e in edits_list if e[0][1] in (1, n, n + 1)]
        rest = [e for e in edits_list if e[0][1] not in (1, n, n + 1)]
        edits_list = keep + rng.sample(rest, max(0, budget["single"] - len(keep)))
    # ---- several comments
    for _ in range(budget["multi"]):
        k = rng.randint(2, 4)
        es, usedL = [], set()
        for _ in range(k):
            L = rng.randint(1, n + 1)
            here = sorted({d[0] for d in D if d[1] == L})
            s = rng.choice([None, rng.choice(here) if here else rng.choice(codes), rng.choice(codes), FOREIGN])
            if rng.random() < 0.5 and L <= n and base[L - 1].strip() and not base[L - 1].lstrip().startswith("#") and ("t", L) not in usedL:
                es.append(("t", L, s))
                usedL.add(("t", L))
            else:
                ind = len(base[L - 1]) - len(base[L - 1].lstrip()) if L <= n else 0
                es.append(("o", L, ind, s))
        edits_list.append(es)
    for edits in edits_list:
        new_lines, newno, comments = apply_edits(base, edits)
        nsrc = "\n".join(new_lines) + "\n"
        try:
            D2, raw2, used2, lines2 = real_run(ctx, nsrc)
        except SyntaxError:
            ctx.tag("variant_syntax_error")
            continue
        single = len(edits) == 1
        stream = "e2e-comment" if single else "e2e-multi"
        what = check_variant(ctx, stream, base, D, edits, D2)
        if raw_sig(raw2) != raw_sig(raw0, newno):
            ctx.tag("raw_stream_differs_comment")
        for e in edits:
            ctx.tag("form_" + ("trailing" if e[0] == "t" else "ownline"))
            ctx.tag("sel_" + ("bare" if e[-1] is None else "code"))
        nontriv = sorted(d[:3] for d in D2) != sorted((d[0], newno.get(d[1], d[1]), d[2]) for d in D)
        batch.add(stream, {"program": base, "edits": [list(e) for e in edits], "off": [], "profile": PROFILE[0]}, new_lines, [], D2, raw2, used2,
                  what, spec_expect=spec_expectation(D, base, edits) if single else None, nontriv=nontriv, seen=lines2)
    batch.flush()


# ------------------------------------------------------------------ unit stream (real show_error, synthetic calls)
UNIT_KINDS_SMALL = [
    "x = 1", "", "# plain", "x = 1  " + IC, "x = 1  " + IC + "[%s]" % A, IC, IC + "[%s]" % A, IC + "[%s]" % B,
    "    " + IC, "    " + IC + "[%s]" % A, "s = '" + IC + "'", IC + "[unused_ignore]",
]
UNIT_KINDS = UNIT_KINDS_SMALL + [
    "    y = f(2)", "#!shebang", "x = 1  " + IC + "[%s]" % B, IC + "  ", IC + "_not", IC + " [%s]" % A,
    "x = 1  %s[%s] %s" % (IC, A, IC), "x  %s[%s][%s]" % (IC, A, B), "#static analysis: ignore", IC + "[%s, %s]" % (A, B),
    IC + "[bare_ignore]", "\t" + IC + "\t", "x = 1  # Static analysis: ignore", IC + "[%s]x" % A, "x = '['  " + IC + "[",
    IC + "[", IC + "[]", " #", "#", IC[:-1], "x = 1  " + IC + "[%s" % A, "\u00a0" + IC + "\u3000",
]
UNIT_CODES = [A, B, None, "unused_ignore", "bare_ignore", C]


def unit_cases(ctx):
    rng = ctx.rng
    cases = []
    # exhaustive: files of <= 2 lines x one call
    files = [[]] + [[a] for a in UNIT_KINDS_SMALL] + [[a, b] for a in UNIT_KINDS_SMALL for b in UNIT_KINDS_SMALL]
    calls = []
    for ln in (0, 1, 2, 3):
        for code in (A, B, None):
            for obey in (1, 0):
                calls.append({"cap": 0, "node": "n0", "code": code, "msg": None if code else "m0", "line": ln, "col": 2,
                              "obey": obey, "save": 1})
    calls.append({"cap": 0, "node": "-", "code": A, "msg": None, "line": None, "col": None, "obey": 1, "save": 1})
    for f in files:
        for c in calls:
            cases.append((f, [], [c]))
    ctx.extra["unit_exhaustive"] = "%d files of <=2 lines over %d line kinds x %d single calls" % (len(files), len(UNIT_KINDS_SMALL), len(calls))
    cap = ctx.n(2000, 30000)
    if len(cases) > cap:
        rng.shuffle(cases)
        cases = cases[:cap]
        ctx.extra["unit_exhaustive"] += "; sampled down to %d by the seed" % cap
    # random
    for _ in range(ctx.n(3000, 40000)):
        nl = rng.randint(0, 6)
        f = [rng.choice(UNIT_KINDS if rng.random() < 0.7 else UNIT_KINDS_SMALL) for _ in range(nl)]
        off = [c for c in (A, B, "unused_ignore", "bare_ignore") if rng.random() < 0.15]
        nodes = {}
        raw = []
        for _ in range(rng.randint(0, 6)):
            r = rng.random()
            if r < 0.08:
                node, line, col = "-", None, None
            elif r < 0.14:
                node, line, col = "n9", None, None          # a node without position (ast.Module)
            elif r < 0.22:
                line, col = rng.randint(1, max(1, nl)), rng.randint(0, 3)
                node = "f%d.%d" % (line, col)
            else:
                k = rng.randint(0, 3)
                if k not in nodes:
                    hi = nl + 1 if rng.random() < 0.1 else max(1, nl)
                    nodes[k] = (rng.randint(0 if rng.random() < 0.05 else 1, hi), rng.randint(0, 9))
                node, (line, col) = "n%d" % k, nodes[k]
            code = rng.choice(UNIT_CODES)
            raw.append({"cap": int(rng.random() < 0.1), "node": node, "code": code,
                        "msg": None if code else rng.choice(["m0", "m1"]), "line": line, "col": col,
                        "obey": int(rng.random() < 0.85), "save": int(rng.random() < 0.9)})
        cases.append((f, off, raw))
    return cases


def unit_real(ctx, cases):
    """Feed the synthetic calls to a real NameCheckVisitor built on the file text."""
    from pyanalyze.node_visitor import _FakeNode
    E = pya.ErrorCode
    out = []
    empty_tree = ast.parse("")
    mod = types.ModuleType("c11unit")
    sink = io.StringIO()
    with contextlib.redirect_stderr(sink), contextlib.redirect_stdout(io.StringIO()):
        for idx, (f, off, raw) in enumerate(cases):
            if idx % 500 == 0:
                sink.seek(0)
                sink.truncate()
            kwargs = get_kwargs(ctx, "cmd", off)
            contents = "".join(l + "\n" for l in f)
            v = _NCV("<unit>", contents, empty_tree, module=mod, **kwargs)
            nodes = {}
            try:
                for r in raw:
                    nk = r["node"]
                    if nk == "-":
                        node = None
                    elif nk.startswith("f"):
                        a, b = nk[1:].split(".")
                        node = _FakeNode(int(a), int(b))
                    elif nk in nodes:
                        node = nodes[nk]
                    elif r["line"] is None:
                        node = nodes[nk] = ast.Module(body=[], type_ignores=[])
                    else:
                        node = nodes[nk] = ast.Name(id="x", ctx=ast.Load(), lineno=r["line"], col_offset=r["col"])
                    code = getattr(E, r["code"]) if r["code"] else None
                    msg = {"m0": "message zero", "m1": "message one"}.get(r["msg"], "some message")
                    if r["cap"]:
                        with v.catch_errors():
                            v.show_error(node, msg, error_code=code, obey_ignore=bool(r["obey"]), save=bool(r["save"]))
                    else:
                        v.show_error(node, msg, error_code=code, obey_ignore=bool(r["obey"]), save=bool(r["save"]))
                v.show_errors_for_unused_ignores(E.unused_ignore)
                v.show_errors_for_bare_ignores(E.bare_ignore)
                fails = [(x["code"].name if x.get("code") is not None else None, x.get("lineno"), x.get("col_offset"))
                         for x in v.all_failures]
                out.append("%s used=%s" % (show_fails(fails), show_used(v.used_ignores)))
            except Exception as e:
                out.append("EXC:%s used=-" % type(e).__name__)
    return out


def run_unit(ctx, with_model=True):
    cases = unit_cases(ctx)
    impl = unit_real(ctx, cases)
    model = None
    if with_model:
        model = [parse_out(o) for o in lean.run_driver("C11", [driver_line(model_off(off), f, raw) for f, off, raw in cases])]
    for i, (f, off, raw) in enumerate(cases):
        ctx.count(1, unit=1, **{"unit_lines_%d" % min(len(f), 6): 1})
        if impl[i].startswith("EXC"):
            ctx.tag("unit_exception")
        if model is not None:
            ctx.corr("unit")
            want = "%s used=%s" % (model[i]["model"], model[i]["used"])
            if impl[i] != want:
                if model[i]["D"] and impl[i].split(" used=")[0] == model[i]["spec"]:
                    ctx.tag("repaired_in_class_" + model[i]["D"])
                else:
                    ctx.disagree("unit", {"lines": f, "off": off, "raw": raw}, impl[i], want)
            if model[i]["D"]:
                ctx.tag("unit_class_" + model[i]["D"])
            elif model[i]["model"] != "EXC:IndexError" and not any(
                    (r["line"] is not None and r["obey"] and not (1 <= r["line"] <= len(f))) or r["node"].startswith("f") for r in raw):
                # outside the exception class, on well-formed streams, model and spec coincide (this is the theorem
                # check_eq_spec; evaluated here as a sanity check of the executable definitions)
                ctx.corr("model-vs-spec")
                if model[i]["model"] != model[i]["spec"]:
                    ctx.disagree("model-vs-spec", {"lines": f, "off": off, "raw": raw}, model[i]["model"], model[i]["spec"])
            if model[i]["model"] not in ("-", "EXC:IndexError") or model[i]["used"] != "-":
                ctx.nontriv("unit:" + json.dumps([f, off, raw], sort_keys=True))
        if i % 1499 == 0:
            ctx.sample({"unit": {"lines": f, "off": off, "calls": raw}, "pyanalyze": impl[i]})


# ------------------------------------------------------------------ options stream
def run_options(ctx, with_model=True):
    from pyanalyze.options import ConfigOption, Options
    rng = ctx.rng
    cases = []
    paths = [(), ("p",), ("p", "q"), ("p", "q", "r"), ("x",)]
    for _ in range(ctx.n(1500, 10000)):
        insts = []
        for _ in range(rng.randint(0, 5)):
            insts.append((rng.choice([A, A, B]), rng.random() < 0.5, rng.choice(paths), rng.random() < 0.3, rng.choice([0, 0, 1, 2])))
        cases.append((insts, rng.choice(paths), rng.choice([A, B, "unused_ignore"])))
    impl = []
    for insts, path, code in cases:
        objs = [ConfigOption.registry[n](v, app, cmd, pr) for (n, v, app, cmd, pr) in insts]
        impl.append("en=%d" % int(Options.from_option_list(objs).for_module(path).is_error_code_enabled(getattr(pya.ErrorCode, code))))
    model = None
    if with_model:
        ls = []
        for insts, path, code in cases:
            dflt = int(ConfigOption.registry[code].default_value)
            ls.append("O|%s|%s|%s|%d" % (" ".join("%s,%d,%s,%d,%d" % (n, v, ".".join(app) or "-", cmd, pr) for (n, v, app, cmd, pr) in insts),
                                        ".".join(path) or "-", code, dflt))
        model = lean.run_driver("C11", ls)
    for i, c in enumerate(cases):
        ctx.count(1, options=1)
        if model is not None:
            ctx.corr("options")
            if impl[i] != model[i]:
                ctx.disagree("options", {"insts": c[0], "path": c[1], "code": c[2]}, impl[i], model[i])


# ------------------------------------------------------------------ layers stream: every combination of routes
PER_CODE_LAYERS = ["top", "ext", "ovr_exact", "ovr_parent", "ovr_grand", "ovr_other", "ext_ovr", "cmd"]
EXH_LAYERS = ["top", "ext", "ovr_exact", "ovr_parent", "cmd"]       # x the global --enable-all/--disable-all
LAYER_PROGRAM = ["def g(): return undefined_z", "import os", "def h(a: int) -> None:", "    x = undefined_1", "    os.nope",
                 "    return None"]


# the module paths of a run, relative to the module the stack's overrides are written for (kind A), and the
# override layers that apply to each
KINDS = {
    "A": ("c11pkg.sub.m%d", ("ovr_exact", "ovr_parent", "ovr_grand", "ext_ovr")),   # the override's module
    "B": ("c11pkg.sub.m%db", ("ovr_parent", "ovr_grand")),                          # a sibling
    "C": ("c11pkg.sub.deep.m%d", ("ovr_parent", "ovr_grand")),                      # deeper under the parent
    "D": ("c11pkg.subx.m%d", ("ovr_other", "ovr_grand")),                           # the "unrelated" package
    "E": ("c11pkg2.m%d", ()),                                                       # outside everything
}


def oracle_enabled(a, allflag, default, kind="A"):
    """The documented precedence, written out: command line (-d, -e, then --enable-all / --disable-all), main file
    (most specific applicable override, else top level), extended file (override, else top level), default."""
    if a.get("cmd") is not None:
        return a["cmd"]
    if allflag == "E":
        return True
    if allflag == "D":
        return False
    applicable = KINDS[kind][1]
    for layer in ("ovr_exact", "ovr_parent", "ovr_other", "ovr_grand", "top", "ext_ovr", "ext"):
        if layer.startswith("ovr") or layer == "ext_ovr":
            if layer not in applicable:
                continue
        if a.get(layer) is not None:
            return a[layer]
    return default


def write_stack(ctx, rng, assign, modname, tag):
    """pyproject-style files for the config layers of `assign` ({code: {layer: bool}}). Returns (path of the main
    file or None, model encoding of the file stack)."""
    parts = modname.split(".")
    mods = {"ovr_exact": modname, "ovr_parent": ".".join(parts[:2]), "ovr_grand": parts[0], "ovr_other": parts[0] + ".subx"}
    ent = lambda layer: [(c, a[layer]) for c, a in assign.items() if a.get(layer) is not None]
    toml = lambda es: "".join("%s = %s\n" % (c, "true" if v else "false") for c, v in es)
    enc = lambda es: ",".join("%s=%d" % (c, v) for c, v in es) or "-"
    ext_used = bool(ent("ext") or ent("ext_ovr"))
    ovs = [(mods[l], ent(l)) for l in ("ovr_exact", "ovr_parent", "ovr_grand", "ovr_other") if ent(l)]
    rng.shuffle(ovs)        # specificity, not position, must decide
    if not (ent("top") or ovs or ext_used):
        return None, "-"
    main = os.path.join(ctx.scratch, "layers-%s.toml" % tag)
    body = "[tool.pyanalyze]\n"
    if ext_used:
        body += "extend_config = \"layers-%s-base.toml\"\n" % tag
    body += toml(ent("top"))
    for m, es in ovs:
        body += "[[tool.pyanalyze.overrides]]\nmodule = \"%s\"\n%s" % (m, toml(es))
    with open(main, "w") as f:
        f.write(body)
    model = "@".join([enc(ent("top"))] + ["%s:%s" % (m, enc(es)) for m, es in ovs])
    if ext_used:
        with open(os.path.join(ctx.scratch, "layers-%s-base.toml" % tag), "w") as f:
            f.write("[tool.pyanalyze]\n" + toml(ent("ext")))
            if ent("ext_ovr"):
                f.write("[[tool.pyanalyze.overrides]]\nmodule = \"%s\"\n%s" % (modname, toml(ent("ext_ovr"))))
        model += ";" + "@".join([enc(ent("ext"))] + (["%s:%s" % (modname, enc(ent("ext_ovr")))] if ent("ext_ovr") else []))
    return main, model


def _fails_of(v):
    return [(f["code"].name if f.get("code") is not None else None, f.get("lineno"), f.get("col_offset"),
             norm(f.get("description", "")).split("\n")[0]) for f in v.all_failures]


def layers_run(ctx, rng, base, assign, allflag, route, tag, kinds=("A",)):
    """One real run over the modules `kinds` (in that order) of `base` under the stack. Returns
    (per module: (kind, module name, failures, raw), the run's shared Options object, model encoding of the files)."""
    from pathlib import Path
    E = pya.ErrorCode
    enable = [c for c, a in assign.items() if a.get("cmd") is True]
    disable = [c for c, a in assign.items() if a.get("cmd") is False]
    src = "\n".join(base) + "\n"
    _MODN[0] += 1
    N = _MODN[0]
    names = {k: KINDS[k][0] % N for k in KINDS}
    main, model = write_stack(ctx, rng, assign, names["A"], tag)
    per = []
    if route == "argv":     # the real parser and main(): files on disk, modules imported from package directories
        paths = {}
        for k in kinds:
            rel = names[k].replace(".", "/") + ".py"
            d = os.path.dirname(os.path.join(ctx.scratch, rel))
            os.makedirs(d, exist_ok=True)
            while os.path.realpath(d) != os.path.realpath(ctx.scratch):
                open(os.path.join(d, "__init__.py"), "a").close()
                d = os.path.dirname(d)
            with open(os.path.join(ctx.scratch, rel), "w") as f:
                f.write(src)
            paths[k] = rel
        # _run_on_files sorts the file names: "./" prefixes put the modules into the wanted order
        ordered = ["./" * (len(kinds) - 1 - i) + paths[k] for i, k in enumerate(kinds)]
        assert sorted(ordered) == ordered
        argv = ["pyanalyze"] + (["--config-file", main] if main else [])
        argv += {"E": ["--enable-all"], "D": ["--disable-all"], None: []}[allflag]
        argv += [x for c in enable for x in ("-e", c)] + [x for c in disable for x in ("-d", c)] + ordered
        del _REC._last[:]
        old_argv, old_cwd = sys.argv, os.getcwd()
        try:
            sys.argv = argv
            os.chdir(ctx.scratch)
            sys.path.insert(0, ctx.scratch)       # as for `python -m pyanalyze` started in that directory
            with contextlib.redirect_stderr(io.StringIO()), contextlib.redirect_stdout(io.StringIO()):
                _REC.main()
        finally:
            sys.argv = old_argv
            os.chdir(old_cwd)
            if ctx.scratch in sys.path:
                sys.path.remove(ctx.scratch)
            for k in [k for k in sys.modules if _PKG.fullmatch(k)]:
                sys.modules.pop(k, None)
        seen_order = []
        for k in kinds:
            vs = [v for v in _REC._last if v.filename.endswith(paths[k])]
            if len(vs) != 1:
                raise RuntimeError("argv route: expected one visitor for %s, got %d" % (paths[k], len(vs)))
            v = vs[0]
            real_name = v.module.__name__ if v.module is not None else None
            if real_name != names[k]:
                raise RuntimeError("argv route: module imported as %r, expected %r" % (real_name, names[k]))
            seen_order.append(_REC._last.index(v))
            per.append((k, names[k], _fails_of(v), encode_raw(v._rec[:getattr(v, "_rec_visit_end", len(v._rec))])))
        if seen_order != sorted(seen_order):
            raise RuntimeError("argv route: modules were not checked in the requested order")
        options = v.checker.options
    else:                   # settings dict (what main() builds) + config_file through prepare_constructor_kwargs;
        if allflag == "E":  # one Checker, one visitor (checker.options.for_module) per module
            settings = {c: True for c in E}
        elif allflag == "D":
            settings = {c: False for c in E}
        else:
            settings = {}
        for c in enable:
            settings[getattr(E, c)] = True
        for c in disable:
            settings[getattr(E, c)] = False
        kw = {"settings": settings}
        if main:
            kw["config_file"] = Path(main)
        kwargs = _NCV.prepare_constructor_kwargs(kw)
        for k in kinds:
            fails, raw, _, _, v = real_run(ctx, src, kwargs=kwargs, want_visitor=True, modname=names[k])
            per.append((k, names[k], fails, raw))
        options = kwargs["checker"].options
    return per, options, model, names


def run_layers(ctx, with_model=True):
    """Every combination of routes on the same code, over several modules of one run: each code of a program gets a
    value (absent / on / off) in each layer — config top level, extended config, per-module override for the module /
    its parent / its grandparent / an unrelated package, an override in the extended file, -e / -d — plus
    --enable-all / --disable-all, through the real routes; the run checks one to three modules with different module
    paths (the override's module, a sibling, a deeper one, one in the unrelated package, one outside) in a chosen order.
    Property: for every module of the run, D(module, stack) == [d in D(module, everything on) : precedence(code d)]
    (oracle_enabled) — whatever else the run checked, in every order."""
    from pyanalyze.options import ConfigOption
    global _NCV, _REC
    if _NCV is None:
        _NCV, _REC = _classes()
    rng = ctx.rng
    E = pya.ErrorCode
    dflt = lambda c: bool(ConfigOption.registry[c].default_value)
    jobs = []       # (base, assign, allflag, route, kinds)

    def baseline(base, route):
        per, _, _, _ = layers_run(ctx, rng, base, {}, "E", route, "base")
        return per[0][2]

    def pick_kinds():
        r = rng.random()
        if r < 0.35:
            return [("A",)]
        ks = rng.sample(sorted(KINDS), 2 if r < 0.75 else 3)
        if "A" not in ks and rng.random() < 0.7:
            ks[0] = "A"
        perms = list(itertools.permutations(ks))
        rng.shuffle(perms)
        return perms[:2]          # the same stack, the same modules, two different orders

    # 1. exhaustive: one on-by-default and one off-by-default code of LAYER_PROGRAM, all 3^6 joint assignments
    base0 = LAYER_PROGRAM
    D0 = baseline(base0, "kwargs")
    codes0 = sorted({d[0] for d in D0})
    on = [c for c in codes0 if dflt(c)]
    off = [c for c in codes0 if not dflt(c)]
    if not on or not off:
        ctx.obligation_broken("layers-generator", "LAYER_PROGRAM no longer has an on-by-default and an off-by-default code: %r" % codes0)
        return
    pair = [on[0], off[0]]
    exh = [(vals, allflag) for vals in itertools.product([None, True, False], repeat=len(EXH_LAYERS)) for allflag in (None, "E", "D")]
    ctx.extra["layers_exhaustive"] = "codes %s of LAYER_PROGRAM x all %d assignments of layers %s x all-flag" % (pair, len(exh), EXH_LAYERS)
    cap = ctx.n(32, len(exh))
    if len(exh) > cap:
        exh = rng.sample(exh, cap)
        ctx.extra["layers_exhaustive"] += "; sampled down to %d by the seed" % cap
    for vals, allflag in exh:
        a = dict(zip(EXH_LAYERS, vals))
        assign = {}
        for c in codes0:
            if c in pair:
                assign[c] = dict(a, **{l: rng.choice([None, None, True, False]) for l in ("ovr_grand", "ovr_other", "ext_ovr")})
            else:
                assign[c] = {l: rng.choice([None, None, True, False]) for l in PER_CODE_LAYERS}
        for kinds in pick_kinds()[:1]:
            jobs.append((base0, assign, allflag, "argv" if rng.random() < 0.25 else "kwargs", kinds))
    # 2. random programs, every code its own random value in every layer
    PROFILE[0] = "std"
    for _ in range(ctx.n(2, 8)):
        base = gen_program(rng, small=True)
        for _ in range(ctx.n(3, 10)):
            route = "argv" if rng.random() < 0.3 else "kwargs"
            allflag = rng.choice([None, None, "E", "D"])
            assign_seed = rng.random()
            for kinds in pick_kinds():
                jobs.append((base, ("random", assign_seed), allflag, route, kinds))
    # ---- run
    baselines = {}
    results = []
    for idx, (base, assign, allflag, route, kinds) in enumerate(jobs):
        key = (tuple(base), route)
        if key not in baselines:
            try:
                baselines[key] = baseline(base, route)
            except Exception as e:
                ctx.tag("layers_generator_rejects")
                ctx.notes.append("layers: program rejected (%s: %s)" % (type(e).__name__, e))
                baselines[key] = None
        Dall = baselines[key]
        if not Dall:
            continue
        codes = sorted({d[0] for d in Dall})
        if isinstance(assign, tuple):       # the same random assignment for the two orders of one stack
            import random as _random
            r2 = _random.Random(assign[1])
            assign = {c: {l: r2.choice([None, None, True, False]) for l in PER_CODE_LAYERS} for c in codes}
        per, options, model_files, names = layers_run(ctx, rng, base, assign, allflag, route, "r%d" % idx, kinds)
        # one Options object, (module, code) pairs in shuffled order, twice
        pairs = [(k, c) for k in sorted(KINDS) for c in codes] * 2
        rng.shuffle(pairs)
        asked = [(k, c, bool(options.for_module(tuple(names[k].split("."))).is_error_code_enabled(getattr(E, c)))) for k, c in pairs]
        case = {"layers": {"program": base, "assign": assign, "all": allflag, "route": route, "modules": list(kinds)}}
        ctx.count(1, layers=1, **{"layers_route_" + route: 1, "layers_modules_%d" % len(kinds): 1})
        ctx.nontriv("layers:" + json.dumps(case, sort_keys=True, default=str))
        if idx % 97 == 0:
            ctx.sample({"layers": {"assign": {c: {k: v for k, v in a.items() if v is not None} for c, a in assign.items()},
                                   "all": allflag, "route": route, "modules": [n for _, n, _, _ in per],
                                   "D": {n: sorted({d[0] for d in f}) for _, n, f, _ in per}}})
        what = None
        for k, name, fails, raw in per:
            exp = [d for d in Dall if oracle_enabled(assign.get(d[0], {}), allflag, dflt(d[0]), k)]
            if sorted(fails, key=repr) != sorted(exp, key=repr) and what is None:
                wrong = sorted({d[0] for d in fails if d not in exp} | {d[0] for d in exp if d not in fails})
                c = wrong[0]
                what = "module %s (%s of %s in one run), layers %s, all=%s (%s route): code %s is %s although the precedence says %s (default %s)" % (
                    name, k, "".join(kinds), {x: v for x, v in assign.get(c, {}).items() if v is not None}, allflag, route, c,
                    "reported" if any(d[0] == c for d in fails) else "not reported",
                    "on" if oracle_enabled(assign.get(c, {}), allflag, dflt(c), k) else "off", dflt(c))
        for k, c, got in asked:
            if got != oracle_enabled(assign.get(c, {}), allflag, dflt(c), k) and what is None:
                what = "one Options object: for_module(%s).is_error_code_enabled(%s) is %s, the precedence says %s (layers %s, all=%s)" % (
                    names[k], c, got, not got, {x: v for x, v in assign.get(c, {}).items() if v is not None}, allflag)
        results.append((case, assign, allflag, names, model_files, codes, per, asked, what))
    if not with_model:
        for case, *_, what in results:
            if what:
                ctx.candidate(case, what, cls=None, conforms=False, stream="layers")
        return
    qs, owners = [], []
    for ri, (case, assign, allflag, names, model_files, codes, per, asked, what) in enumerate(results):
        enable = [c for c, a in assign.items() if a.get("cmd") is True]
        disable = [c for c, a in assign.items() if a.get("cmd") is False]
        for k in sorted(KINDS):
            for c in codes:
                qs.append("L|%s|%s|%s|%s|%s|%s|%d" % (allflag or "-", ",".join(enable) or "-", ",".join(disable) or "-", model_files,
                                                      names[k], c, dflt(c)))
                owners.append((ri, k, c))
    outs = lean.run_driver("C11", qs) if qs else []
    model_en = {}
    for key, o in zip(owners, outs):
        model_en[key] = dict(x.split("=", 1) for x in o.split(" ")) if o != "bad-op" else {"en": "bad-op", "spec": "bad-op"}
    for ri, (case, assign, allflag, names, model_files, codes, per, asked, what) in enumerate(results):
        conforms = True
        for k, c, got in asked:
            d = model_en[(ri, k, c)]
            ctx.corr("layers")
            if d["en"] != str(int(got)):
                conforms = False
                ctx.disagree("layers", dict(case, module=names[k], code=c), "for_module(%s).is_error_code_enabled(%s) = %s" % (names[k], c, got),
                             "C11.enabledStack = %s" % d["en"])
        for k in sorted(KINDS):
            for c in codes:
                d = model_en[(ri, k, c)]
                ctx.corr("spec-layers")
                want = str(int(oracle_enabled(assign.get(c, {}), allflag, dflt(c), k)))
                if d["spec"] != want or d["en"] != d["spec"]:
                    ctx.disagree("spec-layers", dict(case, module=names[k], code=c), "python oracle %s" % want,
                                 "C11.specEnabled = %s, enabledStack = %s" % (d["spec"], d["en"]))
        for k, name, fails, raw in per:
            # the model's projection of the raw stream: first occurrences of the calls whose code the model switches on
            seen, proj = set(), []
            for r in raw:
                key = (r["node"], r["code"] or r["msg"])
                if r["cap"] or key in seen:
                    continue
                if r["code"] is not None and model_en.get((ri, k, r["code"]), {"en": "1"}).get("en") != "1":
                    continue
                seen.add(key)
                if r["save"]:
                    proj.append((r["code"], r["line"], r["col"]))
            ctx.corr("layers-projection")
            if proj != [f[:3] for f in fails]:
                conforms = False
                ctx.disagree("layers-projection", dict(case, module=name), show_fails(fails), show_fails(proj))
        if what:
            ctx.candidate(case, what, cls=None, conforms=conforms, stream="layers")


# ------------------------------------------------------------------ lines stream: _lines() and the tokenizer
def check_lines_case(ctx, src, py, tok):
    real = lines_of_source(ctx, src)
    ctx.corr("splitlines")
    if py != real:
        ctx.disagree("splitlines", {"src": src}, "_lines(): %r" % (real,), "C11.pyLines: %r" % (py,))
    try:
        tree = ast.parse(src)
    except SyntaxError:
        ctx.tag("lines_unparsable")
        return
    ctx.corr("spec-toklines")
    on = lambda ls, node: node.lineno <= len(ls) and re.search(
        r"(^|[^0-9a-z])%s =" % node.targets[0].id, ls[node.lineno - 1])
    for node in tree.body:
        if isinstance(node, ast.Assign):
            if not on(tok, node):
                ctx.disagree("spec-toklines", {"src": src}, "CPython puts %s on line %d" % (node.targets[0].id, node.lineno),
                             "C11.tokLines: %r" % (tok,))
                break
    for node in tree.body:
        if isinstance(node, ast.Assign) and not on(real, node):
            ctx.candidate({"src": src}, "the statement `%s = …` is on line %d for the parser, but _lines()[%d] is %r" % (
                node.targets[0].id, node.lineno, node.lineno - 1,
                real[node.lineno - 1] if node.lineno <= len(real) else None), cls=None, conforms=py == real, stream="lines")
            break



def run_lines(ctx, with_model=True):
    """Random small sources: C11.pyLines == the real _lines() (model), C11.tokLines == where CPython's parser puts
    the statements (spec), and — the property itself — the real _lines()[lineno - 1] is the line CPython puts the
    statement on."""
    rng = ctx.rng
    cases = []
    for k in range(ctx.n(400, 4000)):
        parts, n = [], 0
        for _ in range(rng.randint(0, 6)):
            r = rng.random()
            if r < 0.45:
                n += 1
                parts.append("v%d = %d" % (n, n))
            elif r < 0.6:
                parts.append("# c%sc" % rng.choice(BREAKS + [" "]))
            elif r < 0.75:
                n += 1
                parts.append("v%d = 'a%sb'" % (n, rng.choice(BREAKS)))
            elif r < 0.85:
                parts.append(rng.choice(["\x0c", "", "\x0c\x0c", " "]))
            else:
                n += 1
                parts.append("%sv%d = %d" % (rng.choice(["\x0c", ""]), n, n))
        src = "".join(p + rng.choice(["\n", "\n", "\n", "\r\n", "\r"]) for p in parts)
        if parts and rng.random() < 0.2:
            src = src.rstrip("\r\n")
        cases.append(src)
    cases += ["", "\n", "\r", "\r\n", "a\r\n\nb", "a\n\r", "\x0c"]
    model = lean.run_driver("C11", ["S|" + enc_line(c) for c in cases]) if with_model else None
    for i, src in enumerate(cases):
        ctx.count(1, lines=1)
        if model is None:
            continue
        m = re.match(r"py=(.*) tok=(.*)$", model[i])
        py, tok = dec_lines(m.group(1)), dec_lines(m.group(2))
        check_lines_case(ctx, src, py, tok)
        if py != tok:
            ctx.nontriv("lines:" + repr(src))


# ------------------------------------------------------------------ true command line (-d) in a subprocess
def run_cli(ctx, base):
    path = os.path.join(ctx.scratch, "cli_prog_%d.py" % ctx.rng.randint(0, 10 ** 9))
    with open(path, "w") as f:
        f.write("\n".join(base) + "\n")
    env = dict(os.environ, PYTHONPATH=pya.REPO, PYTHONHASHSEED="0")

    def cli(args):
        out = path + ".json"
        if os.path.exists(out):
            os.unlink(out)   # main() writes no report when there are no failures
        subprocess.run([sys.executable, "-m", "pyanalyze", "--json-output", out, *args, path], cwd=ctx.scratch, env=env,
                       capture_output=True, timeout=300)
        if not os.path.exists(out):
            return []
        return [(d.get("code"), d.get("lineno"), d.get("col_offset"), d.get("description", "").split("\n")[0])
                for d in json.load(open(out))]

    D = cli([])
    codes = sorted({d[0] for d in D})
    if not codes:
        return
    for S in [(c,) for c in codes[:ctx.n(2, 6)]] + [tuple(codes)]:
        D2 = cli([x for c in S for x in ("-d", c)])
        ctx.count(1, cli=1)
        exp = [d for d in D if d[0] not in S]
        if sorted(D2, key=repr) != sorted(exp, key=repr):   # order of equal-rank diagnostics is C10's business
            ctx.candidate({"program": base, "cli": ["-d " + c for c in S]},
                          "python -m pyanalyze -d %s: output is not the projection of the plain run" % ",".join(S),
                          cls=None, conforms=False, stream="cli")


# ------------------------------------------------------------------ entry points
def corpus():
    path = os.path.join(lean.HERE, "corpus", "C11.jsonl")
    out = []
    if os.path.exists(path):
        for l in open(path):
            if l.strip():
                out.append(json.loads(l))
    return out


def _run(ctx, with_model):
    import time
    batch = Batch(ctx, with_model)
    budget_small = dict(max_codes_all=ctx.n(3, 5), extra_subsets=ctx.n(1, 6), cfg_routes=ctx.n(1, 2), single=10 ** 6, multi=ctx.n(6, 20))
    budget_rand = dict(max_codes_all=ctx.n(2, 5), extra_subsets=ctx.n(1, 12), cfg_routes=ctx.n(1, 3),
                       single=ctx.n(70, 10 ** 6), multi=ctx.n(8, 25))
    timing = ctx.extra.setdefault("timing_s", {})
    t = [time.time()]

    def lap(name):
        timing[name] = round(timing.get(name, 0) + time.time() - t[0], 1)
        t[0] = time.time()

    # 1. corpus
    for item in corpus():
        if "program" in item and "edits" in item:
            replay_e2e(ctx, batch, item)
    batch.flush()
    replay_units(ctx, [item for item in corpus() if "lines" in item], with_model)
    PROFILE[0] = "std"
    for base in CORPUS_PROGRAMS:
        program_case(ctx, batch, base, budget_small)
    lap("corpus")
    # 2. small programs, every placement; 3. seeded random larger ones
    for _ in range(ctx.n(3, 10)):
        program_case(ctx, batch, gen_program(ctx.rng, small=True), budget_small)
    lap("small_programs")
    for _ in range(ctx.n(2, 26)):
        program_case(ctx, batch, gen_program(ctx.rng), budget_rand)
    lap("random_programs")
    for _ in range(ctx.n(1, 5)):   # sources where str.splitlines() and the tokenizer disagree (repaired by ba62f49)
        program_case(ctx, batch, inject_breaks(ctx.rng, gen_program(ctx.rng, small=True)), budget_rand)
    lap("break_programs")
    PROFILE[0] = "wide"      # every error code on: lint codes join the diagnostics and the subsets
    try:
        for _ in range(ctx.n(1, 10)):
            program_case(ctx, batch, gen_program(ctx.rng, small=ctx.tier == "quick" and not ctx.big()), budget_rand)
    finally:
        PROFILE[0] = "std"
    lap("wide_programs")
    run_unit(ctx, with_model)
    lap("unit")
    run_options(ctx, with_model)
    run_lines(ctx, with_model)
    lap("options_lines")
    run_layers(ctx, with_model)
    lap("layers")
    for _ in range(ctx.n(1, 3)):
        run_cli(ctx, gen_program(ctx.rng, small=True))
    lap("cli")
    ctx.extra["checkers_built"] = len(_KW)


def run(ctx):
    _run(ctx, True)


def run_impl_only(ctx):
    _run(ctx, False)


def replay_e2e(ctx, batch, item):
    base = item["program"]
    edits = [tuple(e) for e in item.get("edits", [])]
    off = item.get("off", [])
    route = item.get("route", "cmd")
    if item.get("cli"):
        return run_cli(ctx, base)
    src = "\n".join(base) + "\n"
    PROFILE[0] = item.get("profile", "std")
    D, raw0, used0, lines0 = real_run(ctx, src)
    if off:
        D2, raw2, used2, lines2 = real_run(ctx, src, off=off, route=route)
        exp = D if route == "ovr-other" else [d for d in D if d[0] not in off]
        what = None if sorted(D2, key=repr) == sorted(exp, key=repr) else "disabling %s (%s) is not a projection: got %s, expected %s" % (off, route, D2, exp)
        batch.add("e2e-disable", item, base, [] if route == "ovr-other" else off, D2, raw2, used2, what, seen=lines2)
    else:
        new_lines, newno, comments = apply_edits(base, edits)
        D2, raw2, used2, lines2 = real_run(ctx, "\n".join(new_lines) + "\n")
        what = check_variant(ctx, "e2e-comment", base, D, edits, D2)
        batch.add("e2e-comment" if len(edits) == 1 else "e2e-multi", {"program": base, "edits": [list(e) for e in edits], "off": []},
                  new_lines, [], D2, raw2, used2, what, spec_expect=spec_expectation(D, base, edits) if len(edits) == 1 else None,
                  seen=lines2)


def replay_units(ctx, items, with_model=True):
    if not items:
        return
    cases = [(it["lines"], it.get("off", []), it["raw"]) for it in items]
    global _NCV, _REC
    if _NCV is None:
        _NCV, _REC = _classes()
    impl = unit_real(ctx, cases)
    model = None
    if with_model:
        model = [parse_out(o) for o in lean.run_driver("C11", [driver_line(model_off(c[1]), c[0], c[2]) for c in cases])]
    for i, it in enumerate(items):
        ctx.count(1, unit=1)
        if model is not None:
            ctx.corr("unit")
            want = "%s used=%s" % (model[i]["model"], model[i]["used"])
            if impl[i] != want:
                ctx.disagree("unit", it, impl[i], want)


def replay_layers(ctx, L):
    from pyanalyze.options import ConfigOption
    global _NCV, _REC
    if _NCV is None:
        _NCV, _REC = _classes()
    E = pya.ErrorCode
    dflt = lambda c: bool(ConfigOption.registry[c].default_value)
    kinds = tuple(L.get("modules", ["A"]))
    Dall = layers_run(ctx, ctx.rng, L["program"], {}, "E", L["route"], "base")[0][0][2]
    per, options, _, names = layers_run(ctx, ctx.rng, L["program"], L["assign"], L["all"], L["route"], "replay", kinds)
    for k, name, fails, raw in per:
        exp = [d for d in Dall if oracle_enabled(L["assign"].get(d[0], {}), L["all"], dflt(d[0]), k)]
        if sorted(fails, key=repr) != sorted(exp, key=repr):
            ctx.candidate({"layers": L}, "module %s: reported %s, the precedence gives %s" % (
                name, sorted({d[0] for d in fails}), sorted({d[0] for d in exp})), cls=None, conforms=False, stream="layers")
    pairs = [(k, c) for k in sorted(KINDS) for c in sorted({d[0] for d in Dall})] * 2
    ctx.rng.shuffle(pairs)
    for k, c in pairs:
        got = bool(options.for_module(tuple(names[k].split("."))).is_error_code_enabled(getattr(E, c)))
        if got != oracle_enabled(L["assign"].get(c, {}), L["all"], dflt(c), k):
            ctx.candidate({"layers": L}, "one Options object: for_module(%s).is_error_code_enabled(%s) is %s" % (names[k], c, got),
                          cls=None, conforms=False, stream="layers")
            break


def replay(ctx, data):
    case = data.get("case") or (data.get("broken") or [{}])[0].get("case")
    if not case:
        print("nothing to replay in this file (no input recorded)")
        return 1
    batch = Batch(ctx, True)
    if "program" in case:
        replay_e2e(ctx, batch, case)
        batch.flush()
    elif "lines" in case:
        replay_units(ctx, [case])
    elif "layers" in case:
        replay_layers(ctx, case["layers"])
    elif "src" in case:
        m = re.match(r"py=(.*) tok=(.*)$", lean.run_driver("C11", ["S|" + enc_line(case["src"])])[0])
        check_lines_case(ctx, case["src"], dec_lines(m.group(1)), dec_lines(m.group(2)))
    elif "insts" in case:
        print("options case:", case)
    print(json.dumps({"case": case, "candidates": ctx.candidates, "broken": ctx.broken}, indent=1, default=str))
    return 1 if (ctx.candidates or ctx.broken) else 0
